package memnet

import (
	"io"
	"net"
	"sync"
	"time"
	"unsafe"
)

// Scheduled mode: the same in-memory transport, but every Read / Write /
// Accept / Close is a scheduling point of the cooperative scheduler and a
// thread never really blocks: an operation is only performed once the
// scheduler found it enabled. The hook is set by the scheduled harness
// (it cannot be imported here: the scheduler lives in the build overlay).

// Point is the scheduler hook: announce an operation, return when selected.
var Point func(kind string, obj uintptr, enabled func() bool)

func point(kind string, obj unsafe.Pointer, enabled func() bool) {
	if Point != nil {
		Point(kind, uintptr(obj), enabled)
	}
}

// SConn is the server side of a scheduled in-memory connection. All methods
// are //go:norace: the harness transport is not the code under test, and real
// locks here would add happens-before edges that hide library races.
type SConn struct {
	Remote Addr
	segs   [][]byte
	eof    bool
	closed bool
	out    []byte
	Closes int
	Reads  int
	Name   string
	mu     sync.Mutex // only used in free-running mode (no scheduler)
}

// NewSConn returns a connection whose input is pre-loaded with the given segments.
func NewSConn(remote string, segs [][]byte, eofAfter bool) *SConn {
	c := &SConn{Remote: Addr(remote), Name: remote, eof: eofAfter}
	for _, s := range segs {
		c.segs = append(c.segs, append([]byte(nil), s...))
	}
	return c
}

//go:norace
func (c *SConn) readable() bool { return len(c.segs) > 0 || c.eof || c.closed }

//go:norace
func (c *SConn) Read(p []byte) (int, error) {
	point("conn.read", unsafe.Pointer(c), c.readable)
	if Point == nil {
		c.mu.Lock()
		defer c.mu.Unlock()
		for !c.readable() {
			c.mu.Unlock()
			time.Sleep(50 * time.Microsecond) // free-running cross-check only; never used for verdicts
			c.mu.Lock()
		}
	}
	c.Reads++
	if c.closed {
		return 0, net.ErrClosed
	}
	if len(c.segs) > 0 {
		n := copy(p, c.segs[0])
		c.segs[0] = c.segs[0][n:]
		if len(c.segs[0]) == 0 {
			c.segs = c.segs[1:]
		}
		return n, nil
	}
	return 0, io.EOF
}

//go:norace
func (c *SConn) Write(p []byte) (int, error) {
	point("conn.write", unsafe.Pointer(c), nil)
	if Point == nil {
		c.mu.Lock()
		defer c.mu.Unlock()
	}
	if c.closed {
		return 0, net.ErrClosed
	}
	c.out = append(c.out, p...)
	return len(p), nil
}

//go:norace
func (c *SConn) Close() error {
	point("conn.close", unsafe.Pointer(c), nil)
	if Point == nil {
		c.mu.Lock()
		defer c.mu.Unlock()
	}
	c.closed = true
	c.Closes++
	return nil
}

// Push delivers one more input segment (environment thread).
//
//go:norace
func (c *SConn) Push(b []byte) {
	point("env.push", unsafe.Pointer(c), nil)
	if Point == nil {
		c.mu.Lock()
		defer c.mu.Unlock()
	}
	c.segs = append(c.segs, append([]byte(nil), b...))
}

// EOF ends the input (environment thread).
//
//go:norace
func (c *SConn) EOF() {
	point("env.eof", unsafe.Pointer(c), nil)
	if Point == nil {
		c.mu.Lock()
		defer c.mu.Unlock()
	}
	c.eof = true
}

//go:norace
func (c *SConn) Output() []byte { return append([]byte(nil), c.out...) }

//go:norace
func (c *SConn) IsClosed() bool { return c.closed }

// IsClosedSync is the free-running variant (takes the lock).
func (c *SConn) IsClosedSync() bool {
	c.mu.Lock()
	defer c.mu.Unlock()
	return c.closed
}

func (c *SConn) LocalAddr() net.Addr                { return Addr("mem:server") }
func (c *SConn) RemoteAddr() net.Addr               { return c.Remote }
func (c *SConn) SetDeadline(t time.Time) error      { return nil }
func (c *SConn) SetReadDeadline(t time.Time) error  { return nil }
func (c *SConn) SetWriteDeadline(t time.Time) error { return nil }

// SListener hands pre-registered and later-injected connections to Serve.
type SListener struct {
	queue  []net.Conn
	fail   error // the next Accept returns this error once (environment fault)
	closed bool
	Closes int
	// CloseErr is what Close reports (after it has closed the listener), e.g. because the owner of the listener
	// had closed it already
	CloseErr error
	mu       sync.Mutex
}

func NewSListener(conns ...net.Conn) *SListener { return &SListener{queue: conns} }

//go:norace
func (l *SListener) ready() bool { return len(l.queue) > 0 || l.closed || l.fail != nil }

//go:norace
func (l *SListener) Accept() (net.Conn, error) {
	point("listener.accept", unsafe.Pointer(l), l.ready)
	if Point == nil {
		l.mu.Lock()
		defer l.mu.Unlock()
		for !l.ready() {
			l.mu.Unlock()
			time.Sleep(50 * time.Microsecond)
			l.mu.Lock()
		}
	}
	if l.closed {
		return nil, net.ErrClosed
	}
	if l.fail != nil {
		err := l.fail
		l.fail = nil
		return nil, err
	}
	c := l.queue[0]
	l.queue = l.queue[1:]
	return c, nil
}

//go:norace
func (l *SListener) Close() error {
	point("listener.close", unsafe.Pointer(l), nil)
	if Point == nil {
		l.mu.Lock()
		defer l.mu.Unlock()
	}
	l.closed = true
	l.Closes++
	return l.CloseErr
}

//go:norace
func (l *SListener) Inject(c net.Conn) {
	point("env.connect", unsafe.Pointer(l), nil)
	if Point == nil {
		l.mu.Lock()
		defer l.mu.Unlock()
	}
	l.queue = append(l.queue, c)
}

// FailAccept makes the next Accept return err (e.g. "too many open files").
//
//go:norace
func (l *SListener) FailAccept(err error) {
	point("env.accept-fault", unsafe.Pointer(l), nil)
	l.fail = err
}

func (l *SListener) Addr() net.Addr { return Addr("mem:listener") }
