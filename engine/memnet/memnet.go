// Package memnet is an in-memory net.Listener / net.Conn pair that gives the
// harness total control over what every Read returns (segment boundaries,
// short reads, errors, EOF), captures every Write, observes Close, and detects
// quiescence ("the server is parked inside Read with no deliverable byte")
// without any wall-clock timing.
package memnet

import (
	"errors"
	"io"
	"net"
	"sync"
	"sync/atomic"
	"time"
)

// Addr is the address type of in-memory connections.
type Addr string

func (a Addr) Network() string { return "mem" }
func (a Addr) String() string  { return string(a) }

// MaxOut caps the captured output of one connection.
const MaxOut = 8 << 20

// ErrInjected is the error returned by injected transport faults.
var ErrInjected = errors.New("memnet: injected transport fault")

type segment struct {
	data  []byte
	zeros int64 // virtual run of zero bytes served after data (never materialised)
}

// Faults describes at which point the transport starts failing. Zero values
// disable a fault. Counters are 1-based.
type Faults struct {
	ReadErrAt      int  // the k-th Read call returns ErrInjected (and every later one)
	ReadShortAt    int  // the k-th Read call returns at most 1 byte
	WriteErrAt     int  // the k-th Write call fails (and every later one)
	WriteShort     bool // the failing write first accepts half of its bytes
	FailAfterRead  int  // after this many bytes were read every Read and Write fails
	ReadErrOnceAt  int  // the k-th Read call fails (nothing is delivered by it), every other read succeeds
	WriteErrOnceAt int  // the k-th Write call fails (nothing is written), every other write succeeds
	Timeout        bool // the injected failures are of the timeout kind (net.Error with Timeout() == true): an expired deadline, persistent like the others
}

// timeoutErr is what an expired deadline looks like.
type timeoutErr struct{}

func (timeoutErr) Error() string   { return "memnet: injected i/o timeout" }
func (timeoutErr) Timeout() bool   { return true }
func (timeoutErr) Temporary() bool { return true }

func (c *Conn) injected() error {
	if c.F.Timeout {
		return timeoutErr{}
	}
	return ErrInjected
}

// Conn is the server side of an in-memory connection. The harness is the client.
type Conn struct {
	mu   sync.Mutex
	cond *sync.Cond

	Local, Remote Addr
	// RemoteOverride, when set before the connection is handed to the server, is what RemoteAddr reports (a
	// *net.TCPAddr / *net.UnixAddr as a real listener would)
	RemoteOverride net.Addr
	// LocalOverride likewise for LocalAddr; CloseErr is what Close reports (the connection is closed all the same)
	LocalOverride net.Addr
	CloseErr      error
	onceDone      bool

	segs   []segment
	eof    bool
	closed bool

	parked bool // server blocked in Read, nothing deliverable

	readDeadline, writeDeadline time.Time

	out      []byte
	outMark  int
	writeLen []int // length of every successful Write call

	Reads, Writes   int
	BytesRead       int64
	ReadsAfterEOF   int
	CloseCalls      int
	WritesAfterStop int // writes attempted after Close
	F               Faults
	failed          bool // a fault has fired; transport stays broken

	// OutOverflow is set when more than MaxOut bytes were written (the rest is dropped).
	OutOverflow bool

	// EverWedged is set once an Await gave up waiting for this connection.
	EverWedged bool

	// OnRead, when set, is called (without the lock) at the start of every Read.
	OnRead func()
	// MaxSeg limits how many bytes a single Read returns (0 = whole segment).
	MaxSeg int
}

// NewConn returns a fresh connection with the given remote address.
func NewConn(remote string) *Conn {
	c := &Conn{Local: "mem:server", Remote: Addr(remote)}
	c.cond = sync.NewCond(&c.mu)
	return c
}

func (c *Conn) Read(p []byte) (int, error) {
	if c.OnRead != nil {
		c.OnRead()
	}
	c.mu.Lock()
	defer c.mu.Unlock()
	c.Reads++
	for {
		if c.closed {
			return 0, net.ErrClosed
		}
		if c.F.ReadErrOnceAt > 0 && c.Reads == c.F.ReadErrOnceAt && !c.onceDone {
			c.onceDone = true
			c.cond.Broadcast()
			return 0, c.injected()
		}
		if c.failed || (c.F.ReadErrAt > 0 && c.Reads >= c.F.ReadErrAt) ||
			(c.F.FailAfterRead > 0 && c.BytesRead >= int64(c.F.FailAfterRead)) {
			c.failed = true
			c.ReadsAfterEOF++ // a failed transport is an ended input: reading it over and over is spinning as well
			c.cond.Broadcast()
			return 0, c.injected()
		}
		if len(p) == 0 {
			return 0, nil
		}
		if len(c.segs) > 0 {
			s := &c.segs[0]
			limit := len(p)
			if c.MaxSeg > 0 && limit > c.MaxSeg {
				limit = c.MaxSeg
			}
			if c.F.ReadShortAt > 0 && c.Reads == c.F.ReadShortAt {
				limit = 1
			}
			if c.F.FailAfterRead > 0 {
				if rem := int64(c.F.FailAfterRead) - c.BytesRead; int64(limit) > rem {
					limit = int(rem)
				}
			}
			n := 0
			if len(s.data) > 0 {
				n = copy(p[:limit], s.data)
				s.data = s.data[n:]
			} else if s.zeros > 0 {
				n = limit
				if int64(n) > s.zeros {
					n = int(s.zeros)
				}
				clear(p[:n])
				s.zeros -= int64(n)
			}
			if len(s.data) == 0 && s.zeros == 0 {
				c.segs = c.segs[1:]
			}
			c.BytesRead += int64(n)
			if n > 0 {
				return n, nil
			}
			continue
		}
		if c.eof {
			c.ReadsAfterEOF++
			c.cond.Broadcast()
			return 0, io.EOF
		}
		c.parked = true
		c.cond.Broadcast()
		c.cond.Wait()
		c.parked = false
	}
}

func (c *Conn) Write(p []byte) (int, error) {
	c.mu.Lock()
	defer c.mu.Unlock()
	c.Writes++
	if c.closed {
		c.WritesAfterStop++
		return 0, net.ErrClosed
	}
	if c.F.WriteErrOnceAt > 0 && c.Writes == c.F.WriteErrOnceAt {
		c.cond.Broadcast()
		return 0, c.injected()
	}
	if c.failed || (c.F.WriteErrAt > 0 && c.Writes >= c.F.WriteErrAt) ||
		(c.F.FailAfterRead > 0 && c.BytesRead >= int64(c.F.FailAfterRead)) {
		n := 0
		if !c.failed && c.F.WriteShort {
			n = len(p) / 2
			c.out = append(c.out, p[:n]...)
		}
		c.failed = true
		c.cond.Broadcast()
		return n, c.injected()
	}
	if len(c.out)+len(p) > MaxOut {
		// the harness never needs more; remember that the server flooded the client
		c.OutOverflow = true
		return len(p), nil
	}
	c.out = append(c.out, p...)
	c.writeLen = append(c.writeLen, len(p))
	return len(p), nil
}

func (c *Conn) Close() error {
	c.mu.Lock()
	defer c.mu.Unlock()
	c.CloseCalls++
	c.closed = true
	c.cond.Broadcast()
	return c.CloseErr
}

func (c *Conn) LocalAddr() net.Addr {
	if c.LocalOverride != nil {
		return c.LocalOverride
	}
	return c.Local
}
func (c *Conn) RemoteAddr() net.Addr {
	if c.RemoteOverride != nil {
		return c.RemoteOverride
	}
	return c.Remote
}

// Deadlines are recorded, never enforced (no wall clock in verdicts): a deadline
// that is still armed at quiescence is a structural fact a check can judge.
func (c *Conn) SetDeadline(t time.Time) error {
	c.mu.Lock()
	c.readDeadline, c.writeDeadline = t, t
	c.mu.Unlock()
	return nil
}
func (c *Conn) SetReadDeadline(t time.Time) error {
	c.mu.Lock()
	c.readDeadline = t
	c.mu.Unlock()
	return nil
}
func (c *Conn) SetWriteDeadline(t time.Time) error {
	c.mu.Lock()
	c.writeDeadline = t
	c.mu.Unlock()
	return nil
}

// Deadlines returns the currently armed read and write deadlines (zero = none).
func (c *Conn) Deadlines() (read, write time.Time) {
	c.mu.Lock()
	defer c.mu.Unlock()
	return c.readDeadline, c.writeDeadline
}

// ---- harness (client) side -------------------------------------------------

// Push queues one input segment without waiting.
func (c *Conn) Push(b []byte) {
	if len(b) == 0 {
		return
	}
	c.mu.Lock()
	c.segs = append(c.segs, segment{data: append([]byte(nil), b...)})
	c.parked = false
	c.cond.Broadcast()
	c.mu.Unlock()
}

// PushZeros queues a header followed by a virtual run of n zero bytes.
func (c *Conn) PushZeros(head []byte, n int64) {
	c.mu.Lock()
	c.segs = append(c.segs, segment{data: append([]byte(nil), head...), zeros: n})
	c.parked = false
	c.cond.Broadcast()
	c.mu.Unlock()
}

// EOF makes the input end: once the queued segments are drained Read returns io.EOF.
func (c *Conn) EOF() {
	c.mu.Lock()
	c.eof = true
	c.parked = false
	c.cond.Broadcast()
	c.mu.Unlock()
}

// Status is what Await observed.
type Status int

const (
	Parked   Status = iota // server blocked in Read with nothing to deliver
	Closed                 // server closed the connection
	Failed                 // an injected fault fired and the server has not closed (yet)
	Wedged                 // watchdog expired
	Spinning               // server keeps reading after EOF
)

func (s Status) String() string {
	return [...]string{"parked", "closed", "failed", "wedged", "spinning"}[s]
}

// WedgeSeen is set once any Await in this process gave up: a goroutine of the code under test is probably left
// behind, later cases of this process would be judged in a polluted process.
var WedgeSeen atomic.Bool

// Watchdog is the (very long) time Await waits before declaring a wedge.
var Watchdog = 60 * time.Second

// SpinLimit is the number of reads after EOF tolerated before Spinning is reported.
const SpinLimit = 64

// Await blocks until the server is quiescent: parked in Read with empty input,
// or it closed the connection. It never uses a short timer.
func (c *Conn) Await() Status {
	return c.await(false)
}

// AwaitClose blocks until the server has closed the connection (or spins / wedges).
func (c *Conn) AwaitClose() Status {
	return c.await(true)
}

func (c *Conn) await(wantClose bool) Status {
	expired := false
	t := time.AfterFunc(Watchdog, func() {
		c.mu.Lock()
		expired = true
		c.cond.Broadcast()
		c.mu.Unlock()
	})
	defer t.Stop()
	c.mu.Lock()
	defer c.mu.Unlock()
	for {
		switch {
		case c.closed:
			return Closed
		case c.ReadsAfterEOF > SpinLimit:
			return Spinning
		case !wantClose && c.parked && len(c.segs) == 0:
			return Parked
		case expired:
			c.EverWedged = true
			WedgeSeen.Store(true)
			return Wedged
		}
		c.cond.Wait()
	}
}

// Take returns the bytes written since the previous Take.
func (c *Conn) Take() []byte {
	c.mu.Lock()
	defer c.mu.Unlock()
	b := append([]byte(nil), c.out[c.outMark:]...)
	c.outMark = len(c.out)
	return b
}

// Output returns everything written so far.
func (c *Conn) Output() []byte {
	c.mu.Lock()
	defer c.mu.Unlock()
	return append([]byte(nil), c.out...)
}

// WriteLens returns the length of every successful Write call.
func (c *Conn) WriteLens() []int {
	c.mu.Lock()
	defer c.mu.Unlock()
	return append([]int(nil), c.writeLen...)
}

// IsClosed reports whether the server closed the connection.
func (c *Conn) IsClosed() bool {
	c.mu.Lock()
	defer c.mu.Unlock()
	return c.closed
}

// Snapshot returns counters under the lock.
func (c *Conn) Snapshot() (reads, writes, closes, readsAfterEOF int, bytesRead int64, pending int) {
	c.mu.Lock()
	defer c.mu.Unlock()
	for _, s := range c.segs {
		pending += len(s.data) + int(s.zeros)
	}
	return c.Reads, c.Writes, c.CloseCalls, c.ReadsAfterEOF, c.BytesRead, pending
}

// Listener hands harness-made connections to Server.Serve.
type Listener struct {
	ch     chan net.Conn
	closed chan struct{}
	once   sync.Once
	Closes int32
}

func NewListener() *Listener {
	return &Listener{ch: make(chan net.Conn, 16), closed: make(chan struct{})}
}

func (l *Listener) Accept() (net.Conn, error) {
	select {
	case <-l.closed:
		return nil, net.ErrClosed
	default:
	}
	select {
	case c := <-l.ch:
		return c, nil
	case <-l.closed:
		return nil, net.ErrClosed
	}
}

func (l *Listener) Close() error {
	l.once.Do(func() { close(l.closed) })
	return nil
}

func (l *Listener) Addr() net.Addr { return Addr("mem:listener") }

// Inject hands a connection to the accept loop.
func (l *Listener) Inject(c net.Conn) { l.ch <- c }

// OutLen returns the number of bytes written so far.
func (c *Conn) OutLen() int {
	c.mu.Lock()
	defer c.mu.Unlock()
	return len(c.out)
}

// OutSince returns a copy of the bytes written after offset from.
func (c *Conn) OutSince(from int) []byte {
	c.mu.Lock()
	defer c.mu.Unlock()
	if from >= len(c.out) {
		return nil
	}
	return append([]byte(nil), c.out[from:]...)
}

// ClientEnd adapts the harness side of a Conn to net.Conn so that a real
// client implementation (crypto/tls) can talk to the server: Write pushes one
// input segment, Read takes what the server wrote. It keeps a tap of both raw
// directions and knows when its reader is parked with nothing to read.
type ClientEnd struct {
	C      *Conn
	rd     int // how much of C.out the client has consumed
	Sent   []byte
	parked bool // client reader blocked with nothing to read
	closed bool
}

// NewClientEnd starts reading at the current end of the server's output.
func NewClientEnd(c *Conn) *ClientEnd {
	c.mu.Lock()
	defer c.mu.Unlock()
	return &ClientEnd{C: c, rd: len(c.out)}
}

func (e *ClientEnd) Read(p []byte) (int, error) {
	c := e.C
	c.mu.Lock()
	defer c.mu.Unlock()
	for {
		if e.rd < len(c.out) {
			n := copy(p, c.out[e.rd:])
			e.rd += n
			c.cond.Broadcast()
			return n, nil
		}
		if c.closed || e.closed {
			return 0, io.EOF
		}
		e.parked = true
		c.cond.Broadcast()
		c.cond.Wait()
		e.parked = false
	}
}

func (e *ClientEnd) Write(p []byte) (int, error) {
	c := e.C
	c.mu.Lock()
	if c.closed || e.closed {
		c.mu.Unlock()
		return 0, net.ErrClosed
	}
	e.Sent = append(e.Sent, p...)
	c.segs = append(c.segs, segment{data: append([]byte(nil), p...)})
	c.parked = false
	c.cond.Broadcast()
	c.mu.Unlock()
	return len(p), nil
}

func (e *ClientEnd) Close() error {
	c := e.C
	c.mu.Lock()
	e.closed = true
	c.eof = true
	c.cond.Broadcast()
	c.mu.Unlock()
	return nil
}

// AwaitDrained blocks until the client reader has consumed everything the
// server wrote and is parked again (or the connection is closed).
func (e *ClientEnd) AwaitDrained() {
	c := e.C
	c.mu.Lock()
	defer c.mu.Unlock()
	for !(e.rd >= len(c.out) && (e.parked || c.closed || e.closed)) {
		c.cond.Wait()
	}
}

func (e *ClientEnd) LocalAddr() net.Addr                { return Addr("mem:client") }
func (e *ClientEnd) RemoteAddr() net.Addr               { return Addr("mem:server") }
func (e *ClientEnd) SetDeadline(t time.Time) error      { return nil }
func (e *ClientEnd) SetReadDeadline(t time.Time) error  { return nil }
func (e *ClientEnd) SetWriteDeadline(t time.Time) error { return nil }

// SetFaults replaces the fault plan of a live connection (counts are absolute, see Snapshot).
func (c *Conn) SetFaults(f Faults) {
	c.mu.Lock()
	c.F = f
	c.mu.Unlock()
}
