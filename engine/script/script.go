// Package script makes handler behaviour an enumerable input: the harness
// ParseFn interprets the query text as a program in a tiny language, and every
// callback appends to a per-connection recorder (no shared locks).
//
//	query   := "#perr" | "#zero" | stmt ("|" stmt)*
//	stmt    := ncols [":" op ("," op)*]          ncols = number of text columns (0..3)
//	op      := "r"          good row
//	         | "n"          row whose first value is NULL
//	         | "a-" | "a+"  row with one value too few / too many
//	         | "u" | "U"    row whose first / last value cannot be encoded
//	         | "e"          Empty()
//	         | "c=<tag>"    Complete(tag)
//	         | "w"          read Written()
//	         | "p"          row echoing the bound parameters (count, then value:format ...)
//	         | "!<msg>"     return an error
//	         | "panic"      panic inside the handler
//	         | "copy<t|b>:<policy>"   start COPY-in (see copy.go)
package script

import (
	"context"
	"errors"
	"fmt"
	"io"
	"strconv"
	"strings"

	wire "github.com/jeroenrinzema/psql-wire"
	psqlerr "github.com/jeroenrinzema/psql-wire/errors"
	"github.com/lib/pq/oid"
	"verif/engine/memnet"
)

// Ev is one recorded callback event.
type Ev struct {
	Kind    string // parse | stmt | op | ret | session | terminate | auth
	Query   string
	Stmt    int
	Op      string
	Err     string // error text ("" = nil)
	Out     []byte // bytes that reached the wire during this op
	Written uint64
	Params  []string // "NULL" or quoted bytes
	Formats []int
	Note    string
}

func (e Ev) String() string {
	s := e.Kind
	switch e.Kind {
	case "parse":
		s += fmt.Sprintf("(%q)", e.Query)
	case "stmt":
		s += fmt.Sprintf("[%d](%q params=%v fmts=%v)", e.Stmt, e.Query, e.Params, e.Formats)
	case "op":
		s += fmt.Sprintf("[%d] %s", e.Stmt, e.Op)
	case "ret":
		s += fmt.Sprintf("[%d]", e.Stmt)
	}
	if e.Err != "" {
		s += " err=" + e.Err
	}
	if e.Note != "" {
		s += " " + e.Note
	}
	return s
}

// Rec records the callbacks of ONE connection.
type Rec struct {
	Conn *memnet.Conn
	Evs  []Ev
	// Hook, when set, is called at the start of every statement function (scheduler yields etc.).
	Hook func(ctx context.Context, where string)
	// Extra lets a check intercept unknown ops; return handled=false to fall through.
	Extra func(ctx context.Context, r *Rec, stmt int, op string, w wire.DataWriter, params []wire.Parameter) (handled bool, err error)
	// StmtOpts, when set, contributes extra statement options derived from the query text
	// (e.g. WithParameters(ParseParameters(query)) as the documentation suggests).
	StmtOpts func(query string) []wire.PreparedOptionFn
	// ColNames, when set, names the columns (cycled) instead of a, b, c.
	ColNames []string
	// Retain receives values handed to callbacks, without copying (C18).
	Retain func(kind string, s string, b []byte)
	// MaxEvs, when > 0, stops recording after that many events (very long sessions must not grow the harness).
	MaxEvs int
}

func (r *Rec) add(e Ev) {
	if r.MaxEvs > 0 && len(r.Evs) >= r.MaxEvs {
		return
	}
	r.Evs = append(r.Evs, e)
}

// Strings renders the trace.
func (r *Rec) Strings() []string {
	out := make([]string, len(r.Evs))
	for i, e := range r.Evs {
		out[i] = e.String()
	}
	return out
}

func (r *Rec) outLen() int {
	if r.Conn == nil {
		return 0
	}
	return r.Conn.OutLen()
}

func (r *Rec) delta(from int) []byte {
	if r.Conn == nil {
		return nil
	}
	return r.Conn.OutSince(from)
}

// TextColumns returns n text columns named a, b, c ...
func TextColumns(n int) wire.Columns {
	if n == 0 {
		return nil
	}
	cols := make(wire.Columns, n)
	for i := range cols {
		cols[i] = wire.Column{Table: 0, Name: string(rune('a' + i)), Oid: oid.T_text, Width: -1}
	}
	return cols
}

// Unencodable is a value pgtype cannot encode for a text column.
type Unencodable struct{}

// Stmt is one parsed statement program.
type Stmt struct {
	NCols int
	Ops   []string
	Src   string
}

// ParseQuery parses the program text. perr: parser error requested; zero: no statements.
func ParseQuery(q string) (stmts []Stmt, perr bool, ok bool) {
	q = strings.TrimSpace(q)
	if q == "#perr" || q == "#peof" {
		return nil, true, true
	}
	if q == "#zero" {
		return nil, false, true
	}
	for _, s := range strings.Split(q, "|") {
		head, ops, has := strings.Cut(s, ":")
		n, err := strconv.Atoi(strings.TrimSpace(head))
		if err != nil || n < 0 || n > 9 {
			return nil, false, false
		}
		st := Stmt{NCols: n, Src: s}
		if has && ops != "" {
			st.Ops = strings.Split(ops, ",")
		}
		stmts = append(stmts, st)
	}
	return stmts, false, true
}

// ExpandTag turns "@300" into a tag of 300 bytes (any other tag is itself).
func ExpandTag(tag string) string {
	if strings.HasPrefix(tag, "@") {
		if n, err := strconv.Atoi(tag[1:]); err == nil {
			return strings.Repeat("t", n)
		}
	}
	return tag
}

// ReturnErr, returned as the op error by an Extra hook, makes the statement
// function return Err immediately (instead of recording it and continuing).
type ReturnErr struct{ Err error }

func (r *ReturnErr) Error() string { return r.Err.Error() }

// ErrParser is the error returned for "#perr".
var ErrParser = errors.New("scripted parser error")

// ParseFn returns the harness parser bound to this recorder.
func (r *Rec) ParseFn() wire.ParseFn {
	return func(ctx context.Context, query string) (wire.PreparedStatements, error) {
		if r.Retain != nil {
			r.Retain("query", query, nil)
		}
		stmts, perr, ok := ParseQuery(query)
		r.add(Ev{Kind: "parse", Query: query})
		if !ok {
			return nil, fmt.Errorf("harness: not a program: %q", query)
		}
		if perr {
			if strings.TrimSpace(query) == "#peof" {
				return nil, fmt.Errorf("unexpected end of input: %w", io.EOF) // a parser error that happens to wrap io.EOF
			}
			return nil, ErrParser
		}
		var out wire.PreparedStatements
		for i, st := range stmts {
			out = append(out, r.statement(i, st, query))
		}
		return out, nil
	}
}

func (r *Rec) statement(i int, st Stmt, query string) *wire.PreparedStatement {
	cols := TextColumns(st.NCols)
	for i := range cols {
		if len(r.ColNames) > 0 {
			cols[i].Name = r.ColNames[i%len(r.ColNames)]
		}
	}
	fn := func(ctx context.Context, w wire.DataWriter, params []wire.Parameter) (err error) {
		ev := Ev{Kind: "stmt", Stmt: i, Query: st.Src}
		for _, p := range params {
			if p.Value() == nil {
				ev.Params = append(ev.Params, "NULL")
			} else {
				ev.Params = append(ev.Params, strconv.Quote(string(p.Value())))
			}
			ev.Formats = append(ev.Formats, int(p.Format()))
			if r.Retain != nil {
				r.Retain("param", "", p.Value())
			}
		}
		if ctx.Err() != nil {
			ev.Note = "ctx-already-cancelled"
		}
		r.add(ev)
		if r.Hook != nil {
			r.Hook(ctx, "stmt")
		}
		rows := 0
		for _, op := range st.Ops {
			from := r.outLen()
			var opErr error
			e := Ev{Kind: "op", Stmt: i, Op: op}
			switch {
			case op == "r", op == "n", op == "a-", op == "a+", op == "u", op == "U":
				n := st.NCols
				if op == "a-" {
					n--
				} else if op == "a+" {
					n++
				}
				vals := make([]any, 0, n+1)
				for c := 0; c < n; c++ {
					vals = append(vals, fmt.Sprintf("r%dc%d", rows, c))
				}
				if op == "n" && n > 0 {
					vals[0] = nil
				}
				if op == "u" && n > 0 {
					vals[0] = Unencodable{}
				}
				if op == "U" && n > 0 {
					vals[n-1] = Unencodable{}
				}
				opErr = w.Row(vals)
				if opErr == nil {
					rows++
				}
			case strings.HasPrefix(op, "R") && len(op) > 1:
				// "R6400": a row whose last value is 6400 bytes long (the other values are short)
				size, _ := strconv.Atoi(op[1:])
				vals := make([]any, 0, st.NCols)
				for c := 0; c < st.NCols; c++ {
					vals = append(vals, fmt.Sprintf("r%dc%d", rows, c))
				}
				if st.NCols > 0 {
					vals[st.NCols-1] = strings.Repeat("v", size)
				}
				opErr = w.Row(vals)
				if opErr == nil {
					rows++
				}
			case op == "e":
				opErr = w.Empty()
			case strings.HasPrefix(op, "c="):
				opErr = w.Complete(ExpandTag(op[2:]))
			case op == "w":
				e.Written = w.Written()
			case op == "p":
				vals := make([]any, st.NCols)
				for c := range vals {
					switch {
					case c == 0:
						vals[c] = strconv.Itoa(len(params))
					case c-1 < len(params):
						if params[c-1].Value() == nil {
							vals[c] = nil
						} else {
							vals[c] = fmt.Sprintf("%s:%d", params[c-1].Value(), params[c-1].Format())
						}
					default:
						vals[c] = "-"
					}
				}
				opErr = w.Row(vals)
			case strings.HasPrefix(op, "!"):
				e.Out = r.delta(from)
				r.add(e)
				r.add(Ev{Kind: "ret", Stmt: i, Err: op[1:]})
				switch op[1:] {
				case "EOF": // an application error that happens to wrap io.EOF (e.g. a truncated upstream stream)
					return fmt.Errorf("upstream closed: %w", io.EOF)
				case "UEOF":
					return fmt.Errorf("upstream truncated: %w", io.ErrUnexpectedEOF)
				case "JOIN": // several failures reported as one error value (errors.Join): still ONE error of the statement
					return errors.Join(errors.New("first failure"), errors.New("second failure"), psqlerr.WithCode(errors.New("third failure"), "23505"))
				case "WARNING", "NOTICE", "INFO", "LOG", "DEBUG", "FATAL", "PANIC":
					// an error the application decorated with that severity: it still is the statement's error
					return psqlerr.WithSeverity(errors.New("decorated with severity "+op[1:]), psqlerr.Severity(op[1:]))
				}
				return errors.New(op[1:])
			case op == "panic":
				r.add(e)
				panic("scripted handler panic")
			case op == "y":
				if r.Hook != nil {
					r.Hook(ctx, "yield")
				}
			default:
				handled := false
				if r.Extra != nil {
					handled, opErr = r.Extra(ctx, r, i, op, w, params)
				}
				if !handled {
					opErr = fmt.Errorf("harness: unknown op %q", op)
					e.Note = "UNKNOWN-OP"
				}
			}
			if opErr != nil {
				e.Err = opErr.Error()
			}
			e.Out = r.delta(from)
			r.add(e)
			var ret *ReturnErr
			if errors.As(opErr, &ret) {
				r.add(Ev{Kind: "ret", Stmt: i, Err: ret.Err.Error()})
				return ret.Err
			}
		}
		r.add(Ev{Kind: "ret", Stmt: i})
		return nil
	}
	opts := []wire.PreparedOptionFn{}
	if cols != nil {
		opts = append(opts, wire.WithColumns(cols))
	}
	if st.NCols > 0 && containsOp(st.Ops, "p") {
		// a parameter-echo statement declares one untyped parameter per echoed column
		opts = append(opts, wire.WithParameters(make([]oid.Oid, st.NCols-1)))
	}
	if r.StmtOpts != nil {
		opts = append(opts, r.StmtOpts(query)...)
	}
	return wire.NewStatement(fn, opts...)
}

func containsOp(ops []string, op string) bool {
	for _, o := range ops {
		if o == op {
			return true
		}
	}
	return false
}

// Add lets checks append their own events (session middleware, auth, terminate).
func (r *Rec) Add(e Ev) { r.add(e) }

// Multi dispatches callbacks of one server to per-connection recorders by the
// connection's remote address. The map is filled before serving starts and
// never written afterwards (no shared lock that could hide library races).
type Multi struct {
	M map[string]*Rec
}

func (m *Multi) For(ctx context.Context) *Rec {
	a := wire.RemoteAddress(ctx)
	if a == nil {
		return nil
	}
	return m.M[a.String()]
}

func (m *Multi) ParseFn() wire.ParseFn {
	return func(ctx context.Context, query string) (wire.PreparedStatements, error) {
		r := m.For(ctx)
		if r == nil {
			return nil, errors.New("harness: no recorder for this connection")
		}
		return r.ParseFn()(ctx, query)
	}
}
