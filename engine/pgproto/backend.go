package pgproto

import (
	"bytes"
	"encoding/binary"
	"fmt"
	"strings"
	"unicode/utf8"
)

// Col is one field of a RowDescription.
type Col struct {
	Name    string
	Table   uint32
	AttrNo  int16
	OID     uint32
	Width   int16
	TypeMod int32
	Format  int16
}

// BMsg is one decoded backend message.
type BMsg struct {
	Type byte
	Body []byte

	Auth     uint32          // 'R'
	Key, Val string          // 'S'
	Status   byte            // 'Z'
	Cols     []Col           // 'T'
	Row      [][]byte        // 'D' (nil entry = NULL)
	Tag      string          // 'C'
	Fields   map[byte]string // 'E' / 'N'
	FieldSeq []byte          // order of the field codes
	OIDs     []uint32        // 't'
	CopyFmt  byte            // 'G'
	CopyCols []int16         // 'G'
}

// String renders a compact, deterministic description (used in transcripts).
func (m BMsg) String() string {
	switch m.Type {
	case 'R':
		return fmt.Sprintf("R(%d)", m.Auth)
	case 'S':
		return fmt.Sprintf("S(%s=%s)", m.Key, m.Val)
	case 'Z':
		return fmt.Sprintf("Z(%c)", m.Status)
	case 'T':
		var s []string
		for _, c := range m.Cols {
			s = append(s, fmt.Sprintf("%s:%d:%d", c.Name, c.OID, c.Format))
		}
		return "T(" + strings.Join(s, ",") + ")"
	case 'D':
		var s []string
		for _, f := range m.Row {
			if f == nil {
				s = append(s, "NULL")
			} else {
				s = append(s, fmt.Sprintf("%q", f))
			}
		}
		return "D(" + strings.Join(s, ",") + ")"
	case 'C':
		return fmt.Sprintf("C(%s)", m.Tag)
	case 'E', 'N':
		var s []string
		for _, c := range m.FieldSeq {
			s = append(s, fmt.Sprintf("%c=%s", c, m.Fields[c]))
		}
		return string(m.Type) + "(" + strings.Join(s, ",") + ")"
	case 't':
		return fmt.Sprintf("t%v", m.OIDs)
	case 'G':
		return fmt.Sprintf("G(%d,%v)", m.CopyFmt, m.CopyCols)
	default:
		return string(m.Type)
	}
}

// Kinds returns the type bytes of the messages as a string, e.g. "TDDCZ".
func Kinds(ms []BMsg) string {
	var b strings.Builder
	for _, m := range ms {
		b.WriteByte(m.Type)
	}
	return b.String()
}

// Strings renders every message.
func Strings(ms []BMsg) []string {
	out := make([]string, len(ms))
	for i, m := range ms {
		out[i] = m.String()
	}
	return out
}

type cursor struct {
	b []byte
}

func (c *cursor) u8() (byte, bool) {
	if len(c.b) < 1 {
		return 0, false
	}
	v := c.b[0]
	c.b = c.b[1:]
	return v, true
}
func (c *cursor) u16() (uint16, bool) {
	if len(c.b) < 2 {
		return 0, false
	}
	v := binary.BigEndian.Uint16(c.b)
	c.b = c.b[2:]
	return v, true
}
func (c *cursor) u32() (uint32, bool) {
	if len(c.b) < 4 {
		return 0, false
	}
	v := binary.BigEndian.Uint32(c.b)
	c.b = c.b[4:]
	return v, true
}
func (c *cursor) cstr() (string, bool) {
	i := bytes.IndexByte(c.b, 0)
	if i < 0 {
		return "", false
	}
	s := string(c.b[:i])
	c.b = c.b[i+1:]
	return s, true
}
func (c *cursor) take(n int) ([]byte, bool) {
	if n < 0 || len(c.b) < n {
		return nil, false
	}
	v := c.b[:n:n]
	c.b = c.b[n:]
	return v, true
}

// GrammarError describes where the strict grammar was violated.
type GrammarError struct {
	Offset int
	Type   byte
	Reason string
}

func (e *GrammarError) Error() string {
	return fmt.Sprintf("backend grammar violated at stream offset %d (message type %q): %s", e.Offset, e.Type, e.Reason)
}

// ParseBackend decodes a complete server output stream under the strict
// grammar. The returned messages are those decoded before the first error.
func ParseBackend(stream []byte) ([]BMsg, error) {
	var out []BMsg
	off := 0
	for off < len(stream) {
		rest := stream[off:]
		if len(rest) < 5 {
			return out, &GrammarError{off, rest[0], fmt.Sprintf("truncated header: %d trailing bytes % x", len(rest), rest)}
		}
		t := rest[0]
		l := binary.BigEndian.Uint32(rest[1:5])
		if l < 4 {
			return out, &GrammarError{off, t, fmt.Sprintf("declared length %d < 4", l)}
		}
		if uint64(l)+1 > uint64(len(rest)) {
			return out, &GrammarError{off, t, fmt.Sprintf("declared length %d exceeds the %d bytes that follow", l, len(rest)-1)}
		}
		body := rest[5 : 1+l]
		m, err := parseOne(t, body)
		if err != "" {
			return out, &GrammarError{off, t, err}
		}
		out = append(out, m)
		off += 1 + int(l)
	}
	return out, nil
}

func parseOne(t byte, body []byte) (BMsg, string) {
	m := BMsg{Type: t, Body: body}
	c := &cursor{b: body}
	ok := true
	switch t {
	case 'R':
		m.Auth, ok = c.u32()
		if !ok || len(c.b) != 0 {
			return m, "Authentication body must be exactly one int32"
		}
		if m.Auth != 0 && m.Auth != 3 {
			return m, fmt.Sprintf("unexpected authentication code %d", m.Auth)
		}
	case 'S':
		var ok2 bool
		m.Key, ok = c.cstr()
		m.Val, ok2 = c.cstr()
		if !ok || !ok2 || len(c.b) != 0 {
			return m, "ParameterStatus must be exactly two C strings"
		}
	case 'v':
		// NegotiateProtocolVersion: newest minor version supported, count of unrecognised options, their names
		_, ok1 := c.u32()
		n, ok2 := c.u32()
		if !ok1 || !ok2 {
			return m, fmt.Sprintf("NegotiateProtocolVersion needs two int32 (minor version, option count), body is %d bytes", len(body))
		}
		for i := uint32(0); i < n; i++ {
			if _, ok := c.cstr(); !ok {
				return m, fmt.Sprintf("NegotiateProtocolVersion announces %d option names, name %d is missing or unterminated", n, i+1)
			}
		}
		if len(c.b) != 0 {
			return m, fmt.Sprintf("NegotiateProtocolVersion: %d bytes behind the announced option names", len(c.b))
		}
	case 'Z':
		if len(body) != 1 || (body[0] != 'I' && body[0] != 'T' && body[0] != 'E') {
			return m, fmt.Sprintf("ReadyForQuery body must be one of I/T/E, got % x", body)
		}
		m.Status = body[0]
	case 'T':
		n, ok := c.u16()
		if !ok {
			return m, "RowDescription without field count"
		}
		for i := 0; i < int(n); i++ {
			var col Col
			var okk [7]bool
			col.Name, okk[0] = c.cstr()
			col.Table, okk[1] = c.u32()
			var v16 uint16
			var v32 uint32
			v16, okk[2] = c.u16()
			col.AttrNo = int16(v16)
			col.OID, okk[3] = c.u32()
			v16, okk[4] = c.u16()
			col.Width = int16(v16)
			v32, okk[5] = c.u32()
			col.TypeMod = int32(v32)
			v16, okk[6] = c.u16()
			col.Format = int16(v16)
			for _, o := range okk {
				if !o {
					return m, fmt.Sprintf("RowDescription declares %d fields but field %d is truncated", n, i)
				}
			}
			if col.Format != 0 && col.Format != 1 {
				return m, fmt.Sprintf("RowDescription field %d has format code %d", i, col.Format)
			}
			m.Cols = append(m.Cols, col)
		}
		if len(c.b) != 0 {
			return m, fmt.Sprintf("RowDescription has %d surplus bytes after %d fields", len(c.b), n)
		}
	case 'D':
		n, ok := c.u16()
		if !ok {
			return m, "DataRow without field count"
		}
		m.Row = make([][]byte, 0, n)
		for i := 0; i < int(n); i++ {
			l, ok := c.u32()
			if !ok {
				return m, fmt.Sprintf("DataRow declares %d fields but field %d has no length", n, i)
			}
			if l == 0xFFFFFFFF {
				m.Row = append(m.Row, nil)
				continue
			}
			if int32(l) < 0 {
				return m, fmt.Sprintf("DataRow field %d has negative length %d", i, int32(l))
			}
			v, ok := c.take(int(l))
			if !ok {
				return m, fmt.Sprintf("DataRow field %d declares %d bytes but only %d remain", i, l, len(c.b))
			}
			if v == nil {
				v = []byte{}
			}
			m.Row = append(m.Row, append([]byte{}, v...))
		}
		if len(c.b) != 0 {
			return m, fmt.Sprintf("DataRow has %d surplus bytes after %d fields", len(c.b), n)
		}
	case 'C':
		m.Tag, ok = c.cstr()
		if !ok || len(c.b) != 0 {
			return m, "CommandComplete must be exactly one C string"
		}
	case 'E', 'N':
		m.Fields = map[byte]string{}
		for {
			code, ok := c.u8()
			if !ok {
				return m, "ErrorResponse is not closed by a zero byte"
			}
			if code == 0 {
				break
			}
			v, ok := c.cstr()
			if !ok {
				return m, fmt.Sprintf("ErrorResponse field %q is not NUL-terminated", code)
			}
			if _, dup := m.Fields[code]; dup {
				return m, fmt.Sprintf("ErrorResponse field %q appears twice", code)
			}
			if !strings.ContainsRune("SVCMDHPpqWstcdnFLR", rune(code)) {
				return m, fmt.Sprintf("ErrorResponse has unknown field code %q (0x%02x)", code, code)
			}
			if !utf8.ValidString(v) {
				return m, fmt.Sprintf("ErrorResponse field %q is not text: % x", code, v)
			}
			m.Fields[code] = v
			m.FieldSeq = append(m.FieldSeq, code)
		}
		if len(c.b) != 0 {
			return m, fmt.Sprintf("ErrorResponse has %d bytes after its terminator", len(c.b))
		}
		for _, need := range []byte{'S', 'C', 'M'} {
			if _, has := m.Fields[need]; !has {
				return m, fmt.Sprintf("ErrorResponse lacks mandatory field %q", need)
			}
		}
		if len(m.Fields['C']) != 5 {
			return m, fmt.Sprintf("SQLSTATE %q is not 5 characters", m.Fields['C'])
		}
		if l, has := m.Fields['L']; has {
			for _, r := range l {
				if (r < '0' || r > '9') && r != '-' {
					return m, fmt.Sprintf("ErrorResponse line field is not a decimal number: %q", l)
				}
			}
		}
	case 't':
		n, ok := c.u16()
		if !ok {
			return m, "ParameterDescription without count"
		}
		for i := 0; i < int(n); i++ {
			o, ok := c.u32()
			if !ok {
				return m, fmt.Sprintf("ParameterDescription declares %d parameters but %d follow", n, i)
			}
			m.OIDs = append(m.OIDs, o)
		}
		if len(c.b) != 0 {
			return m, fmt.Sprintf("ParameterDescription has %d surplus bytes", len(c.b))
		}
	case 'G':
		f, ok := c.u8()
		n, ok2 := c.u16()
		if !ok || !ok2 {
			return m, "CopyInResponse truncated"
		}
		if f > 1 {
			return m, fmt.Sprintf("CopyInResponse overall format %d", f)
		}
		m.CopyFmt = f
		for i := 0; i < int(n); i++ {
			v, ok := c.u16()
			if !ok {
				return m, fmt.Sprintf("CopyInResponse declares %d columns but %d follow", n, i)
			}
			if v > 1 {
				return m, fmt.Sprintf("CopyInResponse column %d format %d", i, v)
			}
			m.CopyCols = append(m.CopyCols, int16(v))
		}
		if len(c.b) != 0 {
			return m, fmt.Sprintf("CopyInResponse has %d surplus bytes", len(c.b))
		}
	case 'I', 'n', '1', '2', '3', 's':
		if len(body) != 0 {
			return m, fmt.Sprintf("message %q must have an empty body, has %d bytes", t, len(body))
		}
	default:
		return m, fmt.Sprintf("unknown backend message type %q (0x%02x)", t, t)
	}
	return m, ""
}
