package pgproto

import (
	"encoding/binary"
	"encoding/hex"
	"fmt"
	"math"
	"strconv"
	"strings"
	"time"
)

// OIDs of the supported types.
const (
	OIDBool        = 16
	OIDBytea       = 17
	OIDInt8        = 20
	OIDInt2        = 21
	OIDInt4        = 23
	OIDText        = 25
	OIDJSON        = 114
	OIDJSONB       = 3802
	OIDFloat4      = 700
	OIDFloat8      = 701
	OIDVarchar     = 1043
	OIDDate        = 1082
	OIDTimestamp   = 1114
	OIDTimestamptz = 1184
	OIDNumeric     = 1700
	OIDUUID        = 2950
)

var pgEpoch = time.Date(2000, 1, 1, 0, 0, 0, 0, time.UTC)

// DecodeValue is the independent decoder: it turns a DataRow field of the
// given type and format into a canonical string ("int:-1", "float64:<bits>",
// "text:...", "bytes:<hex>", "bool:true", "uuid:<hex>", "date:<days>", "ts:<micros>").
func DecodeValue(oid uint32, format int16, b []byte) (string, error) {
	if b == nil {
		return "NULL", nil
	}
	bad := func() (string, error) {
		return "", fmt.Errorf("oid %d format %d: cannot decode % x", oid, format, b)
	}
	if format == 1 {
		switch oid {
		case OIDBool:
			if len(b) != 1 || b[0] > 1 {
				return bad()
			}
			return fmt.Sprintf("bool:%v", b[0] == 1), nil
		case OIDInt2:
			if len(b) != 2 {
				return bad()
			}
			return fmt.Sprintf("int:%d", int16(binary.BigEndian.Uint16(b))), nil
		case OIDInt4:
			if len(b) != 4 {
				return bad()
			}
			return fmt.Sprintf("int:%d", int32(binary.BigEndian.Uint32(b))), nil
		case OIDInt8:
			if len(b) != 8 {
				return bad()
			}
			return fmt.Sprintf("int:%d", int64(binary.BigEndian.Uint64(b))), nil
		case OIDFloat4:
			if len(b) != 4 {
				return bad()
			}
			return canonFloat32(math.Float32frombits(binary.BigEndian.Uint32(b))), nil
		case OIDFloat8:
			if len(b) != 8 {
				return bad()
			}
			return canonFloat64(math.Float64frombits(binary.BigEndian.Uint64(b))), nil
		case OIDText, OIDVarchar, OIDJSON:
			return "text:" + string(b), nil
		case OIDJSONB:
			// binary jsonb: a version byte (1) followed by the JSON text
			if len(b) < 1 || b[0] != 1 {
				return bad()
			}
			return "text:" + string(b[1:]), nil
		case OIDBytea:
			return "bytes:" + hex.EncodeToString(b), nil
		case OIDUUID:
			if len(b) != 16 {
				return bad()
			}
			return "uuid:" + hex.EncodeToString(b), nil
		case OIDDate:
			if len(b) != 4 {
				return bad()
			}
			return fmt.Sprintf("date:%d", int32(binary.BigEndian.Uint32(b))), nil
		case OIDTimestamp, OIDTimestamptz:
			if len(b) != 8 {
				return bad()
			}
			return fmt.Sprintf("ts:%d", int64(binary.BigEndian.Uint64(b))), nil
		}
		return bad()
	}
	s := string(b)
	switch oid {
	case OIDBool:
		switch s {
		case "t", "true":
			return "bool:true", nil
		case "f", "false":
			return "bool:false", nil
		}
		return bad()
	case OIDInt2, OIDInt4, OIDInt8:
		bits := map[uint32]int{OIDInt2: 16, OIDInt4: 32, OIDInt8: 64}[oid]
		v, err := strconv.ParseInt(s, 10, bits)
		if err != nil {
			return bad()
		}
		return fmt.Sprintf("int:%d", v), nil
	case OIDFloat4:
		v, err := parsePGFloat(s, 32)
		if err != nil {
			return bad()
		}
		return canonFloat32(float32(v)), nil
	case OIDFloat8:
		v, err := parsePGFloat(s, 64)
		if err != nil {
			return bad()
		}
		return canonFloat64(v), nil
	case OIDText, OIDVarchar, OIDJSON, OIDJSONB:
		return "text:" + s, nil
	case OIDNumeric:
		return "numeric:" + s, nil
	case OIDBytea:
		if !strings.HasPrefix(s, `\x`) {
			return bad()
		}
		raw, err := hex.DecodeString(s[2:])
		if err != nil {
			return bad()
		}
		return "bytes:" + hex.EncodeToString(raw), nil
	case OIDUUID:
		h := strings.ReplaceAll(s, "-", "")
		if len(s) != 36 || len(h) != 32 || s[8] != '-' || s[13] != '-' || s[18] != '-' || s[23] != '-' {
			return bad()
		}
		if _, err := hex.DecodeString(h); err != nil {
			return bad()
		}
		return "uuid:" + strings.ToLower(h), nil
	case OIDDate:
		t, err := time.Parse("2006-01-02", s)
		if err != nil {
			return bad()
		}
		return fmt.Sprintf("date:%d", int32(t.Sub(pgEpoch).Hours()/24)), nil
	case OIDTimestamp:
		t, err := time.Parse("2006-01-02 15:04:05.999999", s)
		if err != nil {
			return bad()
		}
		return fmt.Sprintf("ts:%d", t.Sub(pgEpoch).Microseconds()), nil
	case OIDTimestamptz:
		var t time.Time
		var err error
		for _, layout := range []string{"2006-01-02 15:04:05.999999Z07:00:00", "2006-01-02 15:04:05.999999Z07:00", "2006-01-02 15:04:05.999999Z07"} {
			if t, err = time.Parse(layout, s); err == nil {
				break
			}
		}
		if err != nil {
			return bad()
		}
		return fmt.Sprintf("ts:%d", t.Sub(pgEpoch).Microseconds()), nil
	}
	return bad()
}

func parsePGFloat(s string, bits int) (float64, error) {
	switch s {
	case "Infinity":
		return math.Inf(1), nil
	case "-Infinity":
		return math.Inf(-1), nil
	case "NaN":
		return math.NaN(), nil
	}
	return strconv.ParseFloat(s, bits)
}

func canonFloat32(f float32) string {
	if f != f {
		return "float32:NaN"
	}
	return fmt.Sprintf("float32:%08x", math.Float32bits(f))
}

func canonFloat64(f float64) string {
	if f != f {
		return "float64:NaN"
	}
	return fmt.Sprintf("float64:%016x", math.Float64bits(f))
}

// CanonFloat32 / CanonFloat64 render the expected canonical form of a written float.
func CanonFloat32(f float32) string { return canonFloat32(f) }
func CanonFloat64(f float64) string { return canonFloat64(f) }
