// Package pgproto is an independent PostgreSQL v3 wire codec written from the
// protocol documentation. It shares no code with psql-wire's pkg/buffer or pgx.
package pgproto

import (
	"encoding/binary"
)

func be16(v uint16) []byte { b := make([]byte, 2); binary.BigEndian.PutUint16(b, v); return b }
func be32(v uint32) []byte { b := make([]byte, 4); binary.BigEndian.PutUint32(b, v); return b }

func cat(parts ...[]byte) []byte {
	var out []byte
	for _, p := range parts {
		out = append(out, p...)
	}
	return out
}

func cstr(s string) []byte { return append([]byte(s), 0) }

// Msg frames a typed message: type byte, int32 length (body+4), body.
func Msg(t byte, body []byte) []byte {
	return cat([]byte{t}, be32(uint32(len(body)+4)), body)
}

// MsgDeclared frames a typed message whose declared length field is `declared`
// (the raw int32 on the wire) regardless of the body actually attached.
func MsgDeclared(t byte, declared uint32, body []byte) []byte {
	return cat([]byte{t}, be32(declared), body)
}

// Untyped frames a startup-phase packet: int32 length, body.
func Untyped(body []byte) []byte { return cat(be32(uint32(len(body)+4)), body) }

const (
	Version30  = 196608
	CancelCode = 80877102
	SSLCode    = 80877103
	GSSCode    = 80877104
)

// StartupBody builds the body of a v3 startup packet from key/value pairs.
func StartupBody(kv ...string) []byte {
	b := be32(Version30)
	for _, s := range kv {
		b = append(b, cstr(s)...)
	}
	return append(b, 0)
}

// Startup builds a complete startup packet.
func Startup(kv ...string) []byte { return Untyped(StartupBody(kv...)) }

func SSLRequest() []byte { return Untyped(be32(SSLCode)) }
func CancelRequest(pid, key uint32) []byte {
	return Untyped(cat(be32(CancelCode), be32(pid), be32(key)))
}

func Query(q string) []byte     { return Msg('Q', cstr(q)) }
func Password(pw string) []byte { return Msg('p', cstr(pw)) }
func Sync() []byte              { return Msg('S', nil) }
func Flush() []byte             { return Msg('H', nil) }
func Terminate() []byte         { return Msg('X', nil) }
func CopyData(b []byte) []byte  { return Msg('d', b) }
func CopyDone() []byte          { return Msg('c', nil) }
func CopyFail(m string) []byte  { return Msg('f', cstr(m)) }

// Parse builds a Parse message with optional parameter type OIDs.
func Parse(name, query string, oids ...uint32) []byte {
	b := cat(cstr(name), cstr(query), be16(uint16(len(oids))))
	for _, o := range oids {
		b = append(b, be32(o)...)
	}
	return Msg('P', b)
}

// BindBody builds the body of a Bind message. A nil entry in params is SQL NULL.
func BindBody(portal, stmt string, pfmts []int16, params [][]byte, rfmts []int16) []byte {
	b := cat(cstr(portal), cstr(stmt), be16(uint16(len(pfmts))))
	for _, f := range pfmts {
		b = append(b, be16(uint16(f))...)
	}
	b = append(b, be16(uint16(len(params)))...)
	for _, p := range params {
		if p == nil {
			b = append(b, be32(0xFFFFFFFF)...)
			continue
		}
		b = append(b, be32(uint32(len(p)))...)
		b = append(b, p...)
	}
	b = append(b, be16(uint16(len(rfmts)))...)
	for _, f := range rfmts {
		b = append(b, be16(uint16(f))...)
	}
	return b
}

func Bind(portal, stmt string, pfmts []int16, params [][]byte, rfmts []int16) []byte {
	return Msg('B', BindBody(portal, stmt, pfmts, params, rfmts))
}

func Describe(kind byte, name string) []byte { return Msg('D', cat([]byte{kind}, cstr(name))) }
func Close(kind byte, name string) []byte    { return Msg('C', cat([]byte{kind}, cstr(name))) }
func Execute(portal string, max uint32) []byte {
	return Msg('E', cat(cstr(portal), be32(max)))
}

// BinaryCopy encodes a PGCOPY binary stream: header, tuples, optional trailer.
// A nil field is NULL.
var CopySignature = []byte("PGCOPY\n\377\r\n\000")

func BinaryCopyHeader() []byte { return cat(CopySignature, be32(0), be32(0)) }

func BinaryCopyTuple(fields [][]byte) []byte {
	b := be16(uint16(len(fields)))
	for _, f := range fields {
		if f == nil {
			b = append(b, be32(0xFFFFFFFF)...)
			continue
		}
		b = append(b, be32(uint32(len(f)))...)
		b = append(b, f...)
	}
	return b
}

func BinaryCopyTrailer() []byte { return be16(0xFFFF) }

// Be16 / Be32 exported helpers for malformation knobs.
func Be16(v uint16) []byte   { return be16(v) }
func Be32(v uint32) []byte   { return be32(v) }
func Cat(p ...[]byte) []byte { return cat(p...) }
func CStr(s string) []byte   { return cstr(s) }
