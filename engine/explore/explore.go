// Package explore is the enumeration framework: checks declare a deterministic
// enumeration of cases; the driver shards it over crash-isolated worker
// processes, merges coverage, matches known findings, writes evidence and
// replay files and prints the verdict lines.
package explore

import (
	"hash/fnv"
)

// Violation is one failed oracle clause on one case.
type Violation struct {
	Clause string `json:"clause"`
	Detail string `json:"detail"`
}

// Result is what running one case produced.
type Result struct {
	Violations []Violation
	// Trans are model transitions exercised, "state|letter|state'" strings.
	Trans []string
	// States are model states visited (in addition to the endpoints of Trans).
	States []string
	// Outcome is the outcome class of the execution (vacuity guard / distinct outcomes).
	Outcome string
	// Key identifies the case's observable behaviour for distinct_nontrivial counting;
	// empty = trivial.
	Key string
	// Notes are tolerated-but-noteworthy observations (never violations).
	Notes []string
	// Sub counts additional evaluations performed inside this case (grouped enumerations).
	Sub int
	// Engine is set when the harness itself failed (exit 2, never a VIOLATION).
	Engine string
	// Poison: the case left the process in a state that would disturb later cases (e.g. a goroutine of the
	// code under test that spins or is wedged for good); the worker retires after this case and the driver
	// continues the shard in a fresh process.
	Poison bool
}

func (r *Result) Fail(clause, detail string) {
	r.Violations = append(r.Violations, Violation{clause, detail})
}

// PoisonProbe, when set, is asked after every case whether the process has been left in a state that would disturb
// later cases (e.g. a watchdog expired: a goroutine of the code under test is wedged). If so the worker retires;
// when the case itself reported nothing, blocked says whether a stack dump confirms a blocked goroutine of the
// code under test (then the wedge is the case's verdict) or not (then it is an engine error).
var PoisonProbe func() (poisoned, blocked bool, dump string)

// Case is one execution to perform.
type Case struct {
	Family string
	Size   int // size of the case (shortest counterexamples are reported first)
	Desc   func() any
	Run    func() Result
}

// Emit receives the enumerated cases in deterministic order.
type Emit func(Case)

// Check is one property's machinery.
type Check struct {
	ID          string
	Level       string // evidence level: model_checking | exploration | fault_enumeration
	Technique   string
	Rule        string
	Assumptions []string
	// Enumerate emits every case of the tier ("quick" | "thorough") in a deterministic order.
	Enumerate func(tier string, emit Emit)
	// Required outcome classes that must be observed (vacuity guard).
	RequiredOutcomes []string
	// Bounds describes the bounds of each tier for the evidence file.
	Bounds func(tier string) map[string]any
	// Custom, when set, replaces the worker-sharded runner entirely (scheduled checks).
	Custom func(tier string, env *Env) *Summary
	// After, when set, runs after the sharded enumeration and may merge further results (e.g. a scheduled part).
	After func(tier string, env *Env, sum *Summary)
	// Build selects the worker binary flavour: "" (plain) | "sched" | "sched-race".
	Build string
}

var registry = map[string]*Check{}
var order []string

// Register adds a check to the registry.
func Register(c *Check) {
	registry[c.ID] = c
	order = append(order, c.ID)
}

// Get returns a registered check.
func Get(id string) *Check { return registry[id] }

// IDs returns all registered ids in registration order.
func IDs() []string { return append([]string(nil), order...) }

func h64(s string) uint64 {
	h := fnv.New64a()
	h.Write([]byte(s))
	return h.Sum64()
}
