package explore

import (
	"bufio"
	"bytes"
	"encoding/json"
	"fmt"
	"os"
	"os/exec"
	"path/filepath"
	"strconv"
	"strings"
	"sync"
	"time"
)

// Scheduled checks: the worker is a separate binary (verif-sched) built by
// bin/build-sched.sh from an INSTRUMENTED copy of the current /repo sources
// (go build -overlay), optionally with -race. This file builds it, shards the
// schedule exploration over worker processes and merges their results.

type schedDone struct {
	Schedules  int            `json:"schedules"`
	Steps      int            `json:"steps"`
	Points     int            `json:"points"`
	HBKeys     []uint64       `json:"hbkeys"`
	Outcomes   map[string]int `json:"outcomes"`
	Notes      map[string]int `json:"notes"`
	Samples    []any          `json:"samples"`
	Complete   bool           `json:"complete"`
	MaxThreads int            `json:"max_threads"`
	PerScen    map[string]int `json:"per_scenario"`
	Bounds     map[string]int `json:"bounds"`
	Pruned     int            `json:"pruned"`
	Races      int            `json:"race_reports"`
	FreeRuns   int            `json:"free_runs"`
	FreeRaces  int            `json:"free_race_reports"`
}

// SchedCustom returns the Custom runner of a scheduled check.
func SchedCustom(prop string, race bool) func(tier string, env *Env) *Summary {
	return func(tier string, env *Env) *Summary {
		sum := NewSummary()
		bin, err := buildSched(env.Root, race)
		if err != nil {
			sum.Engine = append(sum.Engine, "building the instrumented scheduler binary failed: "+err.Error())
			return sum
		}
		if b, err := os.ReadFile(filepath.Join(env.Root, ".build", "instrument-report.json")); err == nil {
			var rep map[string]any
			json.Unmarshal(b, &rep)
			sum.Extra["instrumentation"] = rep
		}
		var mu sync.Mutex
		var wg sync.WaitGroup
		perScen := map[string]int{}
		bounds := map[string]int{}
		steps, points, pruned, maxThreads, races, freeRuns, freeRaces := 0, 0, 0, 0, 0, 0, 0
		for sh := 0; sh < env.Workers; sh++ {
			wg.Add(1)
			go func(sh int) {
				defer wg.Done()
				cmd := exec.Command(bin, "run", prop, tier, strconv.Itoa(sh), strconv.Itoa(env.Workers), strconv.FormatInt(env.Deadline.Unix(), 10))
				cmd.Env = append(os.Environ(), "GOMAXPROCS=2", "GOTRACEBACK=all")
				if race {
					base := filepath.Join(env.Root, ".build", fmt.Sprintf("race-%s-%d", prop, sh))
					if old, _ := filepath.Glob(base + ".*"); len(old) > 0 {
						for _, f := range old {
							os.Remove(f)
						}
					}
					cmd.Env = append(cmd.Env, "GORACE=halt_on_error=0 history_size=3 log_path="+base, "VERIF_RACE_LOG="+base)
				}
				var stderr bytes.Buffer
				cmd.Stderr = &stderr
				out, _ := cmd.StdoutPipe()
				if err := cmd.Start(); err != nil {
					mu.Lock()
					sum.Engine = append(sum.Engine, err.Error())
					mu.Unlock()
					return
				}
				last := ""
				var done *schedDone
				var vlines, elines []string
				sc := bufio.NewScanner(out)
				sc.Buffer(make([]byte, 1<<20), 1<<30)
				for sc.Scan() {
					l := sc.Text()
					switch {
					case strings.HasPrefix(l, "X "):
						last = l[2:]
					case strings.HasPrefix(l, "V "):
						vlines = append(vlines, l)
					case strings.HasPrefix(l, "E "):
						elines = append(elines, l)
					case strings.HasPrefix(l, "D "):
						var d schedDone
						if json.Unmarshal([]byte(l[2:]), &d) == nil {
							done = &d
						}
					}
				}
				cmd.Wait()
				mu.Lock()
				defer mu.Unlock()
				mergeLines(sum, append(vlines, elines...))
				stalled := false
				for _, l := range elines {
					if strings.Contains(l, `"fatal":"stalled"`) {
						stalled = true
					}
				}
				if done == nil && stalled {
					sum.Complete = false
					return // (the E line was merged as an engine error above)
				}
				if done == nil {
					// the worker process died (e.g. the Go runtime detected concurrent map access): a finding in itself
					name, choices, _ := strings.Cut(last, " ")
					var ch []int
					json.Unmarshal([]byte(choices), &ch)
					sum.Complete = false
					sum.Violations = append(sum.Violations, VRec{Property: prop, Tier: tier, Family: "sched:" + name, Index: -1, Size: len(ch),
						Desc:   map[string]any{"scenario": name, "schedule_choices": ch, "note": "the subtree below this schedule was being explored when the worker process died"},
						Clause: "process-crash", Detail: crashHead(tail(stderr.String(), 1<<16)), Reruns: 1})
					return
				}
				sum.Evaluated += done.Schedules
				steps += done.Steps
				points += done.Points
				pruned += done.Pruned
				if done.MaxThreads > maxThreads {
					maxThreads = done.MaxThreads
				}
				for _, k := range done.HBKeys {
					sum.States[k] = struct{}{}
					sum.Keys[k] = struct{}{}
				}
				for k, n := range done.Outcomes {
					sum.Outcomes[k] += n
				}
				for k, n := range done.Notes {
					sum.Notes[k] += n
				}
				for k, n := range done.PerScen {
					perScen[k] += n
					sum.Families[k] += n
				}
				for k, n := range done.Bounds {
					bounds[k] = n
				}
				if len(sum.Samples) < 8 {
					sum.Samples = append(sum.Samples, done.Samples...)
				}
				if !done.Complete {
					sum.Complete = false
				}
				races += done.Races
				freeRuns += done.FreeRuns
				freeRaces += done.FreeRaces
			}(sh)
		}
		wg.Wait()
		// transitions = executed scheduling steps (each step is one hooked operation of the real code)
		sum.Extra["schedules"] = sum.Evaluated
		sum.Extra["scheduling_steps"] = steps
		sum.Extra["decision_points"] = points
		sum.Extra["subtrees_pruned_by_state_cache"] = pruned
		sum.Extra["max_threads"] = maxThreads
		sum.Extra["schedules_per_scenario"] = perScen
		sum.Extra["preemption_bound_completed"] = bounds
		sum.Extra["race_detector"] = race
		if race {
			sum.Extra["race_reports"] = races
			sum.Extra["free_running_race_pass"] = map[string]any{"runs": freeRuns, "race_reports": freeRaces, "role": "cross-check only, not the deciding step"}
		}
		sum.schedSteps = steps
		return sum
	}
}

func buildSched(root string, race bool) (string, error) {
	args := []string{filepath.Join(root, "bin", "build-sched.sh")}
	bin := filepath.Join(root, ".build", "verif-sched")
	if race {
		args = append(args, "race")
		bin += "-race"
	}
	cmd := exec.Command("/bin/bash", args...)
	out, err := cmd.CombinedOutput()
	if err != nil {
		return "", fmt.Errorf("%v\n%s", err, tail(string(out), 4000))
	}
	return bin, nil
}

// SchedReplay re-runs one recorded schedule verbosely.
func SchedReplay(root string, v VRec) int {
	desc, _ := v.Desc.(map[string]any)
	scn, _ := desc["scenario"].(string)
	ch, _ := json.Marshal(desc["schedule_choices"])
	race := false
	if c := Get(v.Property); c != nil && c.Build == "sched-race" {
		race = true
	}
	bin, err := buildSched(root, race)
	if err != nil {
		fmt.Fprintln(os.Stderr, err)
		return 2
	}
	cmd := exec.Command(bin, "replay", v.Property, scn, string(ch))
	cmd.Env = append(os.Environ(), "GORACE=halt_on_error=0")
	cmd.Stdout, cmd.Stderr = os.Stdout, os.Stderr
	if err := cmd.Run(); err != nil {
		if ee, ok := err.(*exec.ExitError); ok {
			return ee.ExitCode()
		}
		return 2
	}
	return 0
}

var _ = time.Now

// MergeSched runs the scheduled scenarios of prop and merges them into an existing summary
// (used by checks that have a sequential and a schedule part).
func MergeSched(prop string, race bool) func(tier string, env *Env, sum *Summary) {
	return func(tier string, env *Env, sum *Summary) {
		part := SchedCustom(prop, race)(tier, env)
		sum.Violations = append(sum.Violations, part.Violations...)
		sum.Engine = append(sum.Engine, part.Engine...)
		if !part.Complete {
			sum.Complete = false
		}
		for k := range part.States {
			sum.States[k] = struct{}{}
		}
		for k, n := range part.Outcomes {
			sum.Outcomes["schedules: "+k] += n
		}
		for k, n := range part.Families {
			sum.Families["sched:"+k] += n
		}
		for k, n := range part.Notes {
			sum.Notes[k] += n
		}
		sp := map[string]any{}
		for k, v := range part.Extra {
			sp[k] = v
		}
		sp["schedules"] = part.Evaluated
		sp["happens_before_states"] = len(part.States)
		sum.Extra["schedule_part"] = sp
		sum.Sub += part.Evaluated
		if len(part.Samples) > 0 {
			sum.Samples = append(sum.Samples, part.Samples[0])
		}
	}
}
