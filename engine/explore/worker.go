package explore

import (
	"encoding/json"
	"fmt"
	"os"
	"sort"
	"strings"
	"syscall"
	"time"
)

// VRec is a violation record exchanged between worker and driver and stored in replay files.
type VRec struct {
	Property string `json:"property"`
	Tier     string `json:"tier"`
	Family   string `json:"family"`
	Index    int    `json:"index"`
	Size     int    `json:"size"`
	Desc     any    `json:"case"`
	Clause   string `json:"clause"`
	Detail   string `json:"detail"`
	Finding  string `json:"known_finding,omitempty"`
	Reruns   int    `json:"reruns_identical"`
}

type workerDone struct {
	Evaluated int            `json:"evaluated"`
	Sub       int            `json:"sub"`
	States    []uint64       `json:"states"`
	Trans     []uint64       `json:"trans"`
	Keys      []uint64       `json:"keys"`
	Outcomes  map[string]int `json:"outcomes"`
	Notes     map[string]int `json:"notes"`
	Samples   []any          `json:"samples"`
	Families  map[string]int `json:"families"`
	Complete  bool           `json:"complete"`
	Last      int            `json:"last"`
	Retired   bool           `json:"retired"` // the worker stopped after case Last (poisoned process); the shard continues in a fresh one
}

const maxKeys = 4 << 20

func emitLine(prefix string, v any) {
	b, _ := json.Marshal(v)
	os.Stdout.Write(append(append([]byte(prefix+" "), b...), '\n'))
}

// RunWorker executes one shard. Args: id tier shard nshards from deadlineUnix only(-1 = all)
func RunWorker(id, tier string, shard, nshards, from int, deadline time.Time, only int) int {
	c := Get(id)
	if c == nil {
		fmt.Fprintln(os.Stderr, "unknown check", id)
		return 2
	}
	if os.Getenv("VERIF_NO_RLIMIT") == "" && c.Build != "sched-race" {
		lim := uint64(12 << 30)
		syscall.Setrlimit(syscall.RLIMIT_AS, &syscall.Rlimit{Cur: lim, Max: lim})
	}
	states := map[uint64]struct{}{}
	trans := map[uint64]struct{}{}
	keys := map[uint64]struct{}{}
	done := workerDone{Outcomes: map[string]int{}, Notes: map[string]int{}, Families: map[string]int{}, Complete: true}
	idx := -1
	stopped := false
	var bline []byte
	c.Enumerate(tier, func(cs Case) {
		idx++
		if stopped || idx < from || idx%nshards != shard {
			return
		}
		if only >= 0 && idx != only {
			return
		}
		if done.Evaluated%32 == 0 && time.Now().After(deadline) {
			stopped = true
			done.Complete = false
			return
		}
		bline = append(bline[:0], 'B', ' ')
		bline = fmt.Appendf(bline, "%d\n", idx)
		os.Stdout.Write(bline)
		res := cs.Run()
		if PoisonProbe != nil {
			if poisoned, blocked, dump := PoisonProbe(); poisoned {
				res.Poison = true
				if len(res.Violations) == 0 && res.Engine == "" {
					if blocked {
						res.Fail("wedged", "a connection's goroutine is blocked inside the library although its client is waiting for it (watchdog expired):\n"+dump)
					} else {
						res.Engine = "watchdog expired but no blocked library goroutine was found:\n" + dump
					}
				}
			}
		}
		done.Evaluated++
		done.Sub += res.Sub
		done.Last = idx
		done.Families[cs.Family]++
		if res.Poison {
			stopped = true
			done.Retired = true
		}
		if res.Engine != "" {
			emitLine("E", map[string]any{"index": idx, "family": cs.Family, "case": cs.Desc(), "error": res.Engine})
			return
		}
		for _, s := range res.States {
			states[h64(s)] = struct{}{}
		}
		for _, t := range res.Trans {
			trans[h64(t)] = struct{}{}
			a, rest, _ := strings.Cut(t, "|")
			states[h64(a)] = struct{}{}
			if i := strings.LastIndex(rest, "|"); i >= 0 {
				states[h64(rest[i+1:])] = struct{}{}
			}
		}
		if res.Key != "" && len(keys) < maxKeys {
			keys[h64(res.Key)] = struct{}{}
		}
		if res.Outcome != "" {
			done.Outcomes[res.Outcome]++
		}
		for _, n := range res.Notes {
			done.Notes[n]++
		}
		if len(done.Samples) < 3 || (done.Evaluated&(done.Evaluated-1)) == 0 && len(done.Samples) < 12 {
			done.Samples = append(done.Samples, map[string]any{"family": cs.Family, "index": idx, "case": cs.Desc(), "outcome": res.Outcome})
		}
		if res.Poison {
			stopped = true
			done.Retired = true
		}
		if len(res.Violations) > 0 {
			sig := violSig(res.Violations)
			same := 1
			if res.Poison {
				same = 5 // (re-running in a poisoned process proves nothing; a wedge needed a full watchdog period already)
			}
			for i := 0; i < 4 && !res.Poison; i++ {
				r2 := cs.Run()
				if violSig(r2.Violations) == sig {
					same++
				}
			}
			if same != 5 {
				emitLine("E", map[string]any{"index": idx, "family": cs.Family, "case": cs.Desc(),
					"error": fmt.Sprintf("non-deterministic verdict: %d/5 identical re-runs (%s)", same, sig)})
				return
			}
			for _, v := range res.Violations {
				emitLine("V", VRec{Property: id, Tier: tier, Family: cs.Family, Index: idx, Size: cs.Size, Desc: cs.Desc(), Clause: v.Clause, Detail: v.Detail, Reruns: same})
			}
		}
	})
	for k := range states {
		done.States = append(done.States, k)
	}
	for k := range trans {
		done.Trans = append(done.Trans, k)
	}
	for k := range keys {
		done.Keys = append(done.Keys, k)
	}
	emitLine("D", done)
	return 0
}

func violSig(vs []Violation) string {
	var s []string
	for _, v := range vs {
		s = append(s, v.Clause)
	}
	sort.Strings(s)
	return strings.Join(s, ";")
}
