package explore

import (
	"bufio"
	"bytes"
	"crypto/sha1"
	"encoding/json"
	"fmt"
	"os"
	"os/exec"
	"path/filepath"
	"regexp"
	"runtime"
	"sort"
	"strconv"
	"strings"
	"sync"
	"sync/atomic"
	"time"
)

// Env is the run environment of a check.
type Env struct {
	Root     string // /verif
	Tier     string
	Seed     int64
	Workers  int
	Deadline time.Time
	Self     string // path of the worker binary
	Start    time.Time
}

// Summary is the merged result of a run.
type Summary struct {
	schedSteps int
	Sub        int
	Evaluated  int
	States     map[uint64]struct{}
	Trans      map[uint64]struct{}
	Keys       map[uint64]struct{}
	Outcomes   map[string]int
	Notes      map[string]int
	Families   map[string]int
	Samples    []any
	Violations []VRec
	Engine     []string
	Complete   bool
	Extra      map[string]any // extra coverage keys (schedules, preemption bound, ...)
}

func NewSummary() *Summary {
	return &Summary{States: map[uint64]struct{}{}, Trans: map[uint64]struct{}{}, Keys: map[uint64]struct{}{},
		Outcomes: map[string]int{}, Notes: map[string]int{}, Families: map[string]int{}, Complete: true, Extra: map[string]any{}}
}

// Finding is one entry of known_findings.json.
type Finding struct {
	ID       string `json:"id"`
	Property string `json:"property"`
	Status   string `json:"status"` // open | fixed
	Commit   string `json:"commit,omitempty"`
	What     string `json:"what"`
	Match    struct {
		Clause string `json:"clause"`
		Family string `json:"family,omitempty"` // regexp
		Case   string `json:"case,omitempty"`   // regexp over the JSON of the case
		Detail string `json:"detail,omitempty"` // regexp
	} `json:"match"`
}

func loadFindings(root string) ([]Finding, error) {
	b, err := os.ReadFile(filepath.Join(root, "known_findings.json"))
	if os.IsNotExist(err) {
		return nil, nil
	}
	if err != nil {
		return nil, err
	}
	var f struct {
		Findings []Finding `json:"findings"`
	}
	if err := json.Unmarshal(b, &f); err != nil {
		return nil, fmt.Errorf("known_findings.json: %w", err)
	}
	return f.Findings, nil
}

func (f *Finding) matches(v *VRec) bool {
	if f.Status != "open" || f.Property != v.Property || f.Match.Clause != v.Clause {
		return false
	}
	re := func(p, s string) bool {
		if p == "" {
			return true
		}
		ok, err := regexp.MatchString(p, s)
		return err == nil && ok
	}
	cj, _ := json.Marshal(v.Desc)
	return re(f.Match.Family, v.Family) && re(f.Match.Case, string(cj)) && re(f.Match.Detail, v.Detail)
}

func tierBudget(tier string) time.Duration {
	if s := os.Getenv("VERIF_BUDGET_S"); s != "" {
		if n, err := strconv.Atoi(s); err == nil {
			return time.Duration(n) * time.Second
		}
	}
	if tier == "thorough" {
		return 20 * time.Minute
	}
	return 150 * time.Second
}

// RunCheck runs a check end to end and returns the process exit code.
func RunCheck(id, tier, root string) int {
	c := Get(id)
	if c == nil {
		fmt.Fprintln(os.Stderr, "unknown check", id)
		return 2
	}
	start := time.Now()
	seed, _ := strconv.ParseInt(os.Getenv("VERIF_SEED"), 10, 64)
	workers := runtime.NumCPU()
	if s := os.Getenv("VERIF_WORKERS"); s != "" {
		if n, err := strconv.Atoi(s); err == nil && n > 0 {
			workers = n
		}
	}
	self, _ := os.Executable()
	env := &Env{Root: root, Tier: tier, Seed: seed, Workers: workers, Deadline: start.Add(tierBudget(tier)), Self: self, Start: start}
	var sum *Summary
	if c.Custom != nil {
		sum = c.Custom(tier, env)
	} else {
		sum = runSharded(c, env)
		if c.After != nil {
			c.After(tier, env, sum)
		}
	}
	return Finish(c, env, sum)
}

type workerState struct {
	shard int
	from  int
}

func runSharded(c *Check, env *Env) *Summary {
	sum := NewSummary()
	var mu sync.Mutex
	var wg sync.WaitGroup
	for sh := 0; sh < env.Workers; sh++ {
		wg.Add(1)
		go func(sh int) {
			defer wg.Done()
			from := 0
			retired := 0
			for attempt := 0; attempt < 200; attempt++ {
				done, last, stderr, lines := runOneWorker(c, env, sh, from, -1)
				mu.Lock()
				mergeLines(sum, lines)
				mu.Unlock()
				if done != nil {
					mu.Lock()
					mergeDone(sum, done)
					mu.Unlock()
					if done.Retired {
						from = done.Last + 1
						attempt-- // not a crash
						retired++
						if retired > 5000 {
							mu.Lock()
							sum.Complete = false
							sum.Extra["retire_cap"] = "a shard retired more than 5000 worker processes; its remaining cases were not explored"
							mu.Unlock()
							return
						}
						continue
					}
					return
				}
				// the worker died: attribute to the case announced last
				if last < 0 {
					mu.Lock()
					sum.Engine = append(sum.Engine, fmt.Sprintf("worker %d died before its first case: %s", sh, tail(stderr, 2000)))
					mu.Unlock()
					return
				}
				if strings.HasPrefix(stderr, stallMark) {
					mu.Lock()
					sum.Evaluated++
					sum.Complete = false
					sum.Engine = append(sum.Engine, fmt.Sprintf("case %d did not finish within %s and was abandoned (worker killed)", last, StallLimit))
					mu.Unlock()
					from = last + 1
					continue
				}
				crashes := 1
				var lastErr = stderr
				for i := 0; i < 2; i++ {
					d2, _, se2, _ := runOneWorker(c, env, sh, last, last)
					if d2 == nil {
						crashes++
						lastErr = se2
					}
				}
				desc, fam := describeCase(c, env.Tier, last)
				mu.Lock()
				sum.Evaluated++
				if crashes == 3 {
					sum.Violations = append(sum.Violations, VRec{Property: c.ID, Tier: env.Tier, Family: fam, Index: last, Desc: desc,
						Clause: "process-crash", Detail: crashHead(lastErr), Reruns: crashes})
				} else {
					sum.Engine = append(sum.Engine, fmt.Sprintf("worker died at case %d but only %d/3 runs reproduce it: %s", last, crashes, tail(stderr, 1500)))
				}
				mu.Unlock()
				from = last + 1
			}
			mu.Lock()
			sum.Complete = false
			sum.Extra["crash_cap"] = "a shard hit 200 crashing cases; its remaining cases were not explored"
			mu.Unlock()
		}(sh)
	}
	wg.Wait()
	return sum
}

// describeCase re-enumerates to find the description of case idx.
func describeCase(c *Check, tier string, idx int) (any, string) {
	var desc any
	fam := ""
	i := -1
	c.Enumerate(tier, func(cs Case) {
		i++
		if i == idx {
			desc = cs.Desc()
			fam = cs.Family
		}
	})
	return desc, fam
}

func crashHead(stderr string) string {
	// keep the panic / fatal line and the first frames
	lines := strings.Split(stderr, "\n")
	for i, l := range lines {
		if strings.HasPrefix(l, "panic:") || strings.HasPrefix(l, "fatal error:") {
			end := i + 14
			if end > len(lines) {
				end = len(lines)
			}
			return strings.Join(lines[i:end], "\n")
		}
	}
	return tail(stderr, 1200)
}

func tail(s string, n int) string {
	if len(s) > n {
		return s[len(s)-n:]
	}
	return s
}

func runOneWorker(c *Check, env *Env, shard, from, only int) (*workerDone, int, string, []string) {
	cmd := exec.Command(env.Self, "worker", c.ID, env.Tier, strconv.Itoa(shard), strconv.Itoa(env.Workers),
		strconv.Itoa(from), strconv.FormatInt(env.Deadline.Unix(), 10), strconv.Itoa(only))
	cmd.Env = append(os.Environ(), "GOMAXPROCS=2", "GOTRACEBACK=all")
	var stderr bytes.Buffer
	cmd.Stderr = &stderr
	out, err := cmd.StdoutPipe()
	if err != nil {
		return nil, -1, err.Error(), nil
	}
	if err := cmd.Start(); err != nil {
		return nil, -1, err.Error(), nil
	}
	last := -1
	var done *workerDone
	var lines []string
	// stall guard: a worker that has not announced anything for StallLimit is killed (a case that hangs for good
	// must not hang the whole run); the caller records an engine error for that case and carries on behind it
	var activity atomic.Int64
	activity.Store(time.Now().UnixNano())
	var stalled atomic.Bool
	stop := make(chan struct{})
	defer close(stop)
	go func() {
		t := time.NewTicker(5 * time.Second)
		defer t.Stop()
		for {
			select {
			case <-stop:
				return
			case <-t.C:
				if time.Since(time.Unix(0, activity.Load())) > StallLimit {
					stalled.Store(true)
					cmd.Process.Kill()
					return
				}
			}
		}
	}()
	sc := bufio.NewScanner(out)
	sc.Buffer(make([]byte, 1<<20), 1<<30)
	for sc.Scan() {
		activity.Store(time.Now().UnixNano())
		l := sc.Text()
		switch {
		case strings.HasPrefix(l, "B "):
			last, _ = strconv.Atoi(l[2:])
		case strings.HasPrefix(l, "D "):
			var d workerDone
			if json.Unmarshal([]byte(l[2:]), &d) == nil {
				done = &d
			}
		case strings.HasPrefix(l, "V "), strings.HasPrefix(l, "E "):
			lines = append(lines, l)
		}
	}
	cmd.Wait()
	if stalled.Load() {
		return nil, last, stallMark + tail(stderr.String(), 1<<12), lines
	}
	return done, last, tail(stderr.String(), 1<<16), lines
}

// StallLimit is how long a worker may stay silent (no case announced, no result) before it is killed.
var StallLimit = 20 * time.Minute

const stallMark = "STALLED: "

func mergeLines(sum *Summary, lines []string) {
	for _, l := range lines {
		switch {
		case strings.HasPrefix(l, "V "):
			var v VRec
			if json.Unmarshal([]byte(l[2:]), &v) == nil {
				sum.Violations = append(sum.Violations, v)
			}
		case strings.HasPrefix(l, "E "):
			sum.Engine = append(sum.Engine, l[2:])
		}
	}
}

func mergeDone(sum *Summary, d *workerDone) {
	sum.Evaluated += d.Evaluated
	sum.Sub += d.Sub
	for _, k := range d.States {
		sum.States[k] = struct{}{}
	}
	for _, k := range d.Trans {
		sum.Trans[k] = struct{}{}
	}
	for _, k := range d.Keys {
		sum.Keys[k] = struct{}{}
	}
	for k, n := range d.Outcomes {
		sum.Outcomes[k] += n
	}
	for k, n := range d.Notes {
		sum.Notes[k] += n
	}
	for k, n := range d.Families {
		sum.Families[k] += n
	}
	if len(sum.Samples) < 10 {
		for _, s := range d.Samples {
			if len(sum.Samples) < 10 {
				sum.Samples = append(sum.Samples, s)
			}
		}
	}
	if !d.Complete {
		sum.Complete = false
	}
}

// Finish matches findings, writes evidence and replays, prints verdict lines.
func Finish(c *Check, env *Env, sum *Summary) int {
	findings, ferr := loadFindings(env.Root)
	if ferr != nil {
		sum.Engine = append(sum.Engine, ferr.Error())
	}
	sort.SliceStable(sum.Violations, func(i, j int) bool {
		a, b := sum.Violations[i], sum.Violations[j]
		if a.Size != b.Size {
			return a.Size < b.Size
		}
		return a.Index < b.Index
	})
	hit := map[string]int{}
	var unknown []VRec
	for i := range sum.Violations {
		v := &sum.Violations[i]
		for fi := range findings {
			if findings[fi].matches(v) {
				v.Finding = findings[fi].ID
				hit[v.Finding]++
				break
			}
		}
		if v.Finding == "" {
			unknown = append(unknown, *v)
		}
	}
	// vacuity guard
	for _, o := range c.RequiredOutcomes {
		if sum.Outcomes[o] == 0 && sum.Complete && len(sum.Engine) == 0 {
			sum.Engine = append(sum.Engine, fmt.Sprintf("vacuity guard: outcome class %q was never observed", o))
		}
	}
	os.MkdirAll(filepath.Join(env.Root, "replays"), 0o755)
	os.MkdirAll(filepath.Join(env.Root, "evidence"), 0o755)

	for _, f := range findings {
		if n := hit[f.ID]; n > 0 {
			fmt.Printf("KNOWN-FINDING: property=%s %s [%s, %d cases]\n", c.ID, f.What, f.ID, n)
		}
	}
	// one replay per known finding (first witness)
	seenF := map[string]bool{}
	for _, v := range sum.Violations {
		if v.Finding != "" && !seenF[v.Finding] {
			seenF[v.Finding] = true
			writeReplay(env.Root, fmt.Sprintf("%s-known-%s.json", c.ID, v.Finding), v)
		}
	}
	// replays for unknown violations: at most 25 files, grouped by clause first
	printed := 0
	perClause := map[string]int{}
	for _, v := range unknown {
		perClause[v.Clause]++
		if perClause[v.Clause] > 5 || printed >= 25 {
			continue
		}
		b, _ := json.Marshal(v)
		hs := sha1.Sum(b)
		name := fmt.Sprintf("%s-%x.json", c.ID, hs[:6])
		p := writeReplay(env.Root, name, v)
		fmt.Printf("VIOLATION property=%s replay=%s\n", c.ID, p)
		fmt.Printf("  clause=%s family=%s case=%s\n  %s\n", v.Clause, v.Family, compact(v.Desc), strings.ReplaceAll(v.Detail, "\n", "\n  "))
		printed++
	}
	if len(unknown) > printed {
		fmt.Printf("  (%d further violating cases not printed; per clause: %v)\n", len(unknown)-printed, perClause)
	}
	for _, e := range sum.Engine {
		fmt.Printf("ENGINE-ERROR: %s\n", e)
	}

	wall := time.Since(env.Start).Seconds()
	cov := map[string]any{
		"evaluations":         sum.Evaluated + sum.Sub,
		"cases":               sum.Evaluated,
		"distinct_nontrivial": len(sum.Keys),
		"rule":                c.Rule,
		"samples":             sum.Samples,
		"exhaustive":          sum.Complete && len(sum.Engine) == 0,
		"distinct_outcomes":   len(sum.Outcomes),
		"outcome_classes":     sum.Outcomes,
		"families":            sum.Families,
		"workers":             env.Workers,
		"known_findings_hit":  hit,
	}
	if len(sum.Notes) > 0 {
		cov["notes"] = sum.Notes
	}
	if c.Level == "model_checking" {
		cov["states"] = len(sum.States)
		cov["transitions"] = len(sum.Trans)
		if sum.schedSteps > 0 {
			cov["transitions"] = sum.schedSteps // executed scheduling steps of the real code
		}
		cov["traces_validated_against_impl"] = sum.Evaluated
	}
	if c.Bounds != nil {
		cov["bounds"] = c.Bounds(env.Tier)
	}
	if !sum.Complete {
		cov["cap_hit"] = fmt.Sprintf("wall-clock budget of %s reached; the enumeration order is deterministic, every case below the per-shard cut was fully checked", tierBudget(env.Tier))
	}
	for k, v := range sum.Extra {
		cov[k] = v
	}
	if len(sum.Samples) == 0 {
		cov["samples"] = []any{"(no case executed)"}
	}
	ev := map[string]any{
		"property_id": c.ID,
		"tier":        env.Tier,
		"seed":        env.Seed,
		"level":       c.Level,
		"coverage":    cov,
		"assumptions": c.Assumptions,
		"wall_s":      wall,
		"violations":  len(unknown),
		"technique":   c.Technique,
	}
	b, _ := json.MarshalIndent(ev, "", " ")
	os.WriteFile(filepath.Join(env.Root, "evidence", c.ID+".json"), append(b, '\n'), 0o644)

	fmt.Printf("%s %s: cases=%d states=%d transitions=%d distinct=%d outcomes=%d complete=%v violations=%d known=%d engine_errors=%d wall=%.1fs\n",
		c.ID, env.Tier, sum.Evaluated, len(sum.States), max(len(sum.Trans), sum.schedSteps), len(sum.Keys), len(sum.Outcomes), sum.Complete, len(unknown), len(sum.Violations)-len(unknown), len(sum.Engine), wall)
	if len(unknown) > 0 {
		return 1
	}
	if len(sum.Engine) > 0 {
		return 2
	}
	return 0
}

func compact(v any) string {
	b, _ := json.Marshal(v)
	if len(b) > 600 {
		return string(b[:600]) + "…"
	}
	return string(b)
}

func writeReplay(root, name string, v VRec) string {
	p := filepath.Join(root, "replays", name)
	b, _ := json.MarshalIndent(v, "", " ")
	os.WriteFile(p, append(b, '\n'), 0o644)
	return p
}

// Replay re-runs exactly one recorded case without the explorer around it.
func Replay(path string) int {
	b, err := os.ReadFile(path)
	if err != nil {
		fmt.Fprintln(os.Stderr, err)
		return 2
	}
	var v VRec
	if err := json.Unmarshal(b, &v); err != nil {
		fmt.Fprintln(os.Stderr, err)
		return 2
	}
	c := Get(v.Property)
	if c == nil {
		fmt.Fprintln(os.Stderr, "unknown property", v.Property)
		return 2
	}
	if strings.HasPrefix(v.Family, "sched:") {
		root := os.Getenv("VERIF_ROOT")
		if root == "" {
			root = "/verif"
		}
		return SchedReplay(root, v)
	}
	want, _ := json.Marshal(v.Desc)
	code := 2
	i := -1
	c.Enumerate(v.Tier, func(cs Case) {
		i++
		if i != v.Index {
			return
		}
		got, _ := json.Marshal(cs.Desc())
		var a, bb any
		json.Unmarshal(want, &a)
		json.Unmarshal(got, &bb)
		ja, _ := json.Marshal(a)
		jb, _ := json.Marshal(bb)
		if string(ja) != string(jb) {
			fmt.Printf("replay divergence: case %d is now %s, recorded %s\n", i, jb, ja)
			return
		}
		fmt.Printf("replaying %s case %d (%s): %s\n", v.Property, i, cs.Family, got)
		res := cs.Run()
		if res.Engine != "" {
			fmt.Println("engine error:", res.Engine)
			return
		}
		if len(res.Violations) == 0 {
			fmt.Println("no violation")
			code = 0
			return
		}
		for _, x := range res.Violations {
			fmt.Printf("VIOLATION clause=%s\n  %s\n", x.Clause, strings.ReplaceAll(x.Detail, "\n", "\n  "))
		}
		code = 1
	})
	return code
}
