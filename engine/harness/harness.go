// Package harness drives a real wire.Server through exported API only
// (NewServer + Serve over a memnet listener) and attributes every reply to the
// client message that caused it by waiting for quiescence.
package harness

import (
	"bytes"
	"context"
	"fmt"
	"log/slog"
	"runtime"
	"strings"
	"time"

	wire "github.com/jeroenrinzema/psql-wire"
	"verif/engine/memnet"
	"verif/engine/pgproto"
)

type discard struct{}

func (discard) Enabled(context.Context, slog.Level) bool  { return false }
func (discard) Handle(context.Context, slog.Record) error { return nil }
func (d discard) WithAttrs([]slog.Attr) slog.Handler      { return d }
func (d discard) WithGroup(string) slog.Handler           { return d }

// Quiet is a logger that drops everything.
var Quiet = slog.New(discard{})

// Trace is a per-connection callback trace. It is only appended to by the
// goroutine serving that connection and read by the harness at quiescence.
type Trace struct {
	Events []string
}

func (t *Trace) Add(format string, args ...any) {
	if t == nil {
		return
	}
	t.Events = append(t.Events, fmt.Sprintf(format, args...))
}

func (t *Trace) Len() int { return len(t.Events) }

// Since returns the events appended after index n.
func (t *Trace) Since(n int) []string { return append([]string(nil), t.Events[n:]...) }

// Server wraps one wire.Server served on an in-memory listener.
type Server struct {
	Srv      *wire.Server
	L        *memnet.Listener
	serveErr chan error
	conns    []*memnet.Conn
	nconn    int
}

// DefaultLimit is the message-size limit used by checks that do not study the limit.
const DefaultLimit = 1 << 13

// NewServer builds and starts a server. A quiet logger and a small message
// limit are prepended to the options (later options override them).
func NewServer(parse wire.ParseFn, opts ...wire.OptionFn) (*Server, error) {
	all := append([]wire.OptionFn{wire.Logger(Quiet), wire.MessageBufferSize(DefaultLimit)}, opts...)
	srv, err := wire.NewServer(parse, all...)
	if err != nil {
		return nil, err
	}
	s := &Server{Srv: srv, L: memnet.NewListener(), serveErr: make(chan error, 1)}
	go func() { s.serveErr <- srv.Serve(s.L) }()
	return s, nil
}

// Connect injects a new in-memory connection.
func (s *Server) Connect() *Conn {
	s.nconn++
	c := memnet.NewConn(fmt.Sprintf("mem:client%d", s.nconn))
	return s.ConnectWith(c)
}

// ConnectWith injects a prepared connection (faults / hooks already set).
func (s *Server) ConnectWith(c *memnet.Conn) *Conn {
	s.conns = append(s.conns, c)
	s.L.Inject(c)
	return &Conn{C: c}
}

// AnyWedged reports whether the watchdog expired on any connection of this server.
func (s *Server) AnyWedged() bool {
	for _, c := range s.conns {
		if c.EverWedged {
			return true
		}
	}
	return false
}

// Stop closes the server and waits for Serve to return; it returns Serve's error.
func (s *Server) Stop() error {
	for _, c := range s.conns {
		c.EOF()
	}
	if s.AnyWedged() {
		return nil // (Close waits for the commands in flight: with a wedged one it would never return)
	}
	for _, c := range s.conns {
		c.AwaitClose()
	}
	if s.AnyWedged() {
		return nil
	}
	s.Srv.Close()
	return <-s.serveErr
}

// Conn is the client's view of one connection.
type Conn struct {
	C   *memnet.Conn
	Raw []byte // everything received so far
}

// Step delivers b as one segment and waits for quiescence; it returns the
// bytes the server wrote in response and the status observed.
func (c *Conn) Step(b []byte) ([]byte, memnet.Status) {
	c.C.Push(b)
	st := c.C.Await()
	if st == memnet.Closed {
		Settle()
	}
	out := c.C.Take()
	c.Raw = append(c.Raw, out...)
	return out, st
}

// StepSegs delivers several segments (each its own Read) then waits.
func (c *Conn) StepSegs(segs ...[]byte) ([]byte, memnet.Status) {
	for _, s := range segs {
		c.C.Push(s)
	}
	st := c.C.Await()
	out := c.C.Take()
	c.Raw = append(c.Raw, out...)
	return out, st
}

// Settle waits until no connection goroutine of the library is still running:
// every goroutine inside Server.serve must be parked in a memnet Read (waiting
// for client input on some other, open connection) or gone. A closed
// connection is only quiescent once its goroutine has finished — the library
// may still run callbacks after it closed the transport. No timing is used
// for the verdict: the loop ends on a structural condition of the stacks.
func Settle() bool {
	buf := make([]byte, 1<<16)
	deadline := time.Now().Add(60 * time.Second)
	for spin := 0; ; spin++ {
		n := runtime.Stack(buf, true)
		for n == len(buf) {
			buf = make([]byte, 2*len(buf))
			n = runtime.Stack(buf, true)
		}
		busy := false
		for _, g := range strings.Split(string(buf[:n]), "\n\n") {
			if !strings.Contains(g, ".(*Server).serve(") {
				continue
			}
			if strings.Contains(g, "memnet.(*Conn).Read(") && strings.Contains(g, "sync.(*Cond).Wait(") {
				continue // parked waiting for client input
			}
			busy = true
			break
		}
		if !busy {
			return true
		}
		if time.Now().After(deadline) {
			return false
		}
		if spin < 20 {
			runtime.Gosched()
		} else {
			time.Sleep(20 * time.Microsecond)
		}
	}
}

// End sends EOF and waits until the server closes the connection.
func (c *Conn) End() ([]byte, memnet.Status) {
	c.C.EOF()
	st := c.C.AwaitClose()
	if st == memnet.Closed {
		Settle()
	}
	out := c.C.Take()
	c.Raw = append(c.Raw, out...)
	return out, st
}

// One is a convenience: fresh server, one connection.
type One struct {
	*Server
	*Conn
}

// StartOne starts a fresh server with a single connection.
func StartOne(parse wire.ParseFn, opts ...wire.OptionFn) (*One, error) {
	s, err := NewServer(parse, opts...)
	if err != nil {
		return nil, err
	}
	return &One{Server: s, Conn: s.Connect()}, nil
}

// Kinds parses a reply under the strict grammar and returns the type letters,
// or "!<error>" when it does not parse.
func Kinds(b []byte) string {
	ms, err := pgproto.ParseBackend(b)
	if err != nil {
		return "!" + err.Error()
	}
	return pgproto.Kinds(ms)
}

// CanonTranscript renders a reply stream as strings with the ParameterStatus
// block sorted (its order is map-iteration order in the library).
func CanonTranscript(b []byte) ([]string, error) {
	ms, err := pgproto.ParseBackend(b)
	out := pgproto.Strings(ms)
	i := 0
	for i < len(out) {
		if ms[i].Type != 'S' {
			i++
			continue
		}
		j := i
		for j < len(out) && ms[j].Type == 'S' {
			j++
		}
		sortStrings(out[i:j])
		i = j
	}
	if err != nil {
		out = append(out, "!"+err.Error())
	}
	return out, err
}

func sortStrings(s []string) {
	for i := 1; i < len(s); i++ {
		for j := i; j > 0 && s[j] < s[j-1]; j-- {
			s[j], s[j-1] = s[j-1], s[j]
		}
	}
}

// CloseWhileBusy calls Server.Close on another goroutine and returns once that call has either returned or is
// waiting for the commands in flight (its goroutine is parked inside Close): whatever Close does to the
// connections before it waits has been done by then. For use from inside a handler.
func CloseWhileBusy(srv *wire.Server) {
	returned := make(chan struct{})
	ident := make(chan string, 1)
	go func() {
		defer close(returned)
		// (this goroutine's own header line, e.g. "goroutine 57 [": other Close calls may be parked in the process)
		b := make([]byte, 64)
		b = b[:runtime.Stack(b, false)]
		if k := bytes.IndexByte(b, '['); k > 0 {
			b = b[:k+1]
		}
		ident <- string(b)
		srv.Close()
	}()
	me := <-ident
	deadline := time.Now().Add(memnet.Watchdog)
	buf := make([]byte, 1<<20)
	for time.Now().Before(deadline) {
		select {
		case <-returned:
			return
		default:
		}
		n := runtime.Stack(buf, true)
		for _, g := range strings.Split(string(buf[:n]), "\n\n") {
			// only a Close that has reached its wait for the commands in flight has done its work
			if strings.HasPrefix(g, me) && strings.Contains(g, "sync.(*WaitGroup).Wait") {
				return
			}
		}
		time.Sleep(100 * time.Microsecond)
	}
}

// LibraryBlocked inspects all goroutine stacks and reports whether some
// goroutine with psql-wire frames is in a blocked state (used to classify a
// watchdog expiry as a real wedge instead of an engine problem).
func LibraryBlocked() (bool, string) {
	buf := make([]byte, 1<<20)
	n := runtime.Stack(buf, true)
	dump := string(buf[:n])
	for _, g := range strings.Split(dump, "\n\n") {
		if !strings.Contains(g, "jeroenrinzema/psql-wire.") && !strings.Contains(g, "/repo/") {
			continue
		}
		head, _, _ := strings.Cut(g, "\n")
		if strings.Contains(head, "[running]") || strings.Contains(head, "[runnable]") {
			continue
		}
		return true, g
	}
	return false, dump
}

// HasPrefixMsg reports whether raw starts with the given bytes.
func HasPrefixMsg(raw, p []byte) bool { return bytes.HasPrefix(raw, p) }
