package harness

import (
	"crypto/ecdsa"
	"crypto/elliptic"
	"crypto/rand"
	"crypto/tls"
	"crypto/x509"
	"crypto/x509/pkix"
	"math/big"
	"sync"
	"time"
)

var (
	certOnce sync.Once
	cert     tls.Certificate
)

// Certificate returns a self-signed certificate for "verif" (generated once per process).
func Certificate() tls.Certificate {
	certOnce.Do(func() {
		key, err := ecdsa.GenerateKey(elliptic.P256(), rand.Reader)
		if err != nil {
			panic(err)
		}
		tmpl := &x509.Certificate{SerialNumber: big.NewInt(1), Subject: pkix.Name{CommonName: "verif"},
			NotBefore: time.Unix(0, 0), NotAfter: time.Date(2099, 1, 1, 0, 0, 0, 0, time.UTC),
			KeyUsage: x509.KeyUsageDigitalSignature, ExtKeyUsage: []x509.ExtKeyUsage{x509.ExtKeyUsageServerAuth}, DNSNames: []string{"verif"}}
		der, err := x509.CreateCertificate(rand.Reader, tmpl, tmpl, &key.PublicKey, key)
		if err != nil {
			panic(err)
		}
		cert = tls.Certificate{Certificate: [][]byte{der}, PrivateKey: key}
	})
	return cert
}
