module verif/engine

go 1.23.0

require (
	github.com/jeroenrinzema/psql-wire v0.0.0
	github.com/lib/pq v1.10.9
)

require github.com/jackc/pgx/v5 v5.4.3

replace github.com/jeroenrinzema/psql-wire => /repo
