//go:build verif

// Command verif-sched is the scheduled worker: built with -tags verif and the
// generated overlay, so that the psql-wire it links is the instrumented copy.
package main

import (
	"encoding/json"
	"fmt"
	"os"
	"strconv"
	"time"

	"verif/engine/sched"
)

func main() {
	if len(os.Args) < 2 {
		fmt.Fprintln(os.Stderr, "usage: verif-sched run <prop> <tier> <shard> <nshards> <deadline> | replay <prop> <scenario> <choices-json>")
		os.Exit(2)
	}
	switch os.Args[1] {
	case "run":
		shard, _ := strconv.Atoi(os.Args[4])
		n, _ := strconv.Atoi(os.Args[5])
		dl, _ := strconv.ParseInt(os.Args[6], 10, 64)
		os.Exit(sched.RunWorker(os.Args[2], os.Args[3], shard, n, time.Unix(dl, 0)))
	case "replay":
		var choices []int
		json.Unmarshal([]byte(os.Args[4]), &choices)
		os.Exit(sched.Replay(os.Args[2], os.Args[3], choices))
	}
	os.Exit(2)
}
