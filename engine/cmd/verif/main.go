// Command verif is the driver / worker / replay binary of the model-checking
// framework for psql-wire.
package main

import (
	"fmt"
	"os"
	"strconv"
	"time"

	"verif/engine/explore"
	_ "verif/engine/props"
)

func usage() {
	fmt.Fprintln(os.Stderr, "usage: verif check <ID> quick|thorough | verif replay <file> | verif list")
	os.Exit(2)
}

func main() {
	if len(os.Args) < 2 {
		usage()
	}
	root := os.Getenv("VERIF_ROOT")
	if root == "" {
		root = "/verif"
	}
	switch os.Args[1] {
	case "list":
		for _, id := range explore.IDs() {
			fmt.Println(id)
		}
	case "check":
		if len(os.Args) != 4 {
			usage()
		}
		os.Exit(explore.RunCheck(os.Args[2], os.Args[3], root))
	case "worker":
		if len(os.Args) != 9 {
			usage()
		}
		a := os.Args[2:]
		shard, _ := strconv.Atoi(a[2])
		n, _ := strconv.Atoi(a[3])
		from, _ := strconv.Atoi(a[4])
		dl, _ := strconv.ParseInt(a[5], 10, 64)
		only, _ := strconv.Atoi(a[6])
		os.Exit(explore.RunWorker(a[0], a[1], shard, n, from, time.Unix(dl, 0), only))
	case "replay":
		if len(os.Args) != 3 {
			usage()
		}
		os.Exit(explore.Replay(os.Args[2]))
	default:
		usage()
	}
}
