package props

import (
	"context"
	"encoding/hex"
	"errors"
	"fmt"
	"math"
	"strings"
	"time"

	"github.com/jackc/pgx/v5/pgtype"
	wire "github.com/jeroenrinzema/psql-wire"
	"github.com/lib/pq/oid"
	"verif/engine/explore"
	"verif/engine/harness"
	"verif/engine/pgproto"
)

// C09 — Row values round-trip to the client and NULL stays NULL.

type c09Form struct {
	Name string
	V    any
}

type c09Value struct {
	Type  string
	OID   uint32
	Label string
	Canon string // expected canonical decoding
	Forms []c09Form
}

type c09Null struct {
	Type  string
	OID   uint32
	Forms []c09Form
}

func ptr[T any](v T) *T { return &v }

func c09Values(tier string) (vals []c09Value, nulls []c09Null) {
	add := func(t string, o uint32, label, canon string, forms ...c09Form) {
		vals = append(vals, c09Value{t, o, label, canon, forms})
	}
	for _, b := range []bool{true, false} {
		add("bool", 16, fmt.Sprint(b), fmt.Sprintf("bool:%v", b), c09Form{"bool", b}, c09Form{"pgtype.Bool", pgtype.Bool{Bool: b, Valid: true}}, c09Form{"*bool", ptr(b)})
	}
	for _, v := range []int16{math.MinInt16, -1, 0, 1, math.MaxInt16} {
		add("int2", 21, fmt.Sprint(v), fmt.Sprintf("int:%d", v), c09Form{"int16", v}, c09Form{"pgtype.Int2", pgtype.Int2{Int16: v, Valid: true}}, c09Form{"*int16", ptr(v)})
	}
	for _, v := range []int32{math.MinInt32, -1, 0, 1, math.MaxInt32} {
		add("int4", 23, fmt.Sprint(v), fmt.Sprintf("int:%d", v), c09Form{"int32", v}, c09Form{"pgtype.Int4", pgtype.Int4{Int32: v, Valid: true}}, c09Form{"*int32", ptr(v)}, c09Form{"int", int(v)})
	}
	for _, v := range []int64{math.MinInt64, -1, 0, 1, math.MaxInt64} {
		add("int8", 20, fmt.Sprint(v), fmt.Sprintf("int:%d", v), c09Form{"int64", v}, c09Form{"pgtype.Int8", pgtype.Int8{Int64: v, Valid: true}}, c09Form{"*int64", ptr(v)})
	}
	for _, v := range []float32{0, 1.5, -1.5, math.MaxFloat32, math.SmallestNonzeroFloat32, float32(math.Inf(1)), float32(math.Inf(-1)), float32(math.NaN())} {
		add("float4", 700, fmt.Sprint(v), pgproto.CanonFloat32(v), c09Form{"float32", v}, c09Form{"pgtype.Float4", pgtype.Float4{Float32: v, Valid: true}}, c09Form{"*float32", ptr(v)})
	}
	for _, v := range []float64{0, 1.5, -1.5, math.MaxFloat64, math.SmallestNonzeroFloat64, math.Inf(1), math.Inf(-1), math.NaN()} {
		add("float8", 701, fmt.Sprint(v), pgproto.CanonFloat64(v), c09Form{"float64", v}, c09Form{"pgtype.Float8", pgtype.Float8{Float64: v, Valid: true}}, c09Form{"*float64", ptr(v)})
	}
	texts := []string{"", "a", "é", "a b", "\\", strings.Repeat("0123456789", 30), "\x01\x02\t\n"}
	for _, t := range []struct {
		n string
		o uint32
	}{{"text", 25}, {"varchar", 1043}} {
		for _, v := range texts {
			add(t.n, t.o, fmt.Sprintf("%.12q", v), "text:"+v, c09Form{"string", v}, c09Form{"pgtype.Text", pgtype.Text{String: v, Valid: true}}, c09Form{"*string", ptr(v)})
		}
	}
	for _, v := range [][]byte{{}, {0}, {0xFF, 0x00, 0x5C}, []byte(strings.Repeat("\x00\xFFab", 75))} {
		add("bytea", 17, fmt.Sprintf("%d bytes", len(v)), "bytes:"+hex.EncodeToString(v), c09Form{"[]byte", v}, c09Form{"*[]byte", ptr(v)})
	}
	for _, v := range [][16]byte{{}, {0x12, 0x34, 0x56, 0x78, 0x9a, 0xbc, 0xde, 0xf0, 1, 2, 3, 4, 5, 6, 7, 8}, {255, 255, 255, 255, 255, 255, 255, 255, 255, 255, 255, 255, 255, 255, 255, 255}} {
		add("uuid", 2950, hex.EncodeToString(v[:4]), "uuid:"+hex.EncodeToString(v[:]), c09Form{"[16]byte", v}, c09Form{"pgtype.UUID", pgtype.UUID{Bytes: v, Valid: true}})
	}
	// time.Time values that carry a zone: a date / timestamp (without time zone) column receives the calendar and
	// wall-clock fields of the value as written, a timestamptz column the instant
	for _, zone := range []*time.Location{time.FixedZone("", 2*3600), time.FixedZone("", -8*3600)} {
		for _, hm := range [][2]int{{0, 30}, {12, 30}, {23, 30}} {
			d := time.Date(2024, 3, 10, hm[0], hm[1], 15, 0, zone)
			wall := time.Date(2024, 3, 10, hm[0], hm[1], 15, 0, time.UTC)
			epoch := time.Date(2000, 1, 1, 0, 0, 0, 0, time.UTC)
			name := d.Format(time.RFC3339)
			add("date", 1082, name, fmt.Sprintf("date:%d", int32(time.Date(2024, 3, 10, 0, 0, 0, 0, time.UTC).Sub(epoch).Hours()/24)), c09Form{"time.Time", d})
			add("timestamp", 1114, name, fmt.Sprintf("ts:%d", wall.Sub(epoch).Microseconds()), c09Form{"time.Time", d})
			add("timestamptz", 1184, name, fmt.Sprintf("ts:%d", d.Sub(epoch).Microseconds()), c09Form{"time.Time", d})
		}
	}
	if true {
		for _, d := range []time.Time{time.Date(2000, 1, 1, 0, 0, 0, 0, time.UTC), time.Date(2024, 2, 29, 0, 0, 0, 0, time.UTC), time.Date(1970, 1, 1, 0, 0, 0, 0, time.UTC)} {
			days := int32(d.Sub(time.Date(2000, 1, 1, 0, 0, 0, 0, time.UTC)).Hours() / 24)
			add("date", 1082, d.Format("2006-01-02"), fmt.Sprintf("date:%d", days), c09Form{"time.Time", d}, c09Form{"pgtype.Date", pgtype.Date{Time: d, Valid: true}})
		}
		for _, d := range []time.Time{time.Date(2000, 1, 1, 0, 0, 0, 0, time.UTC), time.Date(2024, 2, 29, 12, 34, 56, 789000000, time.UTC), time.Date(1969, 12, 31, 23, 59, 59, 0, time.UTC)} {
			us := d.Sub(time.Date(2000, 1, 1, 0, 0, 0, 0, time.UTC)).Microseconds()
			add("timestamp", 1114, d.Format(time.RFC3339Nano), fmt.Sprintf("ts:%d", us), c09Form{"time.Time", d}, c09Form{"pgtype.Timestamp", pgtype.Timestamp{Time: d, Valid: true}})
			add("timestamptz", 1184, d.Format(time.RFC3339Nano), fmt.Sprintf("ts:%d", us), c09Form{"time.Time", d}, c09Form{"pgtype.Timestamptz", pgtype.Timestamptz{Time: d, Valid: true}})
		}
	}
	if tier == "thorough" {
		for _, j := range []string{`{"a":1}`, `[]`, `"s"`} {
			add("json", 114, j, "text:"+j, c09Form{"[]byte", []byte(j)}, c09Form{"string", j})
		}
	}
	for _, j := range []string{`{"a": 1}`, `[]`} {
		add("jsonb", 3802, j, "text:"+j, c09Form{"string", j}, c09Form{"[]byte", []byte(j)})
	}
	// a typed nil map / slice is a value (JSON null), whatever the library decides it must arrive as a well-formed field
	add("jsonb", 3802, "null (nil map)", "text:null", c09Form{"map[string]any(nil)", map[string]any(nil)}, c09Form{"[]any(nil)", []any(nil)})
	add("json", 114, "null (nil map)", "text:null", c09Form{"map[string]any(nil)", map[string]any(nil)})
	// values larger than anything the connection has written before (the frame grows while the value is added)
	for _, n := range []int{4090, 6000, 70000} {
		v := strings.Repeat("L", n)
		add("text", 25, fmt.Sprintf("%d bytes", n), "text:"+v, c09Form{"string", v})
		add("bytea", 17, fmt.Sprintf("%d bytes", n), "bytes:"+strings.Repeat("4c", n), c09Form{"[]byte", []byte(v)})
	}
	addNull := func(t string, o uint32, forms ...c09Form) {
		nulls = append(nulls, c09Null{t, o, append([]c09Form{{"untyped nil", nil}}, forms...)})
	}
	addNull("bool", 16, c09Form{"(*bool)(nil)", (*bool)(nil)}, c09Form{"pgtype.Bool{}", pgtype.Bool{}})
	addNull("int2", 21, c09Form{"(*int16)(nil)", (*int16)(nil)}, c09Form{"pgtype.Int2{}", pgtype.Int2{}})
	addNull("int4", 23, c09Form{"(*int32)(nil)", (*int32)(nil)}, c09Form{"pgtype.Int4{}", pgtype.Int4{}})
	addNull("int8", 20, c09Form{"(*int64)(nil)", (*int64)(nil)}, c09Form{"pgtype.Int8{}", pgtype.Int8{}})
	addNull("float4", 700, c09Form{"(*float32)(nil)", (*float32)(nil)}, c09Form{"pgtype.Float4{}", pgtype.Float4{}})
	addNull("float8", 701, c09Form{"(*float64)(nil)", (*float64)(nil)}, c09Form{"pgtype.Float8{}", pgtype.Float8{}})
	addNull("text", 25, c09Form{"(*string)(nil)", (*string)(nil)}, c09Form{"pgtype.Text{}", pgtype.Text{}})
	addNull("varchar", 1043, c09Form{"(*string)(nil)", (*string)(nil)}, c09Form{"pgtype.Text{}", pgtype.Text{}})
	addNull("bytea", 17, c09Form{"[]byte(nil)", []byte(nil)}, c09Form{"(*[]byte)(nil)", (*[]byte)(nil)})
	addNull("uuid", 2950, c09Form{"pgtype.UUID{}", pgtype.UUID{}})
	if tier == "thorough" {
		addNull("date", 1082, c09Form{"pgtype.Date{}", pgtype.Date{}}, c09Form{"(*time.Time)(nil)", (*time.Time)(nil)})
		addNull("timestamp", 1114, c09Form{"pgtype.Timestamp{}", pgtype.Timestamp{}})
		addNull("timestamptz", 1184, c09Form{"pgtype.Timestamptz{}", pgtype.Timestamptz{}})
	}
	return
}

type c09Cell struct {
	Type  string
	OID   uint32
	Form  string
	V     any
	Canon string // "NULL" for NULL forms
}

func (c c09Cell) String() string { return fmt.Sprintf("%s via %s => %.40s", c.Type, c.Form, c.Canon) }

// c09Run writes one row of the given cells and checks what arrives.
func c09Run(cells []c09Cell, binary bool) explore.Result {
	var res explore.Result
	cols := make(wire.Columns, len(cells))
	row := make([]any, len(cells))
	for i, c := range cells {
		cols[i] = wire.Column{Name: fmt.Sprintf("c%d", i), Oid: oid.Oid(c.OID)}
		row[i] = c.V
	}
	var rowErr error
	parse := func(ctx context.Context, q string) (wire.PreparedStatements, error) {
		return wire.Prepared(wire.NewStatement(func(ctx context.Context, w wire.DataWriter, p []wire.Parameter) error {
			rowErr = w.Row(row)
			if rowErr != nil {
				return w.Complete("SELECT 0")
			}
			return w.Complete("SELECT 1")
		}, wire.WithColumns(cols))), nil
	}
	one, err := harness.StartOne(parse, wire.MessageBufferSize(1<<16))
	if err != nil {
		res.Engine = err.Error()
		return res
	}
	defer one.Stop()
	one.Step(pgproto.Startup("user", "u"))
	var out []byte
	if binary {
		out, _ = one.Step(pgproto.Cat(pgproto.Parse("", "q"), pgproto.Bind("", "", nil, nil, []int16{1}), pgproto.Describe('P', ""), pgproto.Execute("", 0), pgproto.Sync()))
	} else {
		out, _ = one.Step(pgproto.Query("q"))
	}
	ms, perr := pgproto.ParseBackend(out)
	if perr != nil {
		res.Fail("reply-grammar", perr.Error())
		return res
	}
	var cellNames []string
	nullCount := 0
	for _, c := range cells {
		cellNames = append(cellNames, c.String())
		if c.Canon == "NULL" {
			nullCount++
		}
	}
	res.Key = fmt.Sprint(cellNames, binary)
	res.Outcome = "values"
	if nullCount > 0 {
		res.Outcome = "with-null"
	}
	if rowErr != nil {
		// the handler was told the row could not be written: nothing may have been emitted for it
		res.Outcome = "row-rejected"
		res.Notes = append(res.Notes, "source form not encodable: "+cells[0].Type+" via "+cells[0].Form)
		for _, m := range ms {
			if m.Type == 'D' {
				res.Fail("rejected-row-emitted", fmt.Sprintf("Row returned %v but a DataRow was emitted for %v", rowErr, cellNames))
			}
		}
		return res
	}
	var t *pgproto.BMsg
	var ds []pgproto.BMsg
	for i := range ms {
		switch ms[i].Type {
		case 'T':
			t = &ms[i]
		case 'D':
			ds = append(ds, ms[i])
		}
	}
	if t == nil || len(ds) != 1 {
		res.Fail("datarow-count", fmt.Sprintf("one row written, reply %q for %v", pgproto.Kinds(ms), cellNames))
		return res
	}
	if len(t.Cols) != len(cells) || len(ds[0].Row) != len(t.Cols) {
		res.Fail("field-count", fmt.Sprintf("RowDescription has %d columns, DataRow %d fields, %d values written", len(t.Cols), len(ds[0].Row), len(cells)))
		return res
	}
	for i, c := range cells {
		wantFmt := int16(0)
		if binary {
			wantFmt = 1
		}
		if t.Cols[i].Format != wantFmt || t.Cols[i].OID != c.OID {
			res.Fail("row-description", fmt.Sprintf("column %d announced as oid %d format %d, expected oid %d format %d", i, t.Cols[i].OID, t.Cols[i].Format, c.OID, wantFmt))
			continue
		}
		f := ds[0].Row[i]
		if c.Canon == "NULL" {
			if f != nil {
				res.Fail("null-not-null", fmt.Sprintf("column %d (%s): SQL NULL was transmitted with length %d (payload % x) instead of -1", i, c, len(f), f))
			}
			continue
		}
		if f == nil {
			res.Fail("value-became-null", fmt.Sprintf("column %d (%s): non-NULL value transmitted as NULL", i, c))
			continue
		}
		got, derr := pgproto.DecodeValue(t.Cols[i].OID, t.Cols[i].Format, f)
		if derr != nil {
			res.Fail("undecodable-in-announced-format", fmt.Sprintf("column %d (%s): %v", i, c, derr))
			continue
		}
		if got != c.Canon {
			res.Fail("value-mismatch", fmt.Sprintf("column %d (%s): decoded %.60s in format %d", i, c, got, t.Cols[i].Format))
		}
	}
	return res
}

// c09RunAfterRejected: a row that is rejected half-way (unencodable value in its LAST column) is
// followed by a valid row; the valid row must arrive as exactly one correct DataRow.
func c09RunAfterRejected(cells []c09Cell, binary bool) explore.Result {
	var res explore.Result
	res.Outcome = "after-rejected-row"
	cols := make(wire.Columns, len(cells))
	good := make([]any, len(cells))
	bad := make([]any, len(cells))
	for i, c := range cells {
		cols[i] = wire.Column{Name: fmt.Sprintf("c%d", i), Oid: oid.Oid(c.OID)}
		good[i], bad[i] = c.V, c.V
	}
	bad[len(bad)-1] = struct{ unencodable bool }{}
	var errBad, errGood error
	parse := func(ctx context.Context, q string) (wire.PreparedStatements, error) {
		return wire.Prepared(wire.NewStatement(func(ctx context.Context, w wire.DataWriter, p []wire.Parameter) error {
			errBad = w.Row(bad)
			errGood = w.Row(good)
			return w.Complete("SELECT 1")
		}, wire.WithColumns(cols))), nil
	}
	one, err := harness.StartOne(parse, wire.MessageBufferSize(1<<16))
	if err != nil {
		res.Engine = err.Error()
		return res
	}
	defer one.Stop()
	one.Step(pgproto.Startup("user", "u"))
	var out []byte
	if binary {
		out, _ = one.Step(pgproto.Cat(pgproto.Parse("", "q"), pgproto.Bind("", "", nil, nil, []int16{1}), pgproto.Describe('P', ""), pgproto.Execute("", 0), pgproto.Sync()))
	} else {
		out, _ = one.Step(pgproto.Query("q"))
	}
	var names []string
	for _, c := range cells {
		names = append(names, c.String())
	}
	res.Key = "after-rejected " + fmt.Sprint(names, binary)
	ms, perr := pgproto.ParseBackend(out)
	if perr != nil {
		res.Fail("reply-grammar", fmt.Sprintf("rejected row then %v: %v", names, perr))
		return res
	}
	if errBad == nil || errGood != nil {
		res.Fail("row-verdicts", fmt.Sprintf("unencodable row returned %v, valid row returned %v", errBad, errGood))
		return res
	}
	var t *pgproto.BMsg
	var ds []pgproto.BMsg
	for i := range ms {
		switch ms[i].Type {
		case 'T':
			t = &ms[i]
		case 'D':
			ds = append(ds, ms[i])
		}
	}
	if t == nil || len(ds) != 1 || len(ds[0].Row) != len(cells) {
		res.Fail("datarow-count", fmt.Sprintf("one rejected and one accepted row: reply %q", pgproto.Kinds(ms)))
		return res
	}
	for i, c := range cells {
		f := ds[0].Row[i]
		got, derr := pgproto.DecodeValue(t.Cols[i].OID, t.Cols[i].Format, f)
		if derr != nil || got != c.Canon {
			res.Fail("value-mismatch-after-rejected-row", fmt.Sprintf("column %d (%s): decoded %q (%v) from % x", i, c, got, derr, f))
		}
	}
	return res
}

// c09RunTwoPortals: Bind p1 (format A), Describe p1, Bind p2 (format B), Describe p2, Execute p1, Execute p2:
// every row must decode in the format ITS portal announced.
func c09RunTwoPortals(cell c09Cell, firstBinary bool) explore.Result {
	var res explore.Result
	res.Outcome = "values"
	res.Key = fmt.Sprint("two-portals", cell.String(), firstBinary)
	cols := wire.Columns{{Name: "c0", Oid: oid.Oid(cell.OID)}}
	parse := func(ctx context.Context, q string) (wire.PreparedStatements, error) {
		return wire.Prepared(wire.NewStatement(func(ctx context.Context, w wire.DataWriter, p []wire.Parameter) error {
			if err := w.Row([]any{cell.V}); err != nil {
				return err
			}
			return w.Complete("SELECT 1")
		}, wire.WithColumns(cols))), nil
	}
	one, err := harness.StartOne(parse)
	if err != nil {
		res.Engine = err.Error()
		return res
	}
	defer one.Stop()
	one.Step(pgproto.Startup("user", "u"))
	f1, f2 := int16(0), int16(1)
	if firstBinary {
		f1, f2 = 1, 0
	}
	out, _ := one.Step(pgproto.Cat(pgproto.Parse("s", "q"), pgproto.Bind("p1", "s", nil, nil, []int16{f1}), pgproto.Describe('P', "p1"),
		pgproto.Bind("p2", "s", nil, nil, []int16{f2}), pgproto.Describe('P', "p2"), pgproto.Execute("p1", 0), pgproto.Execute("p2", 0), pgproto.Sync()))
	ms, perr := pgproto.ParseBackend(out)
	if perr != nil || pgproto.Kinds(ms) != "12T2TDCDCZ" {
		res.Fail("reply-sequence", fmt.Sprintf("two portals: reply %q %v", pgproto.Kinds(ms), perr))
		return res
	}
	for i, pair := range [][2]int{{2, 5}, {4, 7}} {
		t, d := ms[pair[0]], ms[pair[1]]
		got, derr := pgproto.DecodeValue(t.Cols[0].OID, t.Cols[0].Format, d.Row[0])
		if derr != nil || got != cell.Canon {
			res.Fail("undecodable-in-announced-format", fmt.Sprintf("portal p%d announced format %d for %s but its DataRow field % x decodes to %q (%v)", i+1, t.Cols[0].Format, cell, d.Row[0], got, derr))
		}
	}
	return res
}

// c09RunRebind: one portal name bound, executed and bound again with another result-format section, NOT described:
// the client decodes in the format its own Bind asked for (no codes = text).
func c09RunRebind(cell c09Cell, first, second []int16, named bool) explore.Result {
	var res explore.Result
	res.Outcome = "values"
	res.Key = fmt.Sprint("rebind", cell.String(), first, second, named)
	cols := wire.Columns{{Name: "c0", Oid: oid.Oid(cell.OID)}}
	parse := func(ctx context.Context, q string) (wire.PreparedStatements, error) {
		return wire.Prepared(wire.NewStatement(func(ctx context.Context, w wire.DataWriter, p []wire.Parameter) error {
			if err := w.Row([]any{cell.V}); err != nil {
				return err
			}
			return w.Complete("SELECT 1")
		}, wire.WithColumns(cols))), nil
	}
	one, err := harness.StartOne(parse)
	if err != nil {
		res.Engine = err.Error()
		return res
	}
	defer one.Stop()
	one.Step(pgproto.Startup("user", "u"))
	name := ""
	if named {
		name = "p"
	}
	out, _ := one.Step(pgproto.Cat(pgproto.Parse("s", "q"), pgproto.Bind(name, "s", nil, nil, first), pgproto.Execute(name, 0),
		pgproto.Bind(name, "s", nil, nil, second), pgproto.Execute(name, 0), pgproto.Sync()))
	ms, perr := pgproto.ParseBackend(out)
	if perr != nil || pgproto.Kinds(ms) != "12DC2DCZ" {
		res.Fail("reply-sequence", fmt.Sprintf("portal bound twice: reply %q %v", pgproto.Kinds(ms), perr))
		return res
	}
	for i, at := range []int{2, 5} {
		codes := [][]int16{first, second}[i]
		f := int16(0)
		if len(codes) > 0 {
			f = codes[0]
		}
		got, derr := pgproto.DecodeValue(cell.OID, f, ms[at].Row[0])
		if derr != nil || got != cell.Canon {
			res.Fail("undecodable-in-announced-format", fmt.Sprintf("Bind number %d of portal %q asked for result formats %v (format %d) but the DataRow field % x of %s decodes to %q (%v) in that format", i+1, name, codes, f, ms[at].Row[0], cell, got, derr))
		}
	}
	return res
}

// c09RunEarlierMaps: connections that re-register a standard type on THEIR OWN type map (bytea encoded by the text
// codec) come and go; a connection that changed nothing afterwards still writes its bytea values in the standard
// encoding of the announced format.
func c09RunEarlierMaps(order []string) explore.Result {
	var res explore.Result
	res.Outcome = "values"
	res.Key = fmt.Sprint("earlier-maps", order)
	parse := func(ctx context.Context, q string) (wire.PreparedStatements, error) {
		return wire.Prepared(wire.NewStatement(func(ctx context.Context, w wire.DataWriter, p []wire.Parameter) error {
			if err := w.Row([]any{[]byte("hello"), int32(7)}); err != nil {
				return err
			}
			return w.Complete("SELECT 1")
		}, wire.WithColumns(wire.Columns{{Name: "b", Oid: oid.T_bytea}, {Name: "n", Oid: oid.T_int4}}))), nil
	}
	mw := wire.SessionMiddleware(func(ctx context.Context) (context.Context, error) {
		if string(wire.ClientParameters(ctx)["user"]) == "modifier" {
			wire.TypeMap(ctx).RegisterType(&pgtype.Type{Name: "bytea", OID: pgtype.ByteaOID, Codec: pgtype.TextCodec{}})
			wire.TypeMap(ctx).RegisterType(&pgtype.Type{Name: "int4", OID: pgtype.Int4OID, Codec: pgtype.TextCodec{}})
		}
		return ctx, nil
	})
	srv, err := harness.NewServer(parse, mw)
	if err != nil {
		res.Engine = err.Error()
		return res
	}
	defer srv.Stop()
	for i, user := range order {
		c := srv.Connect()
		c.Step(pgproto.Startup("user", user))
		out, _ := c.Step(pgproto.Query("q"))
		c.Step(pgproto.Terminate())
		c.End()
		if user == "modifier" {
			continue
		}
		ms, perr := pgproto.ParseBackend(out)
		if perr != nil {
			res.Fail("reply-grammar", perr.Error())
			return res
		}
		if k := pgproto.Kinds(ms); k != "TDCZ" {
			res.Fail("value-mismatch", fmt.Sprintf("connections %v one after the other (a modifier re-registers bytea and int4 on its own type map): the query of connection %d (%s) was answered %q, on a fresh server it is answered \"TDCZ\"", order, i+1, user, k))
		}
		for _, m := range ms {
			if m.Type != 'D' {
				continue
			}
			// (the hex form is what a connection on a fresh server receives; "hello" would be a valid bytea text too,
			// in the escape form - but then the encoding depends on who was connected before)
			if string(m.Row[0]) != "\\x68656c6c6f" || string(m.Row[1]) != "7" {
				res.Fail("value-mismatch", fmt.Sprintf("connections %v one after the other (a modifier re-registers bytea and int4 on its own type map): connection %d (%s) received the fields %q %q for the bytea value \"hello\" and the int4 value 7", order, i+1, user, m.Row[0], m.Row[1]))
			}
		}
	}
	return res
}

// c09RunFormats: a Bind carrying k result-format codes for a statement of n columns (k < n, k > n included): if the
// library accepts the Bind, every field of the DataRow decodes, in the format the portal's RowDescription announces
// for its column, to the value written. Columns may carry a type modifier (varchar(n)): the value is not touched.
func c09RunFormats(rf []int16, typmod int32) explore.Result {
	var res explore.Result
	res.Outcome = "values"
	res.Key = fmt.Sprint("formats", rf, typmod)
	vals := []any{int32(258), "żółć 日本語", int32(-7), "plain"}
	wantS := []string{"int:258", "text:żółć 日本語", "int:-7", "text:plain"}
	cols := wire.Columns{{Name: "a", Oid: 23}, {Name: "b", Oid: 1043, TypeModifier: typmod}, {Name: "c", Oid: 23}, {Name: "d", Oid: 25}}
	parse := func(ctx context.Context, q string) (wire.PreparedStatements, error) {
		return wire.Prepared(wire.NewStatement(func(ctx context.Context, w wire.DataWriter, p []wire.Parameter) error {
			if err := w.Row(vals); err != nil {
				return err
			}
			return w.Complete("SELECT 1")
		}, wire.WithColumns(cols))), nil
	}
	one, err := harness.StartOne(parse)
	if err != nil {
		res.Engine = err.Error()
		return res
	}
	defer one.Stop()
	one.Step(pgproto.Startup("user", "u"))
	out, _ := one.Step(pgproto.Cat(pgproto.Parse("", "q"), pgproto.Bind("", "", nil, nil, rf), pgproto.Describe('P', ""), pgproto.Execute("", 0), pgproto.Sync()))
	ms, perr := pgproto.ParseBackend(out)
	if perr != nil {
		res.Fail("reply-grammar", perr.Error())
		return res
	}
	var t, d *pgproto.BMsg
	for i := range ms {
		switch ms[i].Type {
		case 'T':
			t = &ms[i]
		case 'D':
			d = &ms[i]
		}
	}
	if t == nil || d == nil {
		return res // (the Bind or the row was refused: nothing was delivered in a wrong format)
	}
	for i := range cols {
		if i >= len(d.Row) || i >= len(t.Cols) {
			res.Fail("datarow-count", fmt.Sprintf("result-format codes %v: RowDescription has %d fields, DataRow %d, the statement 4 columns", rf, len(t.Cols), len(d.Row)))
			break
		}
		got, derr := pgproto.DecodeValue(uint32(cols[i].Oid), t.Cols[i].Format, d.Row[i])
		if derr != nil || got != wantS[i] {
			res.Fail("value-mismatch", fmt.Sprintf("result-format codes %v (type modifier of column b: %d): column %d is announced in format %d, its field %.30q decodes to %q (%v), the handler wrote %v", rf, typmod, i, t.Cols[i].Format, d.Row[i], got, derr, vals[i]))
		}
	}
	return res
}

// c09RunThenEnds: a handler writes rows and then ends WITHOUT completing: it fails, or simply returns. "Any row a
// handler writes arrives as one DataRow": every row whose Row call returned nil is on the wire before the
// ErrorResponse / the end of the cycle. Also a statement with no columns at all: its rows are DataRows of 0 fields.
func c09RunThenEnds(ncols, rows int, ending string, extended bool) explore.Result {
	var res explore.Result
	res.Outcome = "values"
	res.Key = fmt.Sprint("then-ends", ncols, rows, ending, extended)
	accepted := 0
	parse := func(ctx context.Context, q string) (wire.PreparedStatements, error) {
		cols := wire.Columns{{Name: "a", Oid: 23}, {Name: "b", Oid: 25}}[:ncols]
		return wire.Prepared(wire.NewStatement(func(ctx context.Context, w wire.DataWriter, p []wire.Parameter) error {
			accepted = 0
			for i := 0; i < rows; i++ {
				if err := w.Row([]any{int32(i), strings.Repeat("v", i*700)}[:ncols]); err != nil {
					return err
				}
				accepted++
			}
			switch ending {
			case "returns an error":
				return errors.New("failed after the rows")
			case "returns nil without completing":
				return nil
			}
			return w.Complete(fmt.Sprintf("SELECT %d", rows))
		}, wire.WithColumns(cols))), nil
	}
	one, err := harness.StartOne(parse)
	if err != nil {
		res.Engine = err.Error()
		return res
	}
	defer one.Stop()
	one.Step(pgproto.Startup("user", "u"))
	msg := pgproto.Query("q")
	if extended {
		msg = pgproto.Cat(pgproto.Parse("", "q"), pgproto.Bind("", "", nil, nil, nil), pgproto.Execute("", 0), pgproto.Sync())
	}
	out, _ := one.Step(msg)
	ms, perr := pgproto.ParseBackend(out)
	if perr != nil {
		res.Fail("reply-grammar", perr.Error())
		return res
	}
	got := 0
	for _, m := range ms {
		if m.Type != 'D' {
			continue
		}
		if len(m.Row) != ncols || (ncols > 0 && string(m.Row[0]) != fmt.Sprint(got)) || (ncols > 1 && len(m.Row[1]) != got*700) {
			res.Fail("value-mismatch", fmt.Sprintf("statement of %d columns, row %d: DataRow carries %d fields %.40q", ncols, got, len(m.Row), m.Row))
		}
		got++
	}
	if got != accepted {
		res.Fail("datarow-count", fmt.Sprintf("a statement of %d columns wrote %d rows successfully (Row returned nil) and then %s (extended protocol: %v): %d DataRows arrived (reply %q)", ncols, accepted, ending, extended, got, pgproto.Kinds(ms)))
	}
	return res
}

// c09RunRowLimit: the client's Execute names a maximum number of rows. Whatever the library does with that field,
// a row whose Row call returned nil arrives (there is no way for the handler to learn that it was dropped).
func c09RunRowLimit(rows int, limits []uint32) explore.Result {
	var res explore.Result
	res.Outcome = "values"
	res.Key = fmt.Sprint("row-limit", rows, limits)
	accepted := 0
	parse := func(ctx context.Context, q string) (wire.PreparedStatements, error) {
		return wire.Prepared(wire.NewStatement(func(ctx context.Context, w wire.DataWriter, p []wire.Parameter) error {
			accepted = 0
			for i := 0; i < rows; i++ {
				if err := w.Row([]any{int32(i)}); err != nil {
					return err
				}
				accepted++
			}
			return w.Complete(fmt.Sprintf("SELECT %d", rows))
		}, wire.WithColumns(wire.Columns{{Name: "n", Oid: 23}}))), nil
	}
	one, err := harness.StartOne(parse)
	if err != nil {
		res.Engine = err.Error()
		return res
	}
	defer one.Stop()
	one.Step(pgproto.Startup("user", "u"))
	for _, lim := range limits {
		out, _ := one.Step(pgproto.Cat(pgproto.Parse("", "q"), pgproto.Bind("", "", nil, nil, nil), pgproto.Execute("", lim), pgproto.Sync()))
		ms, perr := pgproto.ParseBackend(out)
		if perr != nil {
			res.Fail("reply-grammar", perr.Error())
			return res
		}
		got := 0
		for _, m := range ms {
			if m.Type == 'D' {
				if len(m.Row) != 1 || string(m.Row[0]) != fmt.Sprint(got) {
					res.Fail("value-mismatch", fmt.Sprintf("Execute with a maximum of %d rows: DataRow %d carries %v", lim, got, m))
				}
				got++
			}
		}
		if got != accepted {
			res.Fail("datarow-count", fmt.Sprintf("Execute with a maximum of %d rows: the handler wrote %d rows successfully (Row returned nil), %d DataRows arrived (reply %q)", lim, accepted, got, pgproto.Kinds(ms)))
		}
	}
	return res
}

// c09RunMulti: one simple query of several statements with different column sets. A client decodes each DataRow
// with the RowDescription received last: field count and every value must match it.
func c09RunMulti(sets [][]c09Cell) explore.Result {
	var res explore.Result
	res.Outcome = "values"
	res.Key = fmt.Sprint("multi", len(sets), func() (n []int) {
		for _, s := range sets {
			n = append(n, len(s))
		}
		return
	}())
	parse := func(ctx context.Context, q string) (wire.PreparedStatements, error) {
		var out wire.PreparedStatements
		for _, cells := range sets {
			cells := cells
			var cols wire.Columns
			row := make([]any, len(cells))
			for i, c := range cells {
				cols = append(cols, wire.Column{Name: fmt.Sprintf("c%d", i), Oid: oid.Oid(c.OID)})
				row[i] = c.V
			}
			out = append(out, wire.NewStatement(func(ctx context.Context, w wire.DataWriter, p []wire.Parameter) error {
				if err := w.Row(row); err != nil {
					return err
				}
				return w.Complete("SELECT 1")
			}, wire.WithColumns(cols)))
		}
		return out, nil
	}
	one, err := harness.StartOne(parse)
	if err != nil {
		res.Engine = err.Error()
		return res
	}
	defer one.Stop()
	one.Step(pgproto.Startup("user", "u"))
	out, _ := one.Step(pgproto.Query("several statements"))
	ms, perr := pgproto.ParseBackend(out)
	if perr != nil {
		res.Fail("reply-grammar", perr.Error())
		return res
	}
	var t *pgproto.BMsg
	stmt := -1
	for i := range ms {
		switch ms[i].Type {
		case 'T':
			t = &ms[i]
			stmt++
		case 'D':
			d := ms[i]
			if t == nil || stmt >= len(sets) {
				res.Fail("datarow-without-description", fmt.Sprintf("reply %q: a DataRow arrives with no RowDescription in effect", pgproto.Kinds(ms)))
				return res
			}
			if len(d.Row) != len(t.Cols) {
				res.Fail("datarow-arity", fmt.Sprintf("reply %q: a DataRow carries %d fields, the RowDescription in effect announced %d", pgproto.Kinds(ms), len(d.Row), len(t.Cols)))
				return res
			}
			for j, f := range d.Row {
				got, derr := pgproto.DecodeValue(t.Cols[j].OID, t.Cols[j].Format, f)
				if derr != nil || got != sets[stmt][j].Canon {
					res.Fail("value-mismatch", fmt.Sprintf("reply %q: statement %d column %d: field % x decodes to %q (%v) under the RowDescription in effect, written %s", pgproto.Kinds(ms), stmt, j, f, got, derr, sets[stmt][j]))
				}
			}
			t = nil // one row per statement: the next row needs its own description
		}
	}
	if stmt != len(sets)-1 {
		res.Fail("datarow-count", fmt.Sprintf("%d statements, reply %q", len(sets), pgproto.Kinds(ms)))
	}
	return res
}

// c09RunRedefine: a statement name is defined again (other columns, other values) while a portal bound to the
// earlier definition is still open. Each portal's DataRow must match the RowDescription of that very portal.
func c09RunRedefine(name string, a, b []c09Cell, fa, fb int16) explore.Result {
	var res explore.Result
	res.Outcome = "values"
	res.Key = fmt.Sprint("redefine", name, len(a), len(b), fa, fb)
	mkCols := func(cells []c09Cell) wire.Columns {
		var cols wire.Columns
		for i, c := range cells {
			cols = append(cols, wire.Column{Name: fmt.Sprintf("c%d", i), Oid: oid.Oid(c.OID)})
		}
		return cols
	}
	parse := func(ctx context.Context, q string) (wire.PreparedStatements, error) {
		cells := a
		if q == "second" {
			cells = b
		}
		return wire.Prepared(wire.NewStatement(func(ctx context.Context, w wire.DataWriter, p []wire.Parameter) error {
			row := make([]any, len(cells))
			for i, c := range cells {
				row[i] = c.V
			}
			if err := w.Row(row); err != nil {
				return err
			}
			return w.Complete("SELECT 1")
		}, wire.WithColumns(mkCols(cells)))), nil
	}
	one, err := harness.StartOne(parse)
	if err != nil {
		res.Engine = err.Error()
		return res
	}
	defer one.Stop()
	one.Step(pgproto.Startup("user", "u"))
	out, _ := one.Step(pgproto.Cat(pgproto.Parse(name, "first"), pgproto.Bind("p1", name, nil, nil, []int16{fa}), pgproto.Describe('P', "p1"),
		pgproto.Parse(name, "second"), pgproto.Bind("p2", name, nil, nil, []int16{fb}), pgproto.Describe('P', "p2"),
		pgproto.Execute("p1", 0), pgproto.Execute("p2", 0), pgproto.Execute("p1", 0), pgproto.Sync()))
	ms, perr := pgproto.ParseBackend(out)
	if perr != nil {
		res.Fail("reply-grammar", perr.Error())
		return res
	}
	k := pgproto.Kinds(ms)
	if !strings.HasPrefix(k, "12T12TDCDC") {
		res.Outcome = "redefinition-refused"
		return res // refusing the second definition (or the use of the first portal afterwards) is not a C09 matter
	}
	for i, pair := range [][2]int{{2, 6}, {5, 8}, {2, 10}} {
		if pair[1] >= len(ms) || ms[pair[1]].Type != 'D' {
			continue
		}
		t, d := ms[pair[0]], ms[pair[1]]
		portal := []string{"p1", "p2", "p1 (executed again)"}[i]
		if len(d.Row) != len(t.Cols) {
			res.Fail("datarow-arity", fmt.Sprintf("statement %q defined twice: portal %s was described with %d fields (%s) but its DataRow carries %d fields (%s)", name, portal, len(t.Cols), t, len(d.Row), d))
			continue
		}
		want := a
		if i == 1 {
			want = b
		}
		for j, f := range d.Row {
			got, derr := pgproto.DecodeValue(t.Cols[j].OID, t.Cols[j].Format, f)
			if derr != nil || (j < len(want) && got != want[j].Canon) {
				res.Fail("value-mismatch", fmt.Sprintf("statement %q defined twice: portal %s column %d announced oid %d format %d, field % x decodes to %q (%v)", name, portal, j, t.Cols[j].OID, t.Cols[j].Format, f, got, derr))
			}
		}
	}
	return res
}

func init() {
	explore.Register(&explore.Check{
		ID:          "C09",
		Level:       "exploration",
		Technique:   "exhaustive enumeration over a stated value alphabet (types x boundary values x Go source forms x NULL forms x formats x NULL placements in rows of 1-3 columns), each row written through a live session and decoded by an independent decoder in the announced format",
		Rule:        "types bool,int2,int4,int8,float4,float8,text,varchar,bytea,uuid,date,timestamp,timestamptz (time.Time values with and without a zone) (+json thorough); boundary values per type; source forms native / pgtype.X{Valid:true} / pointer; NULL forms untyped nil / typed nil pointer / invalid pgtype value; text via simple query, binary via Bind result code 1; multi-column rows over a 5-type subset with every NULL placement x every NULL form; redefined statements: a name defined twice (1-3 columns each, both formats) while a portal of the first definition is open, every DataRow against the RowDescription of its own portal; non-trivial = row accepted by the writer",
		Assumptions: []string{"small-scope claim: exhaustive for the listed alphabet only", "a source form that pgx cannot encode (Row returns an error) is outside the claim; it must emit nothing"},
		Enumerate:   c09Enumerate,
		Bounds: func(tier string) map[string]any {
			v, n := c09Values(tier)
			return map[string]any{"values": len(v), "null_groups": len(n), "max_columns": 3}
		},
		RequiredOutcomes: []string{"values", "with-null", "after-rejected-row"},
	})
}

func c09Enumerate(tier string, emit explore.Emit) {
	vals, nulls := c09Values(tier)
	add := func(cells []c09Cell, binary bool, size int) {
		cells = append([]c09Cell(nil), cells...)
		emit(explore.Case{Family: fmt.Sprintf("%d-column", len(cells)), Size: size,
			Desc: func() any {
				var s []string
				for _, c := range cells {
					s = append(s, c.String())
				}
				return map[string]any{"row": s, "binary": binary}
			},
			Run: func() explore.Result { return c09Run(cells, binary) }})
	}
	for _, bin := range []bool{false, true} {
		for _, v := range vals {
			for _, f := range v.Forms {
				add([]c09Cell{{v.Type, v.OID, f.Name, f.V, v.Canon}}, bin, 1)
			}
		}
		for _, n := range nulls {
			for _, f := range n.Forms {
				add([]c09Cell{{n.Type, n.OID, f.Name, f.V, "NULL"}}, bin, 1)
			}
		}
	}
	// values handed over as Go strings for non-text columns (fine for text-format clients): whatever format the
	// client asked for, the row is either refused or arrives decodable in the announced format
	for _, bin := range []bool{false, true} {
		for _, sv := range []struct {
			t     string
			oid   uint32
			v     any
			canon string
		}{{"int4", 23, "1234", "int:1234"}, {"int8", 20, "12345678", "int:12345678"}, {"int2", 21, "7", "int:7"}, {"bool", 16, "true", "bool:true"}, {"float8", 701, "1.5", "float64:3ff8000000000000"},
			{"int4", 23, []byte("1234"), "int:1234"}, {"int8", 20, pgtype.Text{String: "99", Valid: true}, "int:99"}} {
			add([]c09Cell{{sv.t, sv.oid, fmt.Sprintf("%T holding text", sv.v), sv.v, sv.canon}}, bin, 1)
		}
	}
	// two portals bound with different result formats before either is executed
	for _, v := range vals {
		if v.Type != "int4" && v.Type != "int8" && v.Type != "bool" && v.Type != "float8" {
			continue
		}
		for _, firstBinary := range []bool{true, false} {
			cell, fb := c09Cell{v.Type, v.OID, v.Forms[0].Name, v.Forms[0].V, v.Canon}, firstBinary
			emit(explore.Case{Family: "two-portals", Size: 2,
				Desc: func() any {
					return map[string]any{"value": cell.String(), "first_portal_binary": fb, "second_portal_binary": !fb}
				},
				Run: func() explore.Result { return c09RunTwoPortals(cell, fb) }})
		}
	}
	// one portal name bound again with another result-format section (none / text / binary), executed without Describe
	for _, v := range vals {
		if v.Type != "int4" && v.Type != "int8" && v.Type != "bool" && v.Type != "float8" {
			continue
		}
		sections := [][]int16{nil, {0}, {1}}
		for _, a := range sections {
			for _, b := range sections {
				for _, named := range []bool{false, true} {
					cell, a, b, named := c09Cell{v.Type, v.OID, v.Forms[0].Name, v.Forms[0].V, v.Canon}, a, b, named
					emit(explore.Case{Family: "two-portals", Size: 3,
						Desc: func() any {
							return map[string]any{"value": cell.String(), "portal_bound_twice_result_formats": [][]int16{a, b}, "named_portal": named}
						},
						Run: func() explore.Result { return c09RunRebind(cell, a, b, named) }})
				}
			}
		}
	}
	// multi-column rows: every placement of NULLs, every NULL form
	pick := func(t, label string) c09Cell {
		for _, v := range vals {
			if v.Type == t && v.Label == label {
				return c09Cell{v.Type, v.OID, v.Forms[0].Name, v.Forms[0].V, v.Canon}
			}
		}
		panic("no value " + t + " " + label)
	}
	base := []c09Cell{pick("int4", "-1"), pick("text", `""`), pick("bool", "true"), pick("float8", "1.5"), pick("bytea", "0 bytes")}
	nullOf := func(t string, form int) (c09Cell, bool) {
		for _, n := range nulls {
			if n.Type == t && form < len(n.Forms) {
				return c09Cell{n.Type, n.OID, n.Forms[form].Name, n.Forms[form].V, "NULL"}, true
			}
		}
		return c09Cell{}, false
	}
	for _, order := range [][]string{{"plain"}, {"modifier", "plain"}, {"plain", "modifier", "plain"}, {"modifier", "modifier", "plain", "plain"}, {"plain", "plain", "modifier", "plain", "modifier", "plain"}} {
		order := order
		emit(explore.Case{Family: "earlier-connection-type-map", Size: 3, Desc: func() any { return map[string]any{"connections_one_after_the_other": order} },
			Run: func() explore.Result { return c09RunEarlierMaps(order) }})
	}
	for _, typmod := range []int32{0, -1, 8, 12, 20} {
		for _, rf := range [][]int16{nil, {0}, {1}, {1, 0}, {1, 1}, {0, 1}, {1, 0, 1}, {1, 1, 1}, {1, 0, 1, 0}, {1, 1, 1, 1}, {1, 1, 1, 1, 1}} {
			typmod, rf := typmod, rf
			emit(explore.Case{Family: "row-limit", Size: 5, Desc: func() any {
				return map[string]any{"columns": 4, "result_format_codes": rf, "type_modifier_of_the_varchar_column": typmod}
			},
				Run: func() explore.Result { return c09RunFormats(rf, typmod) }})
		}
	}
	for _, ncols := range []int{0, 1, 2} {
		for _, rows := range []int{1, 3, 14} {
			for _, ending := range []string{"completes", "returns an error", "returns nil without completing"} {
				for _, ext := range []bool{false, true} {
					ncols, rows, ending, ext := ncols, rows, ending, ext
					emit(explore.Case{Family: "row-limit", Size: 4, Desc: func() any {
						return map[string]any{"columns": ncols, "rows_written": rows, "then_the_statement": ending, "extended_protocol": ext}
					},
						Run: func() explore.Result { return c09RunThenEnds(ncols, rows, ending, ext) }})
				}
			}
		}
	}
	for _, rows := range []int{1, 5} {
		for _, limits := range [][]uint32{{0}, {1}, {2}, {5}, {6}, {0, 2, 1, 0}, {1 << 31}} {
			rows, limits := rows, limits
			emit(explore.Case{Family: "row-limit", Size: 3, Desc: func() any { return map[string]any{"rows_written": rows, "execute_max_rows": limits} },
				Run: func() explore.Result { return c09RunRowLimit(rows, limits) }})
		}
	}
	// multi-statement simple queries over different column sets
	for _, shape := range [][]int{{1, 2}, {2, 1}, {1, 3, 2}, {3, 3}, {2, 1, 1}} {
		var sets [][]c09Cell
		off := 0
		for _, n := range shape {
			var set []c09Cell
			for i := 0; i < n; i++ {
				set = append(set, base[(off+i)%len(base)])
			}
			off += n
			sets = append(sets, set)
		}
		shape := shape
		emit(explore.Case{Family: "multi-statement", Size: 4,
			Desc: func() any { return map[string]any{"columns_per_statement": shape} },
			Run:  func() explore.Result { return c09RunMulti(sets) }})
	}
	// a statement name defined twice while a portal of the first definition is open
	for _, name := range []string{"", "s"} {
		for la := 1; la <= 3; la++ {
			for lb := 1; lb <= 3; lb++ {
				for _, fa := range []int16{0, 1} {
					for _, fb := range []int16{0, 1} {
						name, fa, fb := name, fa, fb
						a, b := append([]c09Cell(nil), base[:la]...), append([]c09Cell(nil), base[5-lb:]...)
						emit(explore.Case{Family: "redefined-statement", Size: la + lb,
							Desc: func() any {
								return map[string]any{"statement": name, "first_definition_columns": la, "second_definition_columns": lb, "formats": []int16{fa, fb}}
							},
							Run: func() explore.Result { return c09RunRedefine(name, a, b, fa, fb) }})
					}
				}
			}
		}
	}
	for width := 1; width <= 3; width++ {
		forShapes(len(base), width, func(sh []int) {
			if len(sh) != width {
				return
			}
			{
				cells := make([]c09Cell, width)
				for i, s := range sh {
					cells[i] = base[s]
				}
				for _, bin := range []bool{false, true} {
					cells, bin := append([]c09Cell(nil), cells...), bin
					emit(explore.Case{Family: "after-rejected-row", Size: width,
						Desc: func() any {
							var s []string
							for _, c := range cells {
								s = append(s, c.String())
							}
							return map[string]any{"rejected_row_then": s, "binary": bin}
						},
						Run: func() explore.Result { return c09RunAfterRejected(cells, bin) }})
				}
			}
			if width == 1 {
				return
			}
			for mask := 0; mask < 1<<width; mask++ {
				for form := 0; form < 3; form++ {
					if mask == 0 && form > 0 {
						continue
					}
					cells := make([]c09Cell, width)
					ok := true
					for i, s := range sh {
						cells[i] = base[s]
						if mask>>i&1 == 1 {
							var has bool
							cells[i], has = nullOf(base[s].Type, form)
							ok = ok && has
						}
					}
					if !ok {
						continue
					}
					for _, bin := range []bool{false, true} {
						if tier != "thorough" && width == 3 && bin && form == 0 {
							continue
						}
						add(cells, bin, width)
					}
				}
			}
		})
	}
}
