package props

import (
	"fmt"
	"sort"
	"strings"

	"verif/engine/pgproto"
	"verif/engine/script"
)

// Reference model of the extended query protocol (C06), set-valued: every
// point the statement leaves open is a fork, and the oracle tracks the set of
// model states consistent with the observations so far.

// statement programs used by the extended alphabet
const (
	progRows   = "1:r,c=SELECT 1" // one column, one row
	progRowErr = "1:u,!boom"      // a row that cannot be encoded (nothing is emitted for it), then the statement fails
	progNoCols = "0:c=OK"         // no columns
	progFail   = "1:r,!fail"      // fails after one row
	progTwo    = "1:r|1:r"        // two statements: not preparable
	progEOF    = "1:r,!EOF"       // fails after one row with an error wrapping io.EOF
	progUEOF   = "0:!UEOF"        // fails immediately with an error wrapping io.ErrUnexpectedEOF
	progWarn   = "1:r,!WARNING"   // fails after one row with an error decorated with severity WARNING
	progNotice = "0:!NOTICE"      // fails immediately with an error decorated with severity NOTICE
	progJoin   = "1:r,!JOIN"      // fails after one row with several errors joined into one
)

type xletter struct {
	Name  string
	Kind  string // parse bind descS descP descBad exec closeS closeP flush sync query oversized unknown
	A, B  string
	Bytes []byte
}

func xl(name, kind, a, b string, bytes []byte) xletter {
	return xletter{Name: name, Kind: kind, A: a, B: b, Bytes: bytes}
}

// oversizedMsg builds a message whose body exceeds the harness default limit.
func oversizedMsg() []byte {
	return pgproto.Msg('Q', make([]byte, 1<<13+1))
}

func c06Alphabet() (full []xletter, core []xletter, errcore []xletter) {
	P := func(name, prog, label string) xletter {
		return xl(fmt.Sprintf("Parse(%q,%s)", name, label), "parse", name, prog, pgproto.Parse(name, prog))
	}
	B := func(p, s string) xletter {
		return xl(fmt.Sprintf("Bind(%q<-%q)", p, s), "bind", p, s, pgproto.Bind(p, s, nil, nil, nil))
	}
	DS := func(n string) xletter {
		return xl(fmt.Sprintf("Describe(S %q)", n), "descS", n, "", pgproto.Describe('S', n))
	}
	DP := func(n string) xletter {
		return xl(fmt.Sprintf("Describe(P %q)", n), "descP", n, "", pgproto.Describe('P', n))
	}
	E := func(n string) xletter { return xl(fmt.Sprintf("Execute(%q)", n), "exec", n, "", pgproto.Execute(n, 0)) }
	CS := func(n string) xletter {
		return xl(fmt.Sprintf("Close(S %q)", n), "closeS", n, "", pgproto.Close('S', n))
	}
	CP := func(n string) xletter {
		return xl(fmt.Sprintf("Close(P %q)", n), "closeP", n, "", pgproto.Close('P', n))
	}
	Q := func(prog, label string) xletter {
		return xl("Query("+label+")", "query", prog, "", pgproto.Query(prog))
	}
	sync := xl("Sync", "sync", "", "", pgproto.Sync())
	flush := xl("Flush", "flush", "", "", pgproto.Flush())
	full = []xletter{
		P("", progRows, "rows"), B("", ""), E(""), sync,
		P("s", progRows, "rows"), B("p", "s"), E("p"), DS(""), DP(""),
		P("", "#perr", "parser-error"), B("", "u"), E("u"), P("", progFail, "failing"), flush,
		P("s", progNoCols, "nocols"), P("", progTwo, "two-statements"), P("", "#zero", "zero-statements"),
		B("p", ""), B("", "s"), B("p", "u"),
		DS("s"), DS("u"), DP("p"), DP("u"), xl("Describe(bad kind)", "descBad", "", "", pgproto.Describe('X', "")),
		CS("s"), CP("p"), CS("u"),
		P("", progEOF, "fails-with-wrapped-EOF"), P("s", progUEOF, "fails-with-wrapped-UnexpectedEOF"), Q("1:!EOF", "error wrapping EOF"),
		Q(progRows, "ok"), Q("1:!boom", "error"), Q(" ", "blank"),
		xl("Oversized", "oversized", "", "", oversizedMsg()), xl("UnknownType", "unknown", "", "", pgproto.Msg('z', nil)),
		P("", progRowErr, "row-cannot-be-encoded-then-error"),
		xl("Parse(\"\",rows, pre-declaring two parameter types)", "parse", "", progRows, pgproto.Parse("", progRows, 23, 25)),
		xl("Parse(\"s\",rows, pre-declaring 300 parameter types)", "parse", "s", progRows, pgproto.Parse("s", progRows, make([]uint32, 300)...)),
		P("", progWarn, "fails-with-severity-WARNING"), P("s", progNotice, "fails-with-severity-NOTICE"), P("", progJoin, "fails-with-joined-errors"),
	}
	xCloseCore = []xletter{P("", progRows, "rows"), B("", ""), CS(""), CP(""), E(""), DS(""), sync,
		P("s", progRows, "rows"), B("p", "s"), CS("s"), CP("p"), E("p"), DP("p"),
		// more than an allocation granule (4 KiB) of traffic: names defined before it must still resolve afterwards
		P("", progRowsPadded, "rows+4100 blanks")}
	core = full[:16]
	errcore = []xletter{full[0], full[9], full[1], full[10], full[2], full[12], full[13], full[3]}
	// errcore: Parse ok, Parse #perr, Bind ok, Bind u, Execute ok, Parse failing(unnamed), Flush, Sync
	return
}

// xCloseCore: names that are closed and then used again (filled by c06Alphabet).
var xCloseCore []xletter

var progRowsPadded = progRows + strings.Repeat(" ", 4100)

func xletterByName(ls []xletter, name string) xletter {
	for _, l := range ls {
		if l.Name == name {
			return l
		}
	}
	panic("no letter " + name)
}

type xstate struct {
	stmt   [2]string // index 0: "", 1: "s"  -> program ("" = absent)
	portal [2]string // index 0: "", 1: "p"  -> program of the bound statement
	skip   bool
}

func (s xstate) key() string {
	return fmt.Sprintf("S[%s,%s] P[%s,%s] skip=%v", progLabel(s.stmt[0]), progLabel(s.stmt[1]), progLabel(s.portal[0]), progLabel(s.portal[1]), s.skip)
}

func progLabel(p string) string {
	switch p {
	case "":
		return "-"
	case progRowsPadded:
		return "rows+pad"
	case progRows:
		return "rows"
	case progNoCols:
		return "nocols"
	case progFail:
		return "fail"
	case progEOF:
		return "eof"
	case progUEOF:
		return "ueof"
	}
	return p
}

func sIdx(n string) int {
	switch n {
	case "":
		return 0
	case "s":
		return 1
	}
	return -1
}
func pIdx(n string) int {
	switch n {
	case "":
		return 0
	case "p":
		return 1
	}
	return -1
}

// xbranch is one allowed behaviour: reply kinds, callbacks, successor state.
type xbranch struct {
	reply string   // exact kinds string, e.g. "tT"
	cbs   []string // expected callbacks
	next  xstate
	label string // non-empty for tolerated/unspecified forks
}

func progCols(p string) int {
	st, _, _ := script.ParseQuery(p)
	if len(st) == 0 {
		return 0
	}
	return st[0].NCols
}

// simpleReply gives the reply kinds and callbacks of a simple Query cycle.
func simpleReply(prog string) (string, []string) {
	if strings.TrimSpace(prog) == "" {
		return "IZ", nil
	}
	switch prog {
	case progRows:
		return "TDCZ", []string{"parse:" + prog, "stmt:" + prog}
	case "1:!boom", "1:!EOF":
		return "TEZ", []string{"parse:" + prog, "stmt:" + prog}
	}
	panic("simpleReply: unknown program " + prog)
}

// step returns every behaviour the statement allows for letter l in state s.
func (s xstate) step(l xletter) []xbranch {
	errSkip := func(cbs ...string) xbranch {
		n := s
		n.skip = true
		return xbranch{reply: "E", cbs: cbs, next: n}
	}
	if s.skip {
		switch l.Kind {
		case "sync":
			n := s
			n.skip = false
			out := []xbranch{{reply: "Z", next: n}}
			// portals may or may not survive the end of the cycle (not asserted)
			return forkPortalsDropped(out)
		case "query":
			// "messages up to the next Sync are discarded without invoking callbacks": a simple Query is such a message
			return []xbranch{{reply: "", next: s}}
		case "oversized", "unknown":
			n := s
			n.skip = false
			return []xbranch{{reply: "", next: s}, {reply: "E", next: s, label: "error-while-skipping"}, {reply: "EZ", next: s, label: "error-while-skipping"}, {reply: "EZ", next: n, label: "error-while-skipping"}}
		default:
			return []xbranch{{reply: "", next: s}} // discarded, no callback
		}
	}
	switch l.Kind {
	case "parse":
		switch l.B {
		case "#perr", "#zero", progTwo:
			return []xbranch{errSkip("parse:" + l.B)}
		}
		n := s
		n.stmt[sIdx(l.A)] = l.B
		return []xbranch{{reply: "1", cbs: []string{"parse:" + l.B}, next: n}}
	case "bind":
		si := sIdx(l.B)
		if si < 0 || s.stmt[si] == "" {
			return []xbranch{errSkip()}
		}
		n := s
		n.portal[pIdx(l.A)] = s.stmt[si]
		return []xbranch{{reply: "2", next: n}}
	case "descS":
		si := sIdx(l.A)
		if si < 0 || s.stmt[si] == "" {
			return []xbranch{errSkip()}
		}
		if progCols(s.stmt[si]) > 0 {
			return []xbranch{{reply: "tT", next: s}}
		}
		return []xbranch{{reply: "tn", next: s}}
	case "descP":
		pi := pIdx(l.A)
		if pi < 0 || s.portal[pi] == "" {
			return []xbranch{errSkip()}
		}
		if progCols(s.portal[pi]) > 0 {
			return []xbranch{{reply: "T", next: s}}
		}
		return []xbranch{{reply: "n", next: s}}
	case "descBad":
		return []xbranch{errSkip()}
	case "exec":
		pi := pIdx(l.A)
		if pi < 0 || s.portal[pi] == "" {
			return []xbranch{errSkip()}
		}
		prog := s.portal[pi]
		switch prog {
		case progRows, progRowsPadded:
			return []xbranch{{reply: "DC", cbs: []string{"stmt:" + strings.TrimSpace(prog)}, next: s}}
		case progNoCols:
			return []xbranch{{reply: "C", cbs: []string{"stmt:" + prog}, next: s}}
		case progFail, progEOF, progWarn, progJoin:
			n := s
			n.skip = true
			return []xbranch{{reply: "DE", cbs: []string{"stmt:" + prog}, next: n}}
		case progUEOF, progRowErr, progNotice:
			n := s
			n.skip = true
			return []xbranch{{reply: "E", cbs: []string{"stmt:" + prog}, next: n}}
		}
	case "closeS":
		// after Close the name is unknown again ("referring to an unknown statement or portal is an error");
		// the fate of portals already bound to the closed statement is not asserted (both admitted)
		n := s
		closed := ""
		if si := sIdx(l.A); si >= 0 {
			closed = s.stmt[si]
			n.stmt[si] = ""
		}
		out := []xbranch{{reply: "3", next: n}}
		if closed != "" {
			for mask := 1; mask < 4; mask++ {
				m := n
				changed := false
				for pi := 0; pi < 2; pi++ {
					if mask&(1<<pi) != 0 && m.portal[pi] == closed {
						m.portal[pi] = ""
						changed = true
					}
				}
				if changed {
					out = append(out, xbranch{reply: "3", next: m, label: "portal-of-closed-statement-dropped"})
				}
			}
		}
		return out
	case "closeP":
		n := s
		if pi := pIdx(l.A); pi >= 0 {
			n.portal[pi] = ""
		}
		return []xbranch{{reply: "3", next: n}}
	case "flush":
		return []xbranch{{reply: "", next: s}}
	case "sync":
		return forkPortalsDropped([]xbranch{{reply: "Z", next: s}})
	case "query":
		r, cbs := simpleReply(l.A)
		out := []xbranch{{reply: r, cbs: cbs, next: s}}
		// a simple query may or may not destroy the unnamed statement / portals (not asserted)
		n := s
		n.stmt[0] = ""
		n.portal[0] = ""
		out = append(out, xbranch{reply: r, cbs: cbs, next: n, label: "unnamed-dropped-by-query"})
		return forkPortalsDropped(out)
	case "oversized", "unknown":
		// C10 owns the oversized reply; the reaction to an unknown type is not specified: error, optionally Z, skipping or not
		n := s
		n.skip = true
		return []xbranch{{reply: "E", next: n, label: "unspecified-error"}, {reply: "EZ", next: s, label: "unspecified-error"}, {reply: "E", next: s, label: "unspecified-error"}, {reply: "EZ", next: n, label: "unspecified-error"}}
	}
	panic("step: unhandled letter " + l.Name)
}

func forkPortalsDropped(in []xbranch) []xbranch {
	out := in
	for _, b := range in {
		if b.next.portal[0] != "" || b.next.portal[1] != "" {
			n := b.next
			n.portal = [2]string{}
			out = append(out, xbranch{reply: b.reply, cbs: b.cbs, next: n, label: "portals-dropped-at-cycle-end"})
		}
	}
	return out
}

// cbSummary extracts the callback summary of a slice of events.
func cbSummary(evs []script.Ev) []string {
	var out []string
	for _, e := range evs {
		switch e.Kind {
		case "parse":
			out = append(out, "parse:"+e.Query)
		case "stmt":
			out = append(out, "stmt:"+e.Query)
		}
	}
	return out
}

func sameStrings(a, b []string) bool {
	if len(a) != len(b) {
		return false
	}
	for i := range a {
		if a[i] != b[i] {
			return false
		}
	}
	return true
}

// xset is the powerset state.
type xset map[xstate]bool

func (x xset) keys() []string {
	var ks []string
	for s := range x {
		ks = append(ks, s.key())
	}
	sort.Strings(ks)
	return ks
}

// advance filters the set by the observation; it returns the new set, the
// transitions taken and, when the set becomes empty, what was allowed.
func (x xset) advance(l xletter, reply string, cbs []string) (xset, []string, string) {
	next := xset{}
	var trans []string
	var allowed []string
	for s := range x {
		for _, b := range s.step(l) {
			if b.reply == reply && sameStrings(b.cbs, cbs) {
				next[b.next] = true
				trans = append(trans, s.key()+"|"+l.Name+"|"+b.next.key())
			} else {
				allowed = append(allowed, fmt.Sprintf("from {%s}: reply %q callbacks %v", s.key(), b.reply, b.cbs))
			}
		}
	}
	if len(next) == 0 {
		sort.Strings(allowed)
		return next, nil, strings.Join(allowed, "\n")
	}
	return next, trans, ""
}
