package props

import (
	"context"
	"errors"
	"fmt"
	"github.com/jeroenrinzema/psql-wire/codes"
	psqlerr "github.com/jeroenrinzema/psql-wire/errors"
	"net"
	"strings"

	wire "github.com/jeroenrinzema/psql-wire"
	"verif/engine/explore"
	"verif/engine/harness"
	"verif/engine/memnet"
	"verif/engine/pgproto"
	"verif/engine/script"
)

// C19 — Session lifecycle: middleware order, context propagation, terminate hook.

type c19Config struct {
	M      int    // number of middlewares
	FailAt int    // 1-based failing middleware, 0 = none
	Auth   bool   // cleartext auth
	Hook   string // absent | ok | error
	NilCtx bool   // the failing middleware returns (nil, err) instead of (ctx, err)
	// DeriveCtx: the password validator returns a context derived from the one it was given (a value attached);
	// CloseErr: the transport's Close reports an error (the connection is closed all the same)
	DeriveCtx bool
	CloseErr  bool
	// FailSeverity: the failing middleware decorates its error with this severity (WARNING, NOTICE ...)
	FailSeverity string
	Remote       string // "" = the in-memory address; otherwise the kind of net.Addr the transport reports (c19Remotes)
}

// c19Remotes: remote addresses as real listeners report them.
var c19Remotes = map[string]net.Addr{
	"tcp4":             &net.TCPAddr{IP: net.IPv4(192, 0, 2, 7).To4(), Port: 40001},
	"tcp4 in 16 bytes": &net.TCPAddr{IP: net.IPv4(192, 0, 2, 7), Port: 40002},
	"tcp6":             &net.TCPAddr{IP: net.ParseIP("2001:db8::7"), Port: 40003},
	"tcp6 loopback":    &net.TCPAddr{IP: net.ParseIP("::1"), Port: 40004},
	"tcp6 with zone":   &net.TCPAddr{IP: net.ParseIP("fe80::7"), Port: 40005, Zone: "eth0"},
	"unix":             &net.UnixAddr{Name: "/tmp/.s.PGSQL.5432", Net: "unix"},
}

func (c c19Config) String() string {
	if c.FailSeverity != "" {
		return fmt.Sprintf("middlewares=%d failing=%d (with an error of severity %s) auth=%v terminate_hook=%s", c.M, c.FailAt, c.FailSeverity, c.Auth, c.Hook)
	}
	if c.DeriveCtx || c.CloseErr {
		return fmt.Sprintf("middlewares=%d auth=%v terminate_hook=%s validator_derives_a_context=%v transport_close_reports_an_error=%v", c.M, c.Auth, c.Hook, c.DeriveCtx, c.CloseErr)
	}
	if c.Remote != "" {
		return fmt.Sprintf("middlewares=%d auth=%v terminate_hook=%s remote_address=%s (%v)", c.M, c.Auth, c.Hook, c.Remote, c19Remotes[c.Remote])
	}
	if c.NilCtx {
		return fmt.Sprintf("middlewares=%d failing=%d (returning a nil context with its error) auth=%v terminate_hook=%s", c.M, c.FailAt, c.Auth, c.Hook)
	}
	return fmt.Sprintf("middlewares=%d failing=%d auth=%v terminate_hook=%s", c.M, c.FailAt, c.Auth, c.Hook)
}

type c19Letter struct {
	Name  string
	Bytes []byte
	Reply string
	CBs   []string
}

func c19Letters() []c19Letter {
	return []c19Letter{
		{"Query(ok)", pgproto.Query(progRows), "TDCZ", []string{"parse", "stmt"}},
		{"Query(err)", pgproto.Query("1:!boom"), "TEZ", []string{"parse", "stmt"}},
		{"Query(3 statements)", pgproto.Query("1:r,c=A|1:r,c=B|0:c=C"), "TDCTDCCZ", []string{"parse", "stmt", "stmt", "stmt"}},
		{"Parse+Bind+Execute+Sync", pgproto.Cat(pgproto.Parse("", progRows), pgproto.Bind("", "", nil, nil, nil), pgproto.Execute("", 0), pgproto.Sync()), "12DCZ", []string{"parse", "stmt"}},
		{"Parse+Bind+Execute+Execute+Sync", pgproto.Cat(pgproto.Parse("s", progRows), pgproto.Bind("p", "s", nil, nil, nil), pgproto.Execute("p", 0), pgproto.Execute("p", 0), pgproto.Sync()), "12DCDCZ", []string{"parse", "stmt", "stmt"}},
		{"Bind(unknown statement), no Sync", pgproto.Bind("", "nope", nil, nil, nil), "E", nil},
		{"Terminate", pgproto.Terminate(), "", nil},
		{"EOF", nil, "", nil},
	}
}

type mwKey int

type authKey struct{}

type c19State struct {
	cfg       c19Config
	conn      *memnet.Conn
	mwCalls   []string // "mw<i>" in call order
	problems  []string
	hookCalls int
	ctxs      []context.Context
	cbs       []string
	cur       string            // the letter being delivered (message-by-message mode)
	batchStmt []context.Context // contexts of the statement calls of that letter
}

// c19Params is what every C19 client sends at start-up: names in mixed case, two names that differ only in case
var c19Params = []string{"user", "alice", "DateStyle", "ISO, MDY", "TimeZone", "Europe/Amsterdam", "extra_float_digits", "2", "Extra_Float_Digits", "3"}

func c19Startup() []byte { return pgproto.Startup(c19Params...) }

func (s *c19State) checkCtx(ctx context.Context, where string) {
	if cp := wire.ClientParameters(ctx); cp != nil {
		for i := 0; i+1 < len(c19Params); i += 2 {
			if v, ok := cp[wire.ParameterStatus(c19Params[i])]; !ok || v != c19Params[i+1] {
				s.problems = append(s.problems, fmt.Sprintf("%s: the client sent %s=%q, ClientParameters = %v", where, c19Params[i], c19Params[i+1], cp))
				break
			}
		}
		if len(cp) != len(c19Params)/2 {
			s.problems = append(s.problems, fmt.Sprintf("%s: the client sent %d parameters, ClientParameters = %v", where, len(c19Params)/2, cp))
		}
	}
	for i := 1; i <= s.cfg.M; i++ {
		if v, _ := ctx.Value(mwKey(i)).(string); v != fmt.Sprintf("set-by-mw%d", i) {
			s.problems = append(s.problems, fmt.Sprintf("%s: context lacks the value added by middleware %d", where, i))
		}
	}
	if s.cfg.DeriveCtx && s.cfg.Auth {
		if v, _ := ctx.Value(authKey{}).(string); v != "attached by the validator for alice" {
			s.problems = append(s.problems, fmt.Sprintf("%s: the value the password validator attached to its context is %q here", where, v))
		}
	}
	if cp := wire.ClientParameters(ctx); cp == nil || cp["user"] != "alice" {
		s.problems = append(s.problems, fmt.Sprintf("%s: ClientParameters = %v", where, cp))
	}
	if sp := wire.ServerParameters(ctx); sp == nil || sp["session_authorization"] != "alice" {
		s.problems = append(s.problems, fmt.Sprintf("%s: ServerParameters = %v", where, sp))
	}
	if ra, want := wire.RemoteAddress(ctx), s.conn.RemoteAddr(); ra == nil || ra.String() != want.String() || ra.Network() != want.Network() {
		s.problems = append(s.problems, fmt.Sprintf("%s: RemoteAddress = %v, the transport reports %v", where, ra, want))
	}
	if wire.TypeMap(ctx) == nil {
		s.problems = append(s.problems, where+": TypeMap is nil")
	}
	if ctx.Err() != nil {
		s.problems = append(s.problems, where+": the command context is already cancelled while the callback runs")
	}
	s.ctxs = append(s.ctxs, ctx)
}

// c19RunCancelMeanwhile: while a statement function of connection A is running, other connections from the same host
// send CancelRequest packets (the library hands out no backend key: a cancel request refers to nothing). A's
// command context is not cancelled before its command ends.
func c19RunCancelMeanwhile(n int, auth bool) explore.Result {
	var res explore.Result
	res.Outcome = "served"
	res.Key = fmt.Sprint("cancel-meanwhile", n, auth)
	var srv *harness.Server
	var during, after []error
	var ctxs []context.Context
	parse := func(ctx context.Context, q string) (wire.PreparedStatements, error) {
		return wire.Prepared(wire.NewStatement(func(ctx context.Context, w wire.DataWriter, p []wire.Parameter) error {
			w.Row([]any{"before"})
			for i := 0; i < n; i++ {
				// (raw transport: the harness's own quiescence wait would wait for THIS goroutine)
				mc := memnet.NewConn(fmt.Sprintf("mem:cancel%d", i))
				mc.Push(pgproto.CancelRequest(uint32(i), 7))
				mc.EOF()
				srv.ConnectWith(mc)
				mc.AwaitClose()
			}
			during = append(during, ctx.Err())
			ctxs = append(ctxs, ctx)
			w.Row([]any{"after"})
			return w.Complete("SELECT 2")
		}, wire.WithColumns(wire.Columns{{Name: "a", Oid: 25}}))), nil
	}
	var opts []wire.OptionFn
	if auth {
		opts = append(opts, wire.SessionAuthStrategy(wire.ClearTextPassword(func(ctx context.Context, db, u, pw string) (context.Context, bool, error) { return ctx, true, nil })))
	}
	var err error
	srv, err = harness.NewServer(parse, opts...)
	if err != nil {
		res.Engine = err.Error()
		return res
	}
	defer srv.Stop()
	a := srv.Connect()
	a.Step(c19Startup())
	if auth {
		a.Step(pgproto.Password("pw"))
	}
	out, _ := a.Step(pgproto.Query("q"))
	out2, _ := a.Step(pgproto.Cat(pgproto.Parse("", "q"), pgproto.Bind("", "", nil, nil, nil), pgproto.Execute("", 0), pgproto.Sync()))
	for _, c := range ctxs {
		after = append(after, c.Err())
	}
	for i := range during {
		if during[i] != nil {
			res.Fail("context-propagation", fmt.Sprintf("%d CancelRequest packets arrived from the same host while statement %d of another connection was running: its command context reads %v inside the running statement", n, i+1, during[i]))
		}
		if after[i] == nil {
			res.Fail("context-not-cancelled", fmt.Sprintf("the context of command %d is still live after the command has ended", i+1))
		}
	}
	if k := harness.Kinds(out) + " " + harness.Kinds(out2); k != "TDDCZ 12DDCZ" || len(during) != 2 {
		res.Fail("reply", fmt.Sprintf("a statement during which %d CancelRequest connections came and went: replies %q (statement ran %d times)", n, k, len(during)))
	}
	return res
}

// c19Build: parser, statement hook, middlewares, auth and terminate hook of a configuration, all probing st.
func c19Build(cfg c19Config, st *c19State, rec *script.Rec) (wire.ParseFn, []wire.OptionFn) {
	rec.Hook = func(ctx context.Context, where string) {
		if where == "stmt" {
			st.cbs = append(st.cbs, "stmt")
			st.checkCtx(ctx, "statement function")
			if strings.HasPrefix(st.cur, "Parse+Bind+Execute+Execute") {
				// two Execute commands in one batch: the first command has ended when the second one runs
				for _, c := range st.batchStmt {
					if c.Err() == nil {
						st.problems = append(st.problems, "the context of an earlier Execute command of the same batch is still live while a later command runs (it is cancelled when that command ends, not at the Sync)")
					}
				}
				st.batchStmt = append(st.batchStmt, ctx)
			}
		}
	}
	inner := rec.ParseFn()
	parse := func(ctx context.Context, q string) (wire.PreparedStatements, error) {
		st.cbs = append(st.cbs, "parse")
		st.checkCtx(ctx, "parser")
		return inner(ctx, q)
	}
	var opts []wire.OptionFn
	for i := 1; i <= cfg.M; i++ {
		i := i
		opts = append(opts, wire.SessionMiddleware(func(ctx context.Context) (context.Context, error) {
			st.mwCalls = append(st.mwCalls, fmt.Sprintf("mw%d", i))
			for j := 1; j < i; j++ {
				if v, _ := ctx.Value(mwKey(j)).(string); v != fmt.Sprintf("set-by-mw%d", j) {
					st.problems = append(st.problems, fmt.Sprintf("middleware %d did not receive the context of middleware %d", i, j))
				}
			}
			// what has the client received so far?
			k := harness.Kinds(st.conn.Output())
			want := "R"
			if cfg.Auth {
				want = "RR"
			}
			if !strings.HasPrefix(k, want+"S") || strings.Contains(k, "Z") || strings.Trim(k[len(want):], "S") != "" {
				st.problems = append(st.problems, fmt.Sprintf("middleware %d ran when the client had received %q (must be after authentication and the ParameterStatus block, before ReadyForQuery)", i, k))
			}
			if wire.ClientParameters(ctx) == nil || wire.ServerParameters(ctx) == nil {
				st.problems = append(st.problems, fmt.Sprintf("middleware %d: client/server parameters missing from its context", i))
			}
			if i == cfg.FailAt {
				var err error = errors.New("middleware refuses the session")
				if cfg.FailSeverity != "" {
					// an error is an error, whatever severity it was decorated with
					err = psqlerr.WithSeverity(psqlerr.WithCode(err, codes.Code("28000")), psqlerr.Severity(cfg.FailSeverity))
				}
				if cfg.NilCtx {
					return nil, err
				}
				return ctx, err
			}
			return context.WithValue(ctx, mwKey(i), fmt.Sprintf("set-by-mw%d", i)), nil
		}))
	}
	if cfg.Auth {
		opts = append(opts, wire.SessionAuthStrategy(wire.ClearTextPassword(func(ctx context.Context, db, u, pw string) (context.Context, bool, error) {
			if cfg.DeriveCtx {
				// a validator that attaches what it learned about the user to the context it hands back
				return context.WithValue(ctx, authKey{}, "attached by the validator for "+u), true, nil
			}
			return ctx, true, nil
		})))
	}
	if cfg.Hook != "absent" {
		opts = append(opts, wire.TerminateConn(func(ctx context.Context) error {
			st.hookCalls++
			if cfg.Hook == "error" {
				return errors.New("terminate hook failed")
			}
			return nil
		}))
	}
	return parse, opts
}

// c19RunFault: the transport starts to fail at the k-th write after the start-up; whatever was running then,
// once the connection has been given up every command context handed to a callback is cancelled, the terminate
// hook ran at most once and the connection is closed.
func c19RunFault(cfg c19Config, hist []c19Letter, k int) explore.Result {
	var res explore.Result
	res.Outcome = "transport-fault"
	res.Key = fmt.Sprint("fault", cfg.String(), c19Names(hist), k)
	st := &c19State{cfg: cfg}
	rec := &script.Rec{}
	parse, opts := c19Build(cfg, st, rec)
	srv, err := harness.NewServer(parse, opts...)
	if err != nil {
		res.Engine = err.Error()
		return res
	}
	mc := memnet.NewConn("mem:client1")
	mc.RemoteOverride = c19Remotes[cfg.Remote]
	if cfg.CloseErr {
		mc.CloseErr = errors.New("close: the peer has gone, the closing alert could not be delivered")
	}
	st.conn = mc
	rec.Conn = mc
	one := &harness.One{Server: srv, Conn: srv.ConnectWith(mc)}
	defer one.Stop()
	out, status := one.Step(c19Startup())
	if !strings.HasSuffix(harness.Kinds(out), "Z") || status != memnet.Parked {
		res.Engine = "startup failed: " + harness.Kinds(out)
		return res
	}
	_, writes, _, _, _, _ := one.C.Snapshot()
	one.C.SetFaults(memnet.Faults{WriteErrAt: writes + k})
	var seg []byte
	for _, l := range hist {
		seg = append(seg, l.Bytes...)
	}
	one.Step(seg)
	_, stt := one.End()
	what := fmt.Sprintf("%s, history %v, write %d after the start-up fails (and every later one)", cfg, c19Names(hist), k)
	if stt != memnet.Closed {
		res.Fail("not-closed", fmt.Sprintf("%s: connection is %s after the input ended", what, stt))
		return res
	}
	for _, c := range st.ctxs {
		if c.Err() == nil {
			res.Fail("context-not-cancelled", what+": a command context handed to a callback is still live after the connection has ended")
			break
		}
	}
	if st.hookCalls > 1 {
		res.Fail("terminate-hook", fmt.Sprintf("%s: terminate hook invoked %d times", what, st.hookCalls))
	}
	res.Trans = []string{fmt.Sprintf("ready|write fault %d|closed", k)}
	return res
}

func c19Run(cfg c19Config, hist []c19Letter, oneSegment bool) explore.Result {
	var res explore.Result
	st := &c19State{cfg: cfg}
	rec := &script.Rec{}
	parse, opts := c19Build(cfg, st, rec)
	srv, err := harness.NewServer(parse, opts...)
	if err != nil {
		res.Engine = err.Error()
		return res
	}
	mc := memnet.NewConn("mem:client1")
	mc.RemoteOverride = c19Remotes[cfg.Remote]
	if cfg.CloseErr {
		mc.CloseErr = errors.New("close: the peer has gone, the closing alert could not be delivered")
	}
	st.conn = mc
	rec.Conn = mc
	one := &harness.One{Server: srv, Conn: srv.ConnectWith(mc)}
	defer one.Stop()
	out, status := one.Step(c19Startup())
	if cfg.Auth {
		var o2 []byte
		o2, status = one.Step(pgproto.Password("pw"))
		out = append(out, o2...)
	}
	startKinds := harness.Kinds(out)
	// middleware order / once
	wantMW := []string{}
	lim := cfg.M
	if cfg.FailAt > 0 {
		lim = cfg.FailAt
	}
	for i := 1; i <= lim; i++ {
		wantMW = append(wantMW, fmt.Sprintf("mw%d", i))
	}
	alive := cfg.FailAt == 0
	if alive {
		if !strings.HasSuffix(startKinds, "Z") || strings.Count(startKinds, "Z") != 1 || status != memnet.Parked {
			res.Fail("startup", fmt.Sprintf("startup reply %q, connection %s", startKinds, status))
			return res
		}
	} else {
		if strings.Contains(startKinds, "Z") {
			res.Fail("ready-after-middleware-error", fmt.Sprintf("a middleware failed but the client received %q", startKinds))
		}
		if status != memnet.Closed {
			res.Fail("connection-open-after-middleware-error", fmt.Sprintf("a middleware failed but the connection is %s", status))
		}
	}
	terminated := false
	hookWant := 0
	deliver := func(l c19Letter) ([]byte, memnet.Status) {
		st.cur, st.batchStmt = l.Name, nil
		if l.Name == "EOF" {
			return one.End()
		}
		return one.Step(l.Bytes)
	}
	if oneSegment {
		var seg []byte
		eof := false
		for _, l := range hist {
			if l.Name == "EOF" {
				eof = true
				break
			}
			seg = append(seg, l.Bytes...)
		}
		var wantReply string
		var wantCBs []string
		skipping := false
		for _, l := range hist {
			if !alive || terminated || l.Name == "EOF" {
				break
			}
			if l.Name == "Terminate" {
				terminated = true
				if cfg.Hook != "absent" {
					hookWant = 1
				}
				break
			}
			r, cb := c19Expect(l, &skipping)
			wantReply += r
			wantCBs = append(wantCBs, cb...)
		}
		n := len(st.cbs)
		one.C.Push(seg)
		if eof {
			one.C.EOF()
		}
		stt := one.C.Await()
		if stt == memnet.Closed {
			harness.Settle()
		}
		got := one.C.Take()
		if k := harness.Kinds(got); k != wantReply {
			res.Fail("pipelined-reply", fmt.Sprintf("history %v in one segment answered %q, expected %q", c19Names(hist), k, wantReply))
		}
		if !sameStrings(st.cbs[n:], wantCBs) {
			res.Fail("pipelined-callbacks", fmt.Sprintf("callbacks %v, expected %v", st.cbs[n:], wantCBs))
		}
		if (terminated || eof || !alive) && stt != memnet.Closed {
			res.Fail("not-closed", fmt.Sprintf("connection is %s after Terminate/EOF/middleware failure", stt))
		}
	} else {
		skipping := false
		for i, l := range hist {
			n := len(st.cbs)
			got, stt := deliver(l)
			wantReply, wantCBs := "", []string(nil)
			if !alive || terminated {
				wantReply, wantCBs = "", nil
			} else if l.Name != "Terminate" && l.Name != "EOF" {
				wantReply, wantCBs = c19Expect(l, &skipping)
			}
			if !alive || terminated {
			} else if l.Name == "Terminate" {
				terminated = true
				if cfg.Hook != "absent" {
					hookWant = 1
				}
			}
			if k := harness.Kinds(got); k != wantReply {
				res.Fail("reply", fmt.Sprintf("step %d %s answered %q, expected %q (alive=%v terminated=%v)", i, l.Name, k, wantReply, alive, terminated))
			}
			if !sameStrings(st.cbs[n:], wantCBs) && len(st.cbs[n:])+len(wantCBs) > 0 {
				res.Fail("callbacks", fmt.Sprintf("step %d %s: callbacks %v, expected %v", i, l.Name, st.cbs[n:], wantCBs))
			}
			if (terminated || l.Name == "EOF" || !alive) && stt != memnet.Closed {
				res.Fail("not-closed", fmt.Sprintf("step %d %s: connection is %s", i, l.Name, stt))
			}
			// per-command contexts are cancelled once the command ended
			for _, c := range st.ctxs {
				if c.Err() == nil {
					res.Fail("context-not-cancelled", fmt.Sprintf("step %d %s: a command context handed to a callback is still live after the command's reply was completed", i, l.Name))
					break
				}
			}
			if l.Name == "EOF" {
				break
			}
		}
	}
	for _, c := range st.ctxs {
		if c.Err() == nil {
			res.Fail("context-not-cancelled", "a command context is still live at the end of the connection")
			break
		}
	}
	if !sameStrings(st.mwCalls, wantMW) {
		res.Fail("middleware-order", fmt.Sprintf("middleware invocations %v, expected %v", st.mwCalls, wantMW))
	}
	if st.hookCalls != hookWant {
		res.Fail("terminate-hook", fmt.Sprintf("terminate hook invoked %d times, expected %d", st.hookCalls, hookWant))
	}
	for _, p := range st.problems {
		res.Fail("context-propagation", p)
		break
	}
	switch {
	case !alive:
		res.Outcome = "middleware-failed"
	case terminated:
		res.Outcome = "terminated"
	default:
		res.Outcome = "served"
	}
	res.Key = cfg.String() + fmt.Sprint(c19Names(hist), oneSegment)
	state := "ready"
	if !alive {
		state = "closed"
	}
	res.Trans = append(res.Trans, fmt.Sprintf("handshake|middlewares(%d,fail=%d)|%s", cfg.M, cfg.FailAt, state))
	for _, l := range hist {
		next := state
		if state == "ready" && (l.Name == "Terminate" || l.Name == "EOF") {
			next = "closed"
		}
		res.Trans = append(res.Trans, state+"|"+l.Name+"|"+next)
		state = next
	}
	return res
}

// c19Expect: reply and callbacks of a letter, taking the discard-until-Sync state after a failed
// extended message into account (a Terminate is always honoured, see the caller).
func c19Expect(l c19Letter, skipping *bool) (string, []string) {
	switch {
	case strings.HasPrefix(l.Name, "Bind(unknown"):
		if *skipping {
			return "", nil
		}
		*skipping = true
		return "E", nil
	case strings.HasPrefix(l.Name, "Parse+Bind+Execute"):
		if *skipping {
			*skipping = false
			return "Z", nil // only the Sync is answered
		}
		return l.Reply, l.CBs
	default: // simple queries
		if *skipping {
			return "", nil
		}
		return l.Reply, l.CBs
	}
}

func c19Names(h []c19Letter) []string {
	out := make([]string, len(h))
	for i, l := range h {
		out[i] = l.Name
	}
	return out
}

func init() {
	explore.Register(&explore.Check{
		ID:          "C19",
		Level:       "model_checking",
		Technique:   "exhaustive enumeration of (middleware count, failing position, auth, terminate hook) configurations x command histories x delivery mode on a real server, judged by a lifecycle reference machine with context probes inside every callback",
		Rule:        "m in 0..3 middlewares, failing position none|1..m (returning its context or a nil context with the error), auth none|cleartext, terminate hook absent|ok|error (60 configurations) x all histories of length <= d over {Query ok, Query err, Parse+Bind+Execute+Sync, a failing Bind without Sync, Terminate, EOF} x {message by message, one segment}; shared option: one SessionMiddleware option value handed to 2-3 servers (registered before / after a per-server middleware), connections in every order of length <= 3; several users: all step sequences of length <= 5 over 3 users connected at the same time (with / without global parameters), every callback probing the context of its own connection; transport faults: 3 configurations x histories of <= 2 letters x the k-th write (k <= 8) after the start-up failing for good: every command context is cancelled once the connection has ended",
		Assumptions: []string{"context cancellation is observed at the next quiescence on the retained context"},
		Enumerate:   c19Enumerate,
		Bounds: func(tier string) map[string]any {
			return map[string]any{"history_depth": c19Depth(tier), "configurations": 60}
		},
		RequiredOutcomes: []string{"served", "terminated", "middleware-failed", "several-connections"},
	})
}

func c19Depth(tier string) int {
	if tier == "thorough" {
		return 5
	}
	return 3
}

// c19RunUsers: connections of different users alive at the same time on one server (with and without configured
// global parameters and middlewares that tag the context): every parser / statement call of a connection sees
// THAT connection's context - its user, its parameters, the value its own middleware run added - whatever the
// other connections have done meanwhile.
func c19RunUsers(global bool, order []int) explore.Result {
	var res explore.Result
	res.Outcome = "several-connections"
	res.Key = fmt.Sprint("users", global, order)
	users := []string{"alice", "bob", "carol"}
	var problems []string
	type key struct{}
	serial := 0
	opts := []wire.OptionFn{wire.SessionMiddleware(func(ctx context.Context) (context.Context, error) {
		serial++
		return context.WithValue(ctx, key{}, fmt.Sprintf("%s#%d", wire.ClientParameters(ctx)["user"], serial)), nil
	})}
	if global {
		opts = append(opts, wire.GlobalParameters(wire.Parameters{"a": "1", "TimeZone": "UTC"}))
	}
	tags := map[string]string{}
	probe := func(ctx context.Context, where string) {
		cp, sp := wire.ClientParameters(ctx), wire.ServerParameters(ctx)
		user := string(cp["user"])
		tag, _ := ctx.Value(key{}).(string)
		if !strings.HasPrefix(tag, user+"#") {
			problems = append(problems, fmt.Sprintf("%s of %s's connection: the context carries the middleware value %q", where, user, tag))
		}
		if prev, ok := tags[wire.RemoteAddress(ctx).String()]; ok && prev != tag {
			problems = append(problems, fmt.Sprintf("%s of %s's connection: middleware value changed from %q to %q", where, user, prev, tag))
		}
		tags[wire.RemoteAddress(ctx).String()] = tag
		if sp["session_authorization"] != user || wire.AuthenticatedUsername(ctx) != user {
			problems = append(problems, fmt.Sprintf("%s of %s's connection: ServerParameters say session_authorization=%q, AuthenticatedUsername=%q", where, user, sp["session_authorization"], wire.AuthenticatedUsername(ctx)))
		}
		if cp["application_name"] != "app-of-"+user {
			problems = append(problems, fmt.Sprintf("%s of %s's connection: ClientParameters say application_name=%q", where, user, cp["application_name"]))
		}
	}
	rec := &script.Rec{}
	rec.Hook = func(ctx context.Context, where string) { probe(ctx, "statement function") }
	inner := rec.ParseFn()
	parse := func(ctx context.Context, q string) (wire.PreparedStatements, error) {
		probe(ctx, "parser")
		return inner(ctx, q)
	}
	srv, err := harness.NewServer(parse, opts...)
	if err != nil {
		res.Engine = err.Error()
		return res
	}
	defer srv.Stop()
	conns := map[int]*harness.Conn{}
	for i, u := range order {
		c := conns[u]
		if c == nil {
			c = srv.Connect()
			conns[u] = c
			if out, _ := c.Step(pgproto.Startup("user", users[u], "application_name", "app-of-"+users[u])); !strings.HasSuffix(harness.Kinds(out), "Z") {
				res.Fail("startup", fmt.Sprintf("step %d: startup of %s answered %q", i, users[u], harness.Kinds(out)))
				return res
			}
			continue
		}
		msgs := pgproto.Query(progRows)
		if i%2 == 1 {
			msgs = pgproto.Cat(pgproto.Parse("", progRows), pgproto.Bind("", "", nil, nil, nil), pgproto.Execute("", 0), pgproto.Sync())
		}
		if out, _ := c.Step(msgs); !strings.HasSuffix(harness.Kinds(out), "DCZ") {
			res.Fail("reply", fmt.Sprintf("step %d: command of %s answered %q", i, users[u], harness.Kinds(out)))
		}
	}
	for _, p := range problems {
		res.Fail("context-of-another-connection", fmt.Sprintf("order %v (global parameters configured: %v): %s", order, global, p))
		break
	}
	res.Trans = []string{fmt.Sprintf("server|%d steps of %d users|server", len(order), len(conns))}
	return res
}

// c19RunSharedOption: one SessionMiddleware OPTION VALUE handed to several servers (an application building its
// servers from a common option list plus a per-server one). Every server runs ITS middlewares, in ITS registration
// order, each receiving its predecessor's context.
func c19RunSharedOption(nservers int, sharedFirst bool, connectOrder []int) explore.Result {
	var res explore.Result
	res.Outcome = "several-connections"
	res.Key = fmt.Sprint("shared-option", nservers, sharedFirst, connectOrder)
	type tenantKey struct{}
	type auditKey struct{}
	var log []string
	shared := wire.SessionMiddleware(func(ctx context.Context) (context.Context, error) {
		t, _ := ctx.Value(tenantKey{}).(string)
		log = append(log, "audit sees tenant "+t)
		return context.WithValue(ctx, auditKey{}, "audited:"+t), nil
	})
	var servers []*harness.Server
	seen := map[int][]string{}
	for i := 0; i < nservers; i++ {
		i := i
		own := wire.SessionMiddleware(func(ctx context.Context) (context.Context, error) {
			log = append(log, fmt.Sprintf("tenant middleware %d", i))
			return context.WithValue(ctx, tenantKey{}, fmt.Sprintf("T%d", i)), nil
		})
		parse := func(ctx context.Context, q string) (wire.PreparedStatements, error) {
			return wire.Prepared(wire.NewStatement(func(ctx context.Context, w wire.DataWriter, p []wire.Parameter) error {
				t, _ := ctx.Value(tenantKey{}).(string)
				a, _ := ctx.Value(auditKey{}).(string)
				seen[i] = append(seen[i], fmt.Sprintf("tenant=%s audit=%s", t, a))
				return w.Complete("OK")
			})), nil
		}
		opts := []wire.OptionFn{own, shared}
		if sharedFirst {
			opts = []wire.OptionFn{shared, own}
		}
		srv, err := harness.NewServer(parse, opts...)
		if err != nil {
			res.Engine = err.Error()
			return res
		}
		defer srv.Stop()
		servers = append(servers, srv)
	}
	for _, si := range connectOrder {
		log = nil
		before := len(seen[si])
		c := servers[si].Connect()
		out, _ := c.Step(pgproto.Cat(pgproto.Startup("user", "u"), pgproto.Query("q")))
		what := fmt.Sprintf("%d servers built with one shared SessionMiddleware option value (shared one registered first: %v), connection to server %d", nservers, sharedFirst, si)
		if k := harness.Kinds(out); !strings.HasSuffix(k, "ZCZ") {
			res.Fail("reply", fmt.Sprintf("%s: answered %q", what, k))
			break
		}
		wantLog := []string{fmt.Sprintf("tenant middleware %d", si), fmt.Sprintf("audit sees tenant T%d", si)}
		wantSeen := fmt.Sprintf("tenant=T%d audit=audited:T%d", si, si)
		if sharedFirst {
			wantLog = []string{"audit sees tenant ", fmt.Sprintf("tenant middleware %d", si)}
			wantSeen = fmt.Sprintf("tenant=T%d audit=audited:", si)
		}
		if !sameStrings(log, wantLog) {
			res.Fail("middleware-order", fmt.Sprintf("%s: middlewares ran as %v, expected %v", what, log, wantLog))
			break
		}
		if got := seen[si][before:]; len(got) != 1 || got[0] != wantSeen {
			res.Fail("context-propagation", fmt.Sprintf("%s: the statement saw %v, expected [%s]", what, got, wantSeen))
			break
		}
		c.End()
	}
	res.Trans = []string{fmt.Sprintf("%d servers|shared option|served", nservers)}
	return res
}

// c19RunServer: several connections one after the other on ONE server: middlewares and the terminate
// hook are per connection (once for each), never once per server.
func c19RunServer(cfg c19Config, nconn int) explore.Result {
	var res explore.Result
	res.Outcome = "several-connections"
	res.Key = fmt.Sprint("server", cfg.String(), nconn)
	mw, hook := 0, 0
	opts := []wire.OptionFn{}
	for i := 1; i <= cfg.M; i++ {
		opts = append(opts, wire.SessionMiddleware(func(ctx context.Context) (context.Context, error) { mw++; return ctx, nil }))
	}
	if cfg.Hook != "absent" {
		opts = append(opts, wire.TerminateConn(func(ctx context.Context) error {
			hook++
			if cfg.Hook == "error" {
				return errors.New("terminate hook failed")
			}
			return nil
		}))
	}
	rec := &script.Rec{}
	srv, err := harness.NewServer(rec.ParseFn(), opts...)
	if err != nil {
		res.Engine = err.Error()
		return res
	}
	defer srv.Stop()
	for c := 1; c <= nconn; c++ {
		conn := srv.Connect()
		out, _ := conn.Step(c19Startup())
		if !strings.HasSuffix(harness.Kinds(out), "Z") {
			res.Fail("startup", fmt.Sprintf("connection %d: startup reply %q", c, harness.Kinds(out)))
			return res
		}
		if c%2 == 0 {
			if out, _ := conn.Step(pgproto.Query(progRows)); harness.Kinds(out) != "TDCZ" {
				res.Fail("reply", fmt.Sprintf("connection %d: query answered %q", c, harness.Kinds(out)))
			}
		}
		_, st := conn.Step(pgproto.Terminate())
		if st != memnet.Closed {
			res.Fail("not-closed", fmt.Sprintf("connection %d is %s after Terminate", c, st))
		}
		if mw != c*cfg.M {
			res.Fail("middleware-order", fmt.Sprintf("after %d connections the %d middlewares ran %d times in total, expected %d (once per connection each)", c, cfg.M, mw, c*cfg.M))
		}
		wantHook := 0
		if cfg.Hook != "absent" {
			wantHook = c
		}
		if hook != wantHook {
			res.Fail("terminate-hook", fmt.Sprintf("after %d terminated connections on one server the terminate hook was invoked %d times in total, expected %d", c, hook, wantHook))
			break
		}
	}
	res.Trans = []string{fmt.Sprintf("server|%d connections terminate|closed", nconn)}
	return res
}

func c19Enumerate(tier string, emit explore.Emit) {
	for m := 0; m <= 2; m++ {
		for _, hook := range []string{"absent", "ok", "error"} {
			for _, n := range []int{2, 3} {
				cfg := c19Config{M: m, Hook: hook}
				n := n
				emit(explore.Case{Family: "several-connections", Size: n,
					Desc: func() any { return map[string]any{"config": cfg.String(), "sequential_connections_on_one_server": n} },
					Run:  func() explore.Result { return c19RunServer(cfg, n) }})
			}
		}
	}
	// one option value shared by several servers
	for _, n := range []int{2, 3} {
		for _, first := range []bool{false, true} {
			forShapes(n, 3, func(sh []int) {
				if len(sh) == 0 {
					return
				}
				order := append([]int(nil), sh...)
				n, first := n, first
				emit(explore.Case{Family: "shared-option", Size: 40 + len(order),
					Desc: func() any {
						return map[string]any{"servers": n, "shared_option_registered_first": first, "connections_to_server": order}
					},
					Run: func() explore.Result { return c19RunSharedOption(n, first, order) }})
			})
		}
	}
	// connections of different users alive at the same time: every step is "connect" (first mention of a user) or
	// "run a command" (later mentions); all step sequences of length <= 5 over 3 users
	forShapes(3, 5, func(sh []int) {
		if len(sh) < 3 {
			return
		}
		order := append([]int(nil), sh...)
		for _, global := range []bool{false, true} {
			global := global
			emit(explore.Case{Family: "several-users", Size: 30 + len(order),
				Desc: func() any { return map[string]any{"steps_by_user": order, "global_parameters_configured": global} },
				Run:  func() explore.Result { return c19RunUsers(global, order) }})
		}
	})
	letters := c19Letters()
	// transport faults: every position of the first failing write x histories of statement-running letters
	for _, cfg := range []c19Config{{M: 1, Hook: "absent"}, {M: 2, Hook: "ok"}, {M: 0, Hook: "error"}} {
		cfg := cfg
		forShapes(5, 2, func(sh []int) {
			if len(sh) == 0 {
				return
			}
			hist := make([]c19Letter, len(sh))
			for i, s := range sh {
				hist[i] = letters[s]
			}
			for k := 1; k <= 8; k++ {
				k := k
				emit(explore.Case{Family: "transport-fault", Size: 10 + len(hist),
					Desc: func() any {
						return map[string]any{"config": cfg.String(), "history": c19Names(hist), "failing_write": k}
					},
					Run: func() explore.Result { return c19RunFault(cfg, hist, k) }})
			}
		})
	}
	// a middleware that fails with an error decorated with a severity: the connection ends all the same
	for _, sev := range []string{"WARNING", "NOTICE", "INFO", "LOG", "DEBUG", "ERROR", "FATAL"} {
		for _, fail := range []int{1, 2, 3} {
			for _, auth := range []bool{false, true} {
				cfg := c19Config{M: 3, FailAt: fail, Auth: auth, Hook: "ok", FailSeverity: sev}
				forShapes(len(letters), 1, func(sh []int) {
					hist := make([]c19Letter, len(sh))
					for i, s := range sh {
						hist[i] = letters[s]
					}
					for _, seg := range []bool{false, true} {
						seg := seg
						emit(explore.Case{Family: "lifecycle", Size: 2 + len(hist),
							Desc: func() any {
								return map[string]any{"config": cfg.String(), "history": c19Names(hist), "one_segment": seg}
							},
							Run: func() explore.Result { return c19Run(cfg, hist, seg) }})
					}
				})
			}
		}
	}
	// a CancelRequest arriving from the same host while a statement of another connection is running: that
	// statement's context stays live until its command ends
	for _, n := range []int{1, 3} {
		for _, auth := range []bool{false, true} {
			n, auth := n, auth
			emit(explore.Case{Family: "several-connections", Size: 4, Desc: func() any {
				return map[string]any{"cancel_requests_from_the_same_host_while_a_statement_runs": n, "auth": auth}
			},
				Run: func() explore.Result { return c19RunCancelMeanwhile(n, auth) }})
		}
	}
	// a validator that hands back a derived context; a transport whose Close reports an error
	for _, v := range [][2]bool{{true, false}, {false, true}, {true, true}} {
		for _, m := range []int{0, 2} {
			for _, hook := range []string{"ok", "error"} {
				cfg := c19Config{M: m, Auth: true, Hook: hook, DeriveCtx: v[0], CloseErr: v[1]}
				forShapes(len(letters), 2, func(sh []int) {
					hist := make([]c19Letter, len(sh))
					for i, s := range sh {
						hist[i] = letters[s]
						if i > 0 && hist[i-1].Name == "EOF" {
							return
						}
					}
					emit(explore.Case{Family: "lifecycle", Size: 2 + len(hist),
						Desc: func() any { return map[string]any{"config": cfg.String(), "history": c19Names(hist)} },
						Run:  func() explore.Result { return c19Run(cfg, hist, false) }})
				})
			}
		}
	}
	// the remote address the transport reports (IPv4, IPv6, zoned, unix socket) is the one every callback finds
	for _, remote := range []string{"tcp4", "tcp4 in 16 bytes", "tcp6", "tcp6 loopback", "tcp6 with zone", "unix"} {
		for _, auth := range []bool{false, true} {
			cfg := c19Config{M: 2, Auth: auth, Hook: "ok", Remote: remote}
			forShapes(len(letters), 1, func(sh []int) {
				hist := make([]c19Letter, len(sh))
				for i, s := range sh {
					hist[i] = letters[s]
				}
				emit(explore.Case{Family: "lifecycle", Size: 1 + len(hist),
					Desc: func() any { return map[string]any{"config": cfg.String(), "history": c19Names(hist)} },
					Run:  func() explore.Result { return c19Run(cfg, hist, false) }})
			})
		}
	}
	for m := 0; m <= 3; m++ {
		for fail := 0; fail <= m; fail++ {
			for _, auth := range []bool{false, true} {
				for _, hook := range []string{"absent", "ok", "error"} {
					for _, nilCtx := range []bool{false, true} {
						if nilCtx && (fail == 0 || hook == "ok") {
							continue
						}
						cfg := c19Config{M: m, FailAt: fail, Auth: auth, Hook: hook, NilCtx: nilCtx}
						forShapes(len(letters), c19Depth(tier), func(sh []int) {
							hist := make([]c19Letter, len(sh))
							for i, s := range sh {
								hist[i] = letters[s]
								if i > 0 && hist[i-1].Name == "EOF" {
									return // nothing can follow the end of input
								}
							}
							for _, seg := range []bool{false, true} {
								seg := seg
								if seg && len(hist) < 2 {
									continue
								}
								emit(explore.Case{Family: "lifecycle", Size: len(hist),
									Desc: func() any {
										return map[string]any{"config": cfg.String(), "history": c19Names(hist), "one_segment": seg}
									},
									Run: func() explore.Result { return c19Run(cfg, hist, seg) }})
							}
						})
					}
				}
			}
		}
	}
}
