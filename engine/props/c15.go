package props

import (
	"fmt"
	"strings"

	"verif/engine/explore"
	"verif/engine/harness"
	"verif/engine/memnet"
	"verif/engine/pgproto"
	"verif/engine/script"

	"context"
	wire "github.com/jeroenrinzema/psql-wire"
)

// C15 — Concurrent connections are isolated and free of data races.
//
// Two parts, merged into one evidence file:
//   - schedule part (verif/engine/sched/c15.go, instrumented + -race build): all schedules of small
//     scenarios up to a preemption bound, differential oracle + race monitor;
//   - serial part (this file, plain build): the degenerate interleavings in which one connection has
//     completely finished before the next one starts. Every ordered pair (predecessor, subject) of a
//     corpus of canonical sessions is served on ONE server; the subject's transcript and callbacks must
//     equal those of the subject served alone on a fresh server. This is where state that an EARLIER
//     connection leaves behind in the server (free lists, caches, cleared hooks, shared tables) shows.

func c15Serve(srv *harness.Server, w *c04World, s c04Session) ([]string, []string, string) {
	mc := memnet.NewConn("mem:subject")
	w.rec.Conn = nil
	n := len(w.events)
	mc.Push(s.stream())
	mc.EOF()
	srv.ConnectWith(mc)
	st := mc.AwaitClose()
	if st == memnet.Closed {
		harness.Settle()
	}
	t, _ := harness.CanonTranscript(mc.Output())
	return t, append([]string(nil), w.events[n:]...), st.String()
}

func c15NewServer(auth bool) (*harness.Server, *c04World, error) {
	w := &c04World{rec: &script.Rec{Extra: copyHandler}}
	opts := []wire.OptionFn{wire.MessageBufferSize(c04Limit), wire.TerminateConn(func(ctx context.Context) error { w.ev("terminate hook"); return nil }),
		wire.SessionMiddleware(func(ctx context.Context) (context.Context, error) { w.ev("session middleware"); return ctx, nil })}
	if auth {
		opts = append(opts, wire.SessionAuthStrategy(wire.ClearTextPassword(func(ctx context.Context, db, u, pw string) (context.Context, bool, error) {
			w.ev("validate %q %q %q", db, u, pw)
			return ctx, pw == "good", nil
		})))
	}
	srv, err := harness.NewServer(c04Parse(w), opts...)
	return srv, w, err
}

var c15AloneCache = map[string][3]any{}

func c15RunSerial(pred, subj c04Session) explore.Result {
	var res explore.Result
	res.Outcome = "serial"
	res.Key = pred.Name + " => " + subj.Name
	alone, ok := c15AloneCache[subj.Name]
	if !ok {
		srv, w, err := c15NewServer(subj.Auth)
		if err != nil {
			res.Engine = err.Error()
			return res
		}
		t, e, st := c15Serve(srv, w, subj)
		srv.Stop()
		alone = [3]any{t, e, st}
		c15AloneCache[subj.Name] = alone
	}
	srv, w, err := c15NewServer(subj.Auth)
	if err != nil {
		res.Engine = err.Error()
		return res
	}
	defer srv.Stop()
	c15Serve(srv, w, pred) // the predecessor connection: served completely, then gone
	t, e, st := c15Serve(srv, w, subj)
	at, ae, ast := alone[0].([]string), alone[1].([]string), alone[2].(string)
	if !sameStrings(t, at) || st != ast {
		res.Fail("transcript-differs-from-alone", fmt.Sprintf("session %q served after an earlier connection (%q) on the same server received\n  %v (%s)\nbut served alone on a fresh server it receives\n  %v (%s)", subj.Name, pred.Name, clipList(t), st, clipList(at), ast))
	}
	if !sameStrings(e, ae) {
		res.Fail("callbacks-differ-from-alone", fmt.Sprintf("session %q after %q: callbacks\n  %v\nalone:\n  %v", subj.Name, pred.Name, clipList(e), clipList(ae)))
	}
	res.Trans = []string{"fresh server|" + strings.SplitN(pred.Name, " / ", 2)[0] + " predecessor|served subject"}
	return res
}

// c15RunManyBefore: n connections that never get through their start-up (all of one kind, each served completely and
// gone) precede the subject: its transcript and callbacks are those of the subject served alone on a fresh server.
func c15RunManyBefore(pred c04Session, n int, subj c04Session) explore.Result {
	var res explore.Result
	res.Outcome = "serial"
	res.Key = fmt.Sprint(n, " x ", pred.Name, " => ", subj.Name)
	srv0, w0, err := c15NewServer(subj.Auth)
	if err != nil {
		res.Engine = err.Error()
		return res
	}
	at, ae, ast := c15Serve(srv0, w0, subj)
	srv0.Stop()
	srv, w, err := c15NewServer(subj.Auth)
	if err != nil {
		res.Engine = err.Error()
		return res
	}
	defer srv.Stop()
	for i := 0; i < n; i++ {
		if _, _, st := c15Serve(srv, w, pred); st != "closed" {
			res.Fail("transcript-differs-from-alone", fmt.Sprintf("earlier connection %d of %d (%s) is %s after its input ended", i+1, n, pred.Name, st))
			return res
		}
	}
	t, e, st := c15Serve(srv, w, subj)
	if !sameStrings(t, at) || st != ast {
		res.Fail("transcript-differs-from-alone", fmt.Sprintf("session %q served after %d earlier connections (%q each, all gone) on the same server received\n  %v (%s)\nbut served alone on a fresh server it receives\n  %v (%s)", subj.Name, n, pred.Name, clipList(t), st, clipList(at), ast))
	}
	if !sameStrings(e, ae) {
		res.Fail("callbacks-differ-from-alone", fmt.Sprintf("session %q after %d x %q: callbacks\n  %v\nalone:\n  %v", subj.Name, n, pred.Name, clipList(e), clipList(ae)))
	}
	res.Trans = []string{"fresh server|many predecessors|served subject"}
	return res
}

// c15Stepwise serves sessions on ONE server, message by message, in the given order of turns: turn k delivers the
// next message of connection order[k] and waits until the whole server is quiescent again. Returns per connection
// its canonical transcript, the callbacks that ran during its turns and its final status.
func c15Stepwise(auth bool, sessions []c04Session, order []int) (ts [][]string, es [][]string, sts []string, engine string) {
	srv, w, err := c15NewServer(auth)
	if err != nil {
		return nil, nil, nil, err.Error()
	}
	defer srv.Stop()
	w.rec.Conn = nil
	conns := make([]*harness.Conn, len(sessions))
	next := make([]int, len(sessions))
	es = make([][]string, len(sessions))
	closed := make([]bool, len(sessions))
	last := make([]string, len(sessions))
	turn := func(i int) {
		n := len(w.events)
		switch {
		case closed[i]:
		case conns[i] == nil:
			conns[i] = srv.ConnectWith(memnet.NewConn(fmt.Sprintf("mem:c%d", i)))
			fallthrough
		case next[i] < len(sessions[i].Segs):
			_, st := conns[i].Step(sessions[i].Segs[next[i]])
			next[i]++
			closed[i] = st == memnet.Closed
			last[i] = st.String()
		default:
			_, st := conns[i].End()
			closed[i] = true
			last[i] = st.String()
		}
		harness.Settle()
		es[i] = append(es[i], w.events[n:]...)
	}
	for _, i := range order {
		turn(i)
	}
	for i := range sessions { // whatever is left, connection by connection
		for !closed[i] {
			turn(i)
		}
	}
	for i := range sessions {
		t, _ := harness.CanonTranscript(conns[i].C.Output())
		ts = append(ts, t)
		sts = append(sts, last[i])
	}
	return ts, es, sts, ""
}

var c15StepAlone = map[string][3]any{}

// c15RunMerged: two connections are open at the same time and take turns message by message (A sends i messages,
// B sends j, A finishes, B finishes): each one's transcript and callbacks equal those of the same session served
// alone, message by message, on a fresh server.
func c15RunMerged(a, b c04Session, i, j int) explore.Result {
	var res explore.Result
	res.Outcome = "merged"
	res.Key = fmt.Sprint(a.Name, " || ", b.Name, i, j)
	var order []int
	for k := 0; k < i; k++ {
		order = append(order, 0)
	}
	for k := 0; k < j; k++ {
		order = append(order, 1)
	}
	for k := i; k <= len(a.Segs); k++ {
		order = append(order, 0)
	}
	ts, es, sts, eng := c15Stepwise(a.Auth, []c04Session{a, b}, order)
	if eng != "" {
		res.Engine = eng
		return res
	}
	for n, s := range []c04Session{a, b} {
		alone, ok := c15StepAlone[s.Name]
		if !ok {
			t, e, st, eng := c15Stepwise(s.Auth, []c04Session{s}, nil)
			if eng != "" {
				res.Engine = eng
				return res
			}
			alone = [3]any{t[0], e[0], st[0]}
			c15StepAlone[s.Name] = alone
		}
		at, ae, ast := alone[0].([]string), alone[1].([]string), alone[2].(string)
		what := fmt.Sprintf("connection %c (session %q) taking turns with %q (A sends %d messages, B sends %d, A finishes, B finishes)", 'A'+n, s.Name, []c04Session{b, a}[n].Name, i, j)
		if !sameStrings(ts[n], at) || sts[n] != ast {
			res.Fail("transcript-differs-from-alone", fmt.Sprintf("%s received\n  %v (%s)\nbut served alone it receives\n  %v (%s)", what, clipList(ts[n]), sts[n], clipList(at), ast))
		}
		if !sameStrings(es[n], ae) {
			res.Fail("callbacks-differ-from-alone", fmt.Sprintf("%s: callbacks\n  %v\nalone:\n  %v", what, clipList(es[n]), clipList(ae)))
		}
	}
	res.Trans = []string{"two open connections|turns|each as alone"}
	return res
}

func clipList(s []string) []string {
	if len(s) > 14 {
		return append(append([]string(nil), s[:14]...), fmt.Sprintf("… (%d more)", len(s)-14))
	}
	return s
}

func c15Corpus() []c04Session {
	var out []c04Session
	for _, s := range c04Sessions() {
		if s.NoPrefix || strings.Contains(s.Name, " / ") && strings.Count(s.Name, " / ") > 1 && !strings.HasSuffix(s.Name, "terminate") {
			continue // keep the single-body sessions (with and without Terminate), drop the pair sessions
		}
		out = append(out, s)
	}
	// a handler serving a static catalogue (one declared parameter list for all connections), with and without
	// types pre-declared by the client
	st := pgproto.Startup("user", "u")
	out = append(out,
		c04Session{Name: "plain / static statement, types pre-declared in Parse", Segs: [][]byte{st, pgproto.Parse("s", "static q", 23, 0, 20), pgproto.Describe('S', "s"), pgproto.Bind("", "s", nil, [][]byte{[]byte("1"), []byte("b"), []byte("3")}, nil), pgproto.Execute("", 0), pgproto.Sync()}},
		c04Session{Name: "plain / parameter types filled in for user typed-1", Segs: [][]byte{pgproto.Startup("user", "typed-1"), pgproto.Parse("s", "typedparams $1 $2"), pgproto.Describe('S', "s"), pgproto.Sync()}},
		c04Session{Name: "plain / parameter types left open for user typed-2", Segs: [][]byte{pgproto.Startup("user", "typed-2"), pgproto.Parse("s", "typedparams $1 $2"), pgproto.Describe('S', "s"), pgproto.Sync(), pgproto.Parse("", "typedparams $1 $2"), pgproto.Describe('S', ""), pgproto.Sync()}},
		c04Session{Name: "plain / shared error value refined for this connection", Segs: [][]byte{st, pgproto.Query("sentinel u1"), pgproto.Query("sentinel u1 again")}},
		c04Session{Name: "plain / shared error value as it is", Segs: [][]byte{st, pgproto.Query("sentinel"), pgproto.Parse("", "sentinel"), pgproto.Bind("", "", nil, nil, nil), pgproto.Execute("", 0), pgproto.Sync()}},
		c04Session{Name: "plain / static statement", Segs: [][]byte{st, pgproto.Parse("s", "static q"), pgproto.Describe('S', "s"), pgproto.Sync()}},
	)
	return out
}

func init() {
	explore.Register(&explore.Check{
		ID:        "C15",
		Level:     "model_checking",
		Build:     "sched-race",
		Technique: "stateless model checking of the real code under a cooperative scheduler (check-time instrumentation), all schedules up to a preemption bound with happens-before state caching; every schedule is also a race-detector execution whose happens-before graph contains only the library's own synchronisation (scheduler hand-offs are hidden with RaceDisable/RaceEnable); plus exhaustive enumeration of ordered pairs of sessions served one after the other on one server",
		Rule:      "schedule part: scenarios S-A (typed rows text vs int4), S-B (same statement / portal names, different queries and values), S-C (different users + configured global parameters), S-F (one connection in its error / skip-until-Sync window while the other works), S-G (two cleartext-password authentications interleaving), S-H (a CancelRequest connection, then a connection registering a private type and one needing it), S-I (one handler waits for another connection's handler), thorough: S-D (3 connections mixed), S-E (COPY-in vs queries); client scripts pre-loaded one message per segment; handlers carry yield points; all schedules with <= 2 preemptions (quick); thorough: ALL schedules (unbounded, happens-before state cache) for S-A, S-C, S-G, S-I and <= 3 preemptions for the others; oracle 1: every connection's transcript and callback trace equal those of the same script served alone; oracle 2: no data-race report. Serial part: every ordered pair (predecessor, subject) over a corpus of canonical sessions (startup / SSL refusal / auth / cancel x simple, extended, failing, COPY, oversized, unknown, terminate) on one server, subject compared with itself served alone",
		Assumptions: []string{
			"the race clause relies on the Go race detector's happens-before precision; pgx and the standard library are observed, not instrumented",
			"per-connection trace recorders are lock-free so that the harness adds no happens-before edge between connections",
			"a connection that has finished before the next one starts is a (degenerate) interleaving of simultaneous connections",
		},
		Enumerate: func(tier string, emit explore.Emit) {
			// a connection that stays silent in some protocol state (message granularity: the extreme interleaving in
			// which one connection does nothing at all while the others run) holds up nobody
			for _, nb := range c04StalledStates() {
				nb := nb
				emit(explore.Case{Family: "silent-neighbour", Size: 1,
					Desc: func() any { return map[string]any{"silent_connection_state": nb.Name} },
					Run: func() explore.Result {
						r := c04RunStalled(nb, false)
						r.Outcome = "silent-neighbour"
						return r
					}})
			}
			for _, order := range [][]string{{"as-text", "as-int8"}, {"as-int8", "as-text"}, {"as-text", "as-int8", "as-text"}} {
				order := order
				emit(explore.Case{Family: "per-connection-types", Size: len(order),
					Desc: func() any {
						return map[string]any{"sequential_connections_binding_one_oid_to": order, "via": "binary COPY-in"}
					},
					Run: func() explore.Result {
						r := c14RunTypeMaps(order)
						r.Outcome = "silent-neighbour"
						return r
					}})
			}
			// two connections open at the same time, taking turns message by message
			{
				corpus := c15Corpus()
				for _, a := range corpus {
					for _, b := range corpus {
						if a.Auth != b.Auth {
							continue
						}
						for i := 1; i <= len(a.Segs); i++ {
							for j := 1; j <= len(b.Segs)+1; j++ {
								if tier != "thorough" && i > 1 && i < len(a.Segs) && j > 1 && j < len(b.Segs) && (i+j)%2 == 1 {
									continue // quick: every second inner turn pattern
								}
								a, b, i, j := a, b, i, j
								emit(explore.Case{Family: "message-turns", Size: 3,
									Desc: func() any {
										return map[string]any{"connection_A": a.Name, "connection_B": b.Name, "A_sends_first": i, "then_B_sends": j, "then": "A finishes, B finishes"}
									},
									Run: func() explore.Result { return c15RunMerged(a, b, i, j) }})
							}
						}
					}
				}
			}
			// many earlier connections that never got through their start-up, then a regular one
			{
				st := pgproto.Startup("user", "u")
				subjects := []c04Session{
					{Name: "plain / query", Segs: [][]byte{st, pgproto.Query(progRows)}},
					{Name: "auth / good password, query", Auth: true, Segs: [][]byte{st, pgproto.Password("good"), pgproto.Query(progRows)}},
				}
				preds := []c04Session{
					{Name: "connects and leaves without a byte"},
					{Name: "two bytes of garbage", Segs: [][]byte{{0x16, 0x03}}},
					{Name: "truncated start-up packet", Segs: [][]byte{st[:len(st)-3]}},
					{Name: "start-up packet whose parameter list lacks its terminator", Segs: [][]byte{pgproto.Cat(pgproto.Be32(uint32(8+5)), pgproto.Be32(196608), []byte("user\x00"))}},
					{Name: "SSLRequest, then gone", Segs: [][]byte{pgproto.SSLRequest()}},
					{Name: "CancelRequest", Segs: [][]byte{pgproto.Cat(pgproto.Be32(16), pgproto.Be32(80877102), pgproto.Be32(1), pgproto.Be32(2))}},
					{Name: "start-up, then gone before the password", Auth: true, Segs: [][]byte{st}},
					{Name: "rejected password", Auth: true, Segs: [][]byte{st, pgproto.Password("bad")}},
				}
				counts := []int{3, 8, 9, 10, 16, 17, 31, 32, 33, 63, 64, 65, 100, 127, 128, 129, 255, 256, 257, 300}
				if tier == "thorough" {
					counts = nil
					for n := 2; n <= 700; n++ {
						counts = append(counts, n)
					}
					counts = append(counts, 1023, 1024, 1025, 2049, 4097)
				}
				for _, subj := range subjects {
					for _, pred := range preds {
						if pred.Auth && !subj.Auth {
							continue
						}
						for _, n := range counts {
							subj, pred, n := subj, pred, n
							emit(explore.Case{Family: "serial-pairs", Size: 3,
								Desc: func() any {
									return map[string]any{"earlier_connections": n, "each": pred.Name, "subject_connection": subj.Name}
								},
								Run: func() explore.Result { return c15RunManyBefore(pred, n, subj) }})
						}
					}
				}
			}
			corpus := c15Corpus()
			for _, pred := range corpus {
				for _, subj := range corpus {
					if pred.Auth != subj.Auth {
						continue // one server, one authentication configuration
					}
					pred, subj := pred, subj
					emit(explore.Case{Family: "serial-pairs", Size: 2,
						Desc: func() any { return map[string]any{"earlier_connection": pred.Name, "subject_connection": subj.Name} },
						Run:  func() explore.Result { return c15RunSerial(pred, subj) }})
				}
			}
		},
		After: explore.MergeSched("C15", true),
	})
}
