package props

import "verif/engine/explore"

// C15 — Concurrent connections are isolated and free of data races.
// Scenarios: verif/engine/sched/c15.go (instrumented + -race build).

func init() {
	explore.Register(&explore.Check{
		ID:        "C15",
		Level:     "model_checking",
		Build:     "sched-race",
		Technique: "stateless model checking of the real code under a cooperative scheduler (check-time instrumentation), all schedules up to a preemption bound with happens-before state caching; every schedule is also a race-detector execution whose happens-before graph contains only the library's own synchronisation (scheduler hand-offs are hidden with RaceDisable/RaceEnable)",
		Rule:      "scenarios S-A (typed rows text vs int4), S-B (same statement / portal names, different queries and values), S-C (different users + configured global parameters), S-F (one connection in its error / skip-until-Sync window while the other works), S-G (two cleartext-password authentications interleaving), thorough: S-D (3 connections mixed), S-E (COPY-in vs queries); client scripts pre-loaded one message per segment; handlers carry yield points; all schedules with <= 2 preemptions (quick); thorough: ALL schedules (unbounded, happens-before state cache) for S-A, S-C, S-G and <= 3 preemptions for the others; oracle 1: every connection's transcript and callback trace equal those of the same script served alone; oracle 2: no data-race report",
		Assumptions: []string{
			"the race clause relies on the Go race detector's happens-before precision; pgx and the standard library are observed, not instrumented",
			"per-connection trace recorders are lock-free so that the harness adds no happens-before edge between connections",
		},
		Custom: explore.SchedCustom("C15", true),
	})
}
