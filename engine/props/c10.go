package props

import (
	"bytes"
	"context"
	"errors"
	"fmt"
	"io"
	"runtime"
	"strings"

	wire "github.com/jeroenrinzema/psql-wire"
	"github.com/jeroenrinzema/psql-wire/pkg/buffer"
	"verif/engine/explore"
	"verif/engine/harness"
	"verif/engine/memnet"
	"verif/engine/pgproto"
	"verif/engine/script"
)

// C10 — The message-size limit is enforced exactly and recoverably.

const c10Probe = "0:c=OK" // 7-byte body, fits every limit >= 12

var c10Types = []byte("QPBDECSHXpdcfz")

func c10Limits(tier string) []int {
	var ls []int
	for l := 12; l <= 40; l++ {
		if tier != "thorough" && l > 20 && l%4 != 0 {
			continue
		}
		ls = append(ls, l)
	}
	return append(ls, 4095, 4096, 4097, 65536)
}

func c10Sizes(l int) []int64 {
	L := int64(l)
	return []int64{0, 1, L - 1, L, L + 1, L + 2, 2 * L, 2*L + 1, 3*L + 7}
}

func effLimit(l int) int {
	if l <= 0 {
		return 1 << 24
	}
	return l
}

// heapMonitor samples the live heap while one message is in flight.
type heapMonitor struct {
	base, peak           uint64
	stackBase, stackPeak uint64 // goroutine stack memory in use (process-wide)
	reads                int
	every                int // sample every n-th read (default 2048)
}

func (h *heapMonitor) sample() {
	var m runtime.MemStats
	runtime.GC()
	runtime.ReadMemStats(&m)
	if m.HeapAlloc > h.peak {
		h.peak = m.HeapAlloc
	}
	if m.StackInuse > h.stackPeak {
		h.stackPeak = m.StackInuse
	}
}

func (h *heapMonitor) stackExcess() int64 { return int64(h.stackPeak) - int64(h.stackBase) }

func (h *heapMonitor) start() {
	h.peak, h.stackPeak = 0, 0
	h.sample()
	h.base, h.stackBase = h.peak, h.stackPeak
	h.reads = 0
}

func (h *heapMonitor) onRead() {
	h.reads++
	every := h.every
	if every == 0 {
		every = 2048
	}
	if h.reads <= 8 || h.reads%every == 0 {
		h.sample()
	}
}

func (h *heapMonitor) excess() int64 { return int64(h.peak) - int64(h.base) }

func heapBound(l int) int64 {
	m := int64(effLimit(l))
	if m < 4096 {
		m = 4096
	}
	return 4*m + 8<<20
}

type c10Case struct {
	Limit    int
	Type     byte
	Declared uint32 // raw length field
	Pos      string // first | between | batch | copy | startup | password
}

func (c c10Case) body() int64 { return int64(c.Declared) - 4 }

func (c c10Case) String() string {
	return fmt.Sprintf("limit=%d type=%q declared_length=%d (body %d) position=%s", c.Limit, c.Type, c.Declared, c.body(), c.Pos)
}

// c10Session builds a server whose parser also offers a COPY-in statement.
func c10Session(limit int, auth bool) (*harness.One, *script.Rec, error) {
	rec := &script.Rec{}
	rec.Extra = func(ctx context.Context, r *script.Rec, stmt int, op string, w wire.DataWriter, params []wire.Parameter) (bool, error) {
		if op != "copyall" {
			return false, nil
		}
		cr, err := w.CopyIn(wire.TextFormat)
		if err != nil {
			return true, err
		}
		for {
			err := cr.Read()
			if err == io.EOF {
				return true, w.Complete("COPY")
			}
			if err != nil {
				return true, &script.ReturnErr{Err: err}
			}
		}
	}
	inner := rec.ParseFn()
	parse := func(ctx context.Context, q string) (wire.PreparedStatements, error) {
		if q == "cp" {
			return inner(ctx, "1:copyall")
		}
		return inner(ctx, q)
	}
	opts := []wire.OptionFn{wire.MessageBufferSize(limit)}
	if auth {
		opts = append(opts, wire.SessionAuthStrategy(wire.ClearTextPassword(func(ctx context.Context, db, u, pw string) (context.Context, bool, error) {
			return ctx, true, nil
		})))
	}
	one, err := harness.StartOne(parse, opts...)
	if err == nil {
		rec.Conn = one.C
	}
	return one, rec, err
}

// c10Observe runs the scenario and returns (reply to the measured message, reply to what follows, closed, callbacks).
type c10Obs struct {
	first, follow string
	closedAfter   bool
	cbs           []string
	detail        []string
	engine        string
	heapExcess    int64
}

func c10Drive(c c10Case, limit int, measure bool) c10Obs {
	var o c10Obs
	auth := c.Pos == "password"
	one, rec, err := c10Session(limit, auth)
	if err != nil {
		o.engine = err.Error()
		return o
	}
	defer one.Stop()
	mon := &heapMonitor{}
	head := pgproto.MsgDeclared(c.Type, c.Declared, nil)
	body := c.body()
	if body < 0 {
		body = 0
	}
	push := func() {
		if measure {
			mon.start()
			one.C.OnRead = mon.onRead
		}
		one.C.PushZeros(head, body)
	}
	if c.Pos == "startup" {
		one.C.PushZeros(pgproto.Be32(c.Declared), body)
		st := one.C.Await()
		if st == memnet.Closed {
			harness.Settle()
		}
		o.first = harness.Kinds(one.C.Take())
		o.closedAfter = st == memnet.Closed
		if !o.closedAfter && limit >= 12 {
			out, _ := one.Step(pgproto.Query(c10Probe))
			o.follow = harness.Kinds(out)
		}
		o.cbs = evKinds(rec.Evs)
		return o
	}
	out, _ := one.Step(pgproto.Startup("user", "u"))
	if c.Pos == "password" {
		if harness.Kinds(out) != "R" {
			o.engine = "no password request: " + harness.Kinds(out)
			return o
		}
	} else if !strings.HasSuffix(harness.Kinds(out), "Z") {
		o.engine = "startup failed under limit " + fmt.Sprint(limit) + ": " + harness.Kinds(out)
		return o
	}
	switch c.Pos {
	case "between":
		if out, _ := one.Step(pgproto.Query(c10Probe)); harness.Kinds(out) != "CZ" {
			o.engine = "probe query failed: " + harness.Kinds(out)
			return o
		}
	case "batch":
		if out, _ := one.Step(pgproto.Parse("", "0")); harness.Kinds(out) != "1" {
			o.engine = "Parse failed: " + harness.Kinds(out)
			return o
		}
	case "copy":
		if out, _ := one.Step(pgproto.Query("cp")); harness.Kinds(out) != "TG" {
			o.engine = "COPY did not start: " + harness.Kinds(out)
			return o
		}
	}
	n := len(rec.Evs)
	push()
	st := one.C.Await()
	if st == memnet.Closed {
		harness.Settle()
	}
	one.C.OnRead = nil
	if measure {
		mon.sample()
		o.heapExcess = mon.excess()
	}
	raw := one.C.Take()
	if one.C.OutOverflow {
		o.first = "FLOOD"
		o.closedAfter = st == memnet.Closed
		return o
	}
	o.first = harness.Kinds(raw)
	if ms, err := pgproto.ParseBackend(raw); err == nil {
		o.detail = pgproto.Strings(ms)
	}
	o.closedAfter = st == memnet.Closed
	o.cbs = evKinds(rec.Evs[n:])
	if o.closedAfter {
		return o
	}
	switch c.Pos {
	case "batch":
		out, _ := one.Step(pgproto.Sync())
		o.follow = harness.Kinds(out) + "|"
		out, _ = one.Step(pgproto.Query(c10Probe))
		o.follow += harness.Kinds(out)
	case "copy":
		out, _ := one.Step(pgproto.CopyDone())
		o.follow = harness.Kinds(out) + "|"
		out, _ = one.Step(pgproto.Query(c10Probe))
		o.follow += harness.Kinds(out)
	default:
		out, _ := one.Step(pgproto.Query(c10Probe))
		o.follow = harness.Kinds(out)
	}
	return o
}

var c10RefCache = map[string]c10Obs{}

func c10Run(c c10Case) explore.Result {
	var res explore.Result
	L := int64(effLimit(c.Limit))
	body := c.body()
	huge := body > 1<<20
	o := c10Drive(c, c.Limit, huge || c.Limit <= 0)
	if o.engine != "" {
		res.Engine = o.engine
		return res
	}
	res.Key = c.String()
	switch {
	case c.Declared < 4:
		res.Outcome = "sub-minimum"
		// rejected: an error or a closed connection; never a wrapped read that swallows what follows
		if !o.closedAfter {
			if !strings.HasPrefix(o.first, "E") {
				res.Fail("sub-minimum-accepted", fmt.Sprintf("%s: declared length below 4 answered with %q", c, o.first))
			}
			want := "CZ"
			if c.Pos == "batch" {
				want = "Z|CZ"
			}
			if c.Pos != "copy" && o.follow != want {
				res.Fail("sub-minimum-wrapped-read", fmt.Sprintf("%s: the message after it was answered %q, expected %q (a wrapped size swallows the following bytes)", c, o.follow, want))
			}
		}
		if len(o.cbs) > 0 && c.Pos != "copy" {
			res.Fail("sub-minimum-callback", fmt.Sprintf("%s: callbacks %v", c, o.cbs))
		}
	case body <= L:
		res.Outcome = "within-limit"
		key := fmt.Sprintf("%c/%d/%s/%v", c.Type, c.Declared, c.Pos, c.Limit > 0 && c.Limit < 12)
		ref, ok := c10RefCache[key]
		if !ok {
			refLimit := 1 << 20
			if body >= 1<<20 {
				refLimit = 1 << 25
			}
			ref = c10Drive(c, refLimit, false)
			if c.Limit > 0 && c.Limit < 12 {
				ref.follow, ref.cbs = "", nil // the probe query does not fit such a limit and is not sent
			}
			c10RefCache[key] = ref
		}
		if ref.engine != "" {
			res.Engine = ref.engine
			return res
		}
		if o.first != ref.first || o.follow != ref.follow || o.closedAfter != ref.closedAfter || !sameStrings(o.cbs, ref.cbs) {
			res.Fail("within-limit-differs", fmt.Sprintf("%s: a body of %d bytes fits the limit but the reply is %q / then %q / closed=%v / callbacks %v, while under a 1 MiB limit it is %q / %q / closed=%v / %v",
				c, body, o.first, o.follow, o.closedAfter, o.cbs, ref.first, ref.follow, ref.closedAfter, ref.cbs))
		}
	default:
		res.Outcome = "oversized-session"
		switch c.Pos {
		case "startup", "password":
			res.Outcome = "oversized-handshake"
			if !o.closedAfter {
				res.Fail("oversized-handshake-not-closed", fmt.Sprintf("%s: connection stays open, reply %q", c, o.first))
			}
			if strings.ContainsAny(o.first, "ZS") || len(o.cbs) > 0 {
				res.Fail("oversized-handshake-session", fmt.Sprintf("%s: a session started: reply %q callbacks %v", c, o.first, o.cbs))
			}
		default:
			if o.closedAfter {
				res.Fail("oversized-closed", fmt.Sprintf("%s: the connection was closed (reply %q); an oversized message must be skipped and the session continue", c, o.first))
				break
			}
			if o.first != "E" && o.first != "EZ" {
				res.Fail("oversized-reply", fmt.Sprintf("%s: answered with %q, expected exactly one ErrorResponse", c, o.first))
			} else {
				d := o.detail[0]
				if !strings.Contains(d, "C=54000") {
					res.Fail("oversized-sqlstate", fmt.Sprintf("%s: %s is not program_limit_exceeded (54000)", c, d))
				}
				if strings.Contains(d, "S=FATAL") || strings.Contains(d, "S=PANIC") {
					res.Fail("oversized-fatal", fmt.Sprintf("%s: %s must not be fatal", c, d))
				}
			}
			want := "CZ"
			switch c.Pos {
			case "batch":
				want = "Z|CZ"
			case "copy":
				want = "|CZ" // the COPY was aborted by the error; a late CopyDone is ignored
			}
			if o.follow != want {
				res.Fail("oversized-not-skipped", fmt.Sprintf("%s: after the oversized message the following traffic was answered %q, expected %q (the %d body bytes must be skipped in full)", c, o.follow, want, body))
			}
			if len(o.cbs) > 0 && c.Pos != "copy" {
				res.Fail("oversized-callback", fmt.Sprintf("%s: callbacks %v", c, o.cbs))
			}
		}
	}
	if (huge || c.Limit <= 0) && o.heapExcess > heapBound(c.Limit) {
		res.Fail("buffered", fmt.Sprintf("%s: live heap grew by %d bytes while the message was in flight (bound %d)", c, o.heapExcess, heapBound(c.Limit)))
	}
	state := "session"
	if c.Pos == "startup" || c.Pos == "password" {
		state = "handshake"
	}
	next := state
	if o.closedAfter {
		next = "closed"
	}
	res.Trans = []string{fmt.Sprintf("%s|%s@%s|%s", state, res.Outcome, c.Pos, next)}
	return res
}

// ---- direct buffer.Reader family ---------------------------------------------

type zeroStream struct {
	head []byte
	n    int64
	tail []byte
}

func (z *zeroStream) Read(p []byte) (int, error) {
	if len(z.head) > 0 {
		n := copy(p, z.head)
		z.head = z.head[n:]
		return n, nil
	}
	if z.n > 0 {
		n := int64(len(p))
		if n > z.n {
			n = z.n
		}
		clear(p[:n])
		z.n -= n
		return int(n), nil
	}
	if len(z.tail) > 0 {
		n := copy(p, z.tail)
		z.tail = z.tail[n:]
		return n, nil
	}
	return 0, io.EOF
}

func c10RunDirect(limit int, body int64) explore.Result {
	var res explore.Result
	res.Outcome = "direct-reader"
	res.Key = fmt.Sprintf("direct limit=%d body=%d", limit, body)
	L := int64(effLimit(limit))
	next := pgproto.Query("next")
	r := buffer.NewReader(harness.Quiet, &zeroStream{head: pgproto.MsgDeclared('d', uint32(body+4), nil), n: body, tail: next}, limit)
	var before, after runtime.MemStats
	runtime.ReadMemStats(&before)
	t, n, err := r.ReadTypedMsg()
	runtime.ReadMemStats(&after)
	capBound := int(L)
	if capBound < 4096 {
		capBound = 4096
	}
	if cap(r.Msg) > capBound {
		res.Fail("reader-buffer", fmt.Sprintf("limit %d: cap(reader.Msg) = %d after reading a message declaring %d bytes", limit, cap(r.Msg), body))
	}
	if body <= L {
		if err != nil || byte(t) != 'd' || int64(n) != body+4 || int64(len(r.Msg)) != body {
			res.Fail("reader-within-limit", fmt.Sprintf("limit %d body %d: ReadTypedMsg = (%q, %d, %v), len(Msg)=%d", limit, body, t, n, err, len(r.Msg)))
		}
	} else {
		ex, ok := buffer.UnwrapMessageSizeExceeded(err)
		if err == nil || !errors.Is(err, buffer.ErrMessageSizeExceeded) || !ok {
			res.Fail("reader-over-limit", fmt.Sprintf("limit %d body %d: ReadTypedMsg returned err=%v, expected MessageSizeExceeded", limit, body, err))
			return res
		}
		if int64(ex.Size) != body || int64(ex.Max) != L {
			res.Fail("reader-over-limit", fmt.Sprintf("limit %d body %d: error reports size %d max %d", limit, body, ex.Size, ex.Max))
		}
		if d := after.TotalAlloc - before.TotalAlloc; int64(d) > 4*int64(capBound)+1<<20 {
			res.Fail("reader-allocates", fmt.Sprintf("limit %d body %d: detecting the oversized message allocated %d bytes", limit, body, d))
		}
		if err := r.Slurp(ex.Size); err != nil {
			res.Fail("reader-slurp", fmt.Sprintf("limit %d body %d: Slurp failed: %v", limit, body, err))
			return res
		}
		if cap(r.Msg) > capBound {
			res.Fail("reader-buffer", fmt.Sprintf("limit %d: cap(reader.Msg) = %d after Slurp", limit, cap(r.Msg)))
		}
	}
	if L >= int64(len(next)) {
		t, _, err = r.ReadTypedMsg()
		if err != nil || byte(t) != 'Q' || !bytes.Equal(r.Msg, []byte("next\x00")) {
			res.Fail("reader-resync", fmt.Sprintf("limit %d body %d: the next message read as (%q, %q, %v)", limit, body, t, r.Msg, err))
		}
	}
	return res
}

func init() {
	explore.Register(&explore.Check{
		ID:          "C10",
		Level:       "model_checking",
		Technique:   "exhaustive enumeration of (limit x declared length x message type x position in the exchange) on a real server with a zero-generating transport and a live-heap monitor, plus the same boundary enumeration directly on buffer.Reader; within-limit cases are judged differentially against a large limit, oversized cases against the protocol rule",
		Rule:        "limits 12..40, 4095, 4096, 4097, 65536, 0 and -1 (default 16 MiB); body sizes {0,1,L-1,L,L+1,L+2,2L,2L+1,3L+7}, raw declared lengths 0..3, and 2^16, 2^31-5, 2^31-4, 2^32-5 for L >= 4096; all 13 client types + an unknown type; oversized start-up / password messages of which only the header is sent (the connection ends at once); several oversized messages of different sizes in one session; values spanning several within-limit CopyData messages; positions startup / password / first message / between queries / after Parse / inside COPY / inside a TLS-upgraded session (limits 1 KiB, 8 KiB, 20000; Query and Bind bodies of L-1, L, L+1, 2L, 16383..16385, 20000, 70000 bytes; differential against the plaintext session); every message is followed by a probe query",
		Assumptions: []string{"not asserted: a ReadyForQuery after the 54000 error; continue-or-close after a sub-minimum length", "live heap is sampled (forced GC) at the first 8 and every 2048th transport read while the message is in flight"},
		Enumerate:   c10Enumerate,
		Bounds: func(tier string) map[string]any {
			return map[string]any{"limits": c10Limits(tier), "types": string(c10Types)}
		},
		RequiredOutcomes: []string{"within-limit", "oversized-session", "oversized-handshake", "sub-minimum", "direct-reader", "tls-session"},
	})
}

// c10RunHeaderOnly: during start-up or authentication an oversized message "ends the connection instead": the
// declared length alone decides, the server does not wait for (or read) a body the client may never send.
func c10RunHeaderOnly(limit int, pos string, declared uint32) explore.Result {
	var res explore.Result
	res.Outcome = "oversized-handshake"
	res.Key = fmt.Sprint("header-only", limit, pos, declared)
	one, rec, err := c10Session(limit, pos == "password")
	if err != nil {
		res.Engine = err.Error()
		return res
	}
	defer one.Stop()
	var head []byte
	switch pos {
	case "startup":
		head = pgproto.Be32(declared)
	case "startup after a declined SSLRequest":
		if out, _ := one.Step(pgproto.SSLRequest()); string(out) != "N" {
			res.Engine = fmt.Sprintf("SSLRequest answered % x", out)
			return res
		}
		head = pgproto.Be32(declared)
	case "password":
		if out, _ := one.Step(pgproto.Startup("user", "u")); harness.Kinds(out) != "R" {
			res.Engine = "password request expected, got " + harness.Kinds(out)
			return res
		}
		head = append([]byte{'p'}, pgproto.Be32(declared)...)
	}
	_, st := one.Step(head) // only the header: the body is withheld, the client stays connected
	what := fmt.Sprintf("limit %d, %s: header declaring %d bytes, nothing else sent", limit, pos, declared)
	if st != memnet.Closed {
		res.Fail("oversized-handshake-not-ended", fmt.Sprintf("%s: the connection is %s (the server waits for the body of a message it will never accept)", what, st))
	}
	if cb := evKinds(rec.Evs); len(cb) > 0 {
		res.Fail("oversized-handshake-callbacks", fmt.Sprintf("%s: callbacks %v", what, cb))
	}
	res.Trans = []string{pos + "|oversized header only|closed"}
	return res
}

func c10RunDiscarding(limit, body int, failing string) explore.Result {
	var res explore.Result
	res.Outcome = "oversized-session"
	res.Key = fmt.Sprint("discarding", limit, body, failing)
	frame := pgproto.Cat(pgproto.Sync(), pgproto.Query(c03Smuggled))
	payload := bytes.Repeat(frame, body/len(frame)+1)[:body]
	var fail []byte
	switch failing {
	case "Parse(#perr)":
		fail = pgproto.Parse("", "#perr")
	case "Bind(unknown statement)":
		fail = pgproto.Bind("", "nope", nil, nil, nil)
	default:
		fail = pgproto.Execute("nope", 0)
	}
	stream := pgproto.Cat(pgproto.Startup("user", "u"), fail, pgproto.Msg('B', payload), pgproto.Sync(), pgproto.Query(progRows))
	o := c04RunLimit(false, c04Feed{Stream: stream}, false, limit)
	what := fmt.Sprintf("limit %d: %s fails, then a Bind message with a %d-byte body (a run of framed Sync + Query messages), Sync, probe query", limit, failing, body)
	if o.engine != "" {
		res.Engine = o.engine
		return res
	}
	for _, e := range o.events {
		if strings.Contains(e, c03Smuggled) {
			res.Fail("oversized-not-skipped", fmt.Sprintf("%s: bytes of the oversized body were executed as messages: %v", what, o.events))
			return res
		}
	}
	k := harness.Kinds(o.out)
	if i := strings.IndexByte(k, 'Z'); i >= 0 {
		k = k[i+1:]
	}
	// (whether the 54000 error is followed by a ReadyForQuery of its own is not asserted, see the assumptions)
	if z := strings.Count(k, "Z"); !strings.HasSuffix(k, "ZTDCZ") || z < 2 || z > 3 {
		res.Fail("oversized-reply", fmt.Sprintf("%s: the session was answered %q (expected the error(s), the ReadyForQuery of the one real Sync, then the probe served normally)", what, k))
	}
	res.Trans = []string{"discarding|oversized|discarding"}
	return res
}

// c10RunSeveral: oversized Query messages whose bodies are runs of framed "smuggled" queries, then a probe.
func c10RunSeveral(limit int, bodies []int) explore.Result {
	var res explore.Result
	res.Outcome = "oversized-session"
	res.Key = fmt.Sprint("several", limit, bodies)
	frame := pgproto.Query(c03Smuggled)
	stream := pgproto.Startup("user", "u")
	n := 0
	for _, b := range bodies {
		if b == 0 {
			continue
		}
		n++
		payload := bytes.Repeat(frame, b/len(frame)+1)[:b]
		stream = append(stream, pgproto.Msg('Q', payload)...)
	}
	stream = append(stream, pgproto.Query(progRows)...)
	o := c04RunLimit(false, c04Feed{Stream: stream}, false, limit)
	what := fmt.Sprintf("limit %d, oversized Query messages with bodies of %v bytes (each a run of framed queries), then a probe query", limit, bodies)
	if o.engine != "" {
		res.Engine = o.engine
		return res
	}
	if o.status != memnet.Closed {
		res.Fail("not-closed-after-eof", fmt.Sprintf("%s: connection is %s", what, o.status))
	}
	for _, e := range o.events {
		if strings.Contains(e, c03Smuggled) {
			res.Fail("oversized-not-skipped", fmt.Sprintf("%s: bytes of an oversized body were executed as messages: %v", what, o.events))
			return res
		}
	}
	k := harness.Kinds(o.out)
	if i := strings.IndexByte(k, 'Z'); i >= 0 {
		k = k[i+1:] // after the start-up
	}
	if strings.Count(k, "E") != n || !strings.HasSuffix(k, "TDCZ") {
		res.Fail("oversized-reply", fmt.Sprintf("%s: the session was answered %q: expected one 54000 error per oversized message (%d) and the probe served normally", what, k, n))
	}
	res.Trans = []string{fmt.Sprintf("session|%d oversized|session", n)}
	return res
}

// c10RunMany: n oversized messages in ONE session (optionally a served query between any two): every one of them is
// answered with its own non-fatal error, whatever its position, and the session goes on.
func c10RunMany(limit, n int, between bool) explore.Result {
	var res explore.Result
	res.Outcome = "oversized-session"
	res.Key = fmt.Sprint("many", limit, n, between)
	stream := pgproto.Startup("user", "u")
	want := ""
	for i := 0; i < n; i++ {
		stream = append(stream, pgproto.Msg([]byte{'Q', 'P', 'B', 'd'}[i%4], make([]byte, limit+1+i%5))...)
		want += "EZ"
		if between {
			stream = append(stream, pgproto.Query(progRows)...)
			want += "TDCZ"
		}
	}
	stream = append(stream, pgproto.Query(progRows)...)
	want += "TDCZ"
	o := c04RunLimit(false, c04Feed{Stream: stream}, false, limit)
	what := fmt.Sprintf("limit %d, %d oversized messages in one session (a served query between them: %v), then a probe query", limit, n, between)
	if o.engine != "" {
		res.Engine = o.engine
		return res
	}
	if o.status != memnet.Closed {
		res.Fail("not-closed-after-eof", fmt.Sprintf("%s: connection is %s", what, o.status))
	}
	k := harness.Kinds(o.out)
	if i := strings.IndexByte(k, 'Z'); i >= 0 {
		k = k[i+1:] // after the start-up
	}
	if strings.Count(k, "E") != n || !strings.HasSuffix(k, "TDCZ") || strings.Count(k, "TDCZ") != strings.Count(want, "TDCZ") {
		res.Fail("oversized-reply", fmt.Sprintf("%s: the session was answered %q: expected one 54000 error per oversized message (%d), every query and the probe served normally", what, k, n))
	}
	res.Trans = []string{fmt.Sprintf("session|%d oversized|session", n)}
	return res
}

func c10Enumerate(tier string, emit explore.Emit) {
	// every count of oversized messages in one session up to 64 (thorough 600): the position in the session is irrelevant
	{
		top := 64
		if tier == "thorough" {
			top = 600
		}
		for _, l := range []int{32, 1024} {
			for n := 4; n <= top; n++ {
				for _, between := range []bool{false, true} {
					l, n, between := l, n, between
					emit(explore.Case{Family: "several-oversized", Size: 4,
						Desc: func() any {
							return map[string]any{"limit": l, "oversized_messages_in_one_session": n, "served_query_between": between}
						},
						Run: func() explore.Result { return c10RunMany(l, n, between) }})
				}
			}
		}
	}
	// position "inside a TLS-upgraded session": the limit applies there exactly as on a plaintext connection
	// (differential against the plaintext session, whose conformance the families below establish)
	tlsLimits := []int{1024, 8192, 20000}
	if tier == "thorough" {
		tlsLimits = []int{64, 1024, 4096, 8192, 16384, 20000, 65536, 1 << 20}
	}
	for _, c := range c11SizedCases(tlsLimits) {
		if c.Cfg != "certs" {
			continue
		}
		c := c
		emit(explore.Case{Family: "tls-session", Size: 3, Desc: func() any { return c.String() }, Run: func() explore.Result {
			r := c11Run(c)
			r.Outcome = "tls-session"
			return r
		}})
	}
	// every CopyData message is within the limit although the value they carry together is not: all are processed
	for _, cfg := range c14BigValueConfigs() {
		cfg := cfg
		emit(explore.Case{Family: "copy-value-spanning-messages", Size: 2,
			Desc: func() any {
				return map[string]any{"message_limit": cfg.limit, "text_value_bytes": cfg.size, "copydata_chunk": cfg.chunk}
			},
			Run: func() explore.Result {
				r := c14BigValue(cfg)
				r.Outcome = "within-limit"
				return r
			}})
	}
	for _, l := range []int{64, 4096, 65536} {
		for _, pos := range []string{"startup", "startup after a declined SSLRequest", "password"} {
			for _, d := range []uint32{uint32(l) + 5, uint32(2*l) + 4, 1 << 24, 1<<31 - 1, 1<<32 - 1} {
				l, pos, d := l, pos, d
				emit(explore.Case{Family: "oversized-handshake-header-only", Size: 1,
					Desc: func() any {
						return map[string]any{"limit": l, "position": pos, "declared_length": d, "sent": "header only"}
					},
					Run: func() explore.Result { return c10RunHeaderOnly(l, pos, d) }})
			}
		}
	}
	// an oversized message arriving while the session discards everything up to the next Sync (after a failed
	// extended-query message): it is skipped in full all the same, its body is never interpreted
	for _, l := range []int{32, 1024} {
		for _, d := range []int{l + 1, l + 22, 2*l + 1} {
			for _, failing := range []string{"Parse(#perr)", "Bind(unknown statement)", "Execute(unknown portal)"} {
				l, d, failing := l, d, failing
				emit(explore.Case{Family: "oversized-while-discarding", Size: 3,
					Desc: func() any { return map[string]any{"limit": l, "oversized_body": d, "failed_message_before": failing} },
					Run:  func() explore.Result { return c10RunDiscarding(l, d, failing) }})
			}
		}
	}
	for _, l := range []int{20000, 65536, 1 << 20} {
		for _, body := range []int{9999, 10000, 10001, 16384, l - 1, l} {
			l, body := l, body
			emit(explore.Case{Family: "after-refused-ssl", Size: 2,
				Desc: func() any {
					return map[string]any{"limit": l, "query_body": body, "session": "SSLRequest (refused), start-up, Query, probe"}
				},
				Run: func() explore.Result {
					var res explore.Result
					res.Outcome = "within-limit"
					res.Key = fmt.Sprint("after-ssl", l, body)
					q := progRows + strings.Repeat(" ", body-len(progRows)-1)
					stream := pgproto.Cat(pgproto.SSLRequest(), pgproto.Startup("user", "u"), pgproto.Query(q), pgproto.Query(progRows))
					o := c04RunLimit(false, c04Feed{Stream: stream}, false, l)
					if o.engine != "" {
						res.Engine = o.engine
						return res
					}
					k := harness.Kinds(o.out[1:])
					if i := strings.IndexByte(k, 'Z'); i >= 0 {
						k = k[i+1:]
					}
					if len(o.out) == 0 || o.out[0] != 'N' || k != "TDCZTDCZ" {
						res.Fail("within-limit-rejected", fmt.Sprintf("limit %d, connection that first sent a (refused) SSLRequest: a Query with a %d-byte body and a probe were answered %q (expected both to be served)", l, body, k))
					}
					return res
				}})
		}
	}
	// several oversized messages of different sizes in one session: each is skipped in full by ITS declared length
	for _, l := range []int{32, 1024} {
		sizes := []int{l + 1, l + 9, l + 22, 2*l + 1, 3*l + 7}
		for _, d1 := range sizes {
			for _, d2 := range sizes {
				for _, d3 := range []int{0, l + 14} {
					l, d1, d2, d3 := l, d1, d2, d3
					emit(explore.Case{Family: "several-oversized", Size: 3,
						Desc: func() any { return map[string]any{"limit": l, "oversized_body_sizes": []int{d1, d2, d3}} },
						Run:  func() explore.Result { return c10RunSeveral(l, []int{d1, d2, d3}) }})
				}
			}
		}
	}
	add := func(c c10Case) {
		emit(explore.Case{Family: c.Pos, Size: 1, Desc: func() any { return c.String() }, Run: func() explore.Result { return c10Run(c) }})
	}
	positions := []string{"first", "between", "batch", "copy"}
	for _, l := range c10Limits(tier) {
		for _, d := range c10Sizes(l) {
			for _, t := range c10Types {
				for _, pos := range positions {
					if pos == "copy" && t != 'd' {
						continue
					}
					if tier != "thorough" && l > 20 && l < 4095 && pos != "first" && t != 'Q' && t != 'B' {
						continue
					}
					add(c10Case{Limit: l, Type: t, Declared: uint32(d + 4), Pos: pos})
				}
			}
			add(c10Case{Limit: l, Type: 0, Declared: uint32(d + 4), Pos: "startup"})
			add(c10Case{Limit: l, Type: 'p', Declared: uint32(d + 4), Pos: "password"})
		}
		for decl := uint32(0); decl < 4; decl++ {
			for _, pos := range []string{"first", "batch", "startup", "password"} {
				for _, t := range []byte("QSdz") {
					if pos == "startup" && t != 'Q' {
						continue
					}
					add(c10Case{Limit: l, Type: t, Declared: decl, Pos: pos})
				}
			}
		}
	}
	// tiny limits: only the startup packet can be studied
	for l := 5; l < 12; l++ {
		for _, d := range c10Sizes(l) {
			add(c10Case{Limit: l, Type: 0, Declared: uint32(d + 4), Pos: "startup"})
		}
	}
	// huge declared sizes (zero-generated, never materialised)
	hugeL := []int{65536}
	if tier == "thorough" {
		hugeL = []int{4096, 65536}
	}
	for _, l := range hugeL {
		for _, d := range []int64{1 << 16, 1<<31 - 5, 1<<31 - 4, 1<<32 - 5} {
			if l == 65536 && d == 1<<16 {
				continue // equals the limit: covered above
			}
			for _, pos := range []string{"first", "batch", "copy", "startup", "password"} {
				t := byte('Q')
				if pos == "copy" {
					t = 'd'
				}
				if tier != "thorough" && d > 1<<31 && pos != "first" {
					continue
				}
				add(c10Case{Limit: l, Type: t, Declared: uint32(d + 4), Pos: pos})
			}
		}
	}
	// default limit (non-positive setting = 16 MiB)
	for _, l := range []int{0, -1} {
		for _, d := range []int64{1<<24 - 1, 1 << 24, 1<<24 + 1, 1 << 25} {
			add(c10Case{Limit: l, Type: 'Q', Declared: uint32(d + 4), Pos: "first"})
		}
		add(c10Case{Limit: l, Type: 0, Declared: uint32(1<<24 + 5), Pos: "startup"})
	}
	// direct reader
	for _, l := range append(c10Limits(tier), 0, -1, 1, 5) {
		ds := c10Sizes(effLimit(l))
		if effLimit(l) >= 4096 {
			ds = append(ds, 1<<31-5, 1<<32-5)
		}
		for _, d := range ds {
			l, d := l, d
			emit(explore.Case{Family: "direct-reader", Size: 1,
				Desc: func() any { return fmt.Sprintf("buffer.Reader limit=%d body=%d", l, d) },
				Run:  func() explore.Result { return c10RunDirect(l, d) }})
		}
	}
}
