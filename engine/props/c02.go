package props

import (
	"bytes"
	"context"
	"errors"
	"fmt"
	"strings"

	wire "github.com/jeroenrinzema/psql-wire"
	"github.com/jeroenrinzema/psql-wire/pkg/buffer"
	"github.com/jeroenrinzema/psql-wire/pkg/types"
	"verif/engine/explore"
	"verif/engine/harness"
	"verif/engine/memnet"
	"verif/engine/pgproto"
	"verif/engine/script"
)

// C02 — Every byte the server sends is a well-formed backend message.

// ---- F1: frame writer state machine (direct on buffer.Writer) -----------------

type faultySink struct {
	writes   [][]byte
	failAt   int // k-th write fails (0 = never)
	short    bool
	n        int
	recovers bool // only the k-th write fails
	timeout  bool // the failure is an expired write deadline (net.Error, Timeout() == true)
}

var errSink = errors.New("sink failure")

type sinkTimeout struct{}

func (sinkTimeout) Error() string   { return "sink: i/o timeout" }
func (sinkTimeout) Timeout() bool   { return true }
func (sinkTimeout) Temporary() bool { return true }

func (s *faultySink) err() error {
	if s.timeout {
		return sinkTimeout{}
	}
	return errSink
}

func (s *faultySink) Write(p []byte) (int, error) {
	s.n++
	if s.failAt > 0 && (s.n == s.failAt || (!s.recovers && s.n > s.failAt)) {
		if s.short {
			s.writes = append(s.writes, append([]byte("SHORT:"), p[:len(p)/2]...))
			return len(p) / 2, s.err()
		}
		return 0, s.err()
	}
	s.writes = append(s.writes, append([]byte(nil), p...))
	return len(p), nil
}

var c02WriterOps = []string{"Start(D)", "AddInt16", "End", "AddString(ab)", "Start(Z)", "AddByte", "AddInt32", "AddBytes(3)", "AddNullTerminate", "Reset", "AddBytes(0)", "AddString()", "Error"}

func c02RunWriter(ops []int, failAt int, short, recovers bool, timeout ...bool) explore.Result {
	var res explore.Result
	res.Outcome = "writer"
	sink := &faultySink{failAt: failAt, short: short, recovers: recovers, timeout: len(timeout) > 0 && timeout[0]}
	w := buffer.NewWriter(harness.Quiet, sink)
	var model []byte // body of the open frame
	var mtype byte
	open := false
	var wantWrites [][]byte
	ends := 0
	state := func() string {
		l := len(model)
		if l > 4 {
			l = 4
		}
		return fmt.Sprintf("open=%v bodylen=%d sinkfail=%v", open, l, failAt > 0 && ends >= failAt)
	}
	names := make([]string, len(ops))
	for i, oi := range ops {
		op := c02WriterOps[oi]
		names[i] = op
		prev := state()
		switch op {
		case "Start(D)", "Start(Z)":
			mtype = op[6]
			model = model[:0]
			open = true
			w.Start(types.ServerMessage(mtype))
		case "Reset":
			open = false
			model = model[:0]
			w.Reset()
		case "Error":
			if err := w.Error(); err != nil {
				res.Fail("writer-latched-error", fmt.Sprintf("ops %v: Error() = %v although every frame write succeeded in memory", names[:i+1], err))
			}
		default:
			if !open {
				return explore.Result{Outcome: "skip"} // outside the documented Start..End bracket
			}
			switch op {
			case "AddByte":
				w.AddByte(7)
				model = append(model, 7)
			case "AddInt16":
				w.AddInt16(-2)
				model = append(model, 0xff, 0xfe)
			case "AddInt32":
				w.AddInt32(258)
				model = append(model, 0, 0, 1, 2)
			case "AddBytes(3)":
				w.AddBytes([]byte{1, 2, 3})
				model = append(model, 1, 2, 3)
			case "AddBytes(0)":
				w.AddBytes(nil)
			case "AddString(ab)":
				w.AddString("ab")
				model = append(model, 'a', 'b')
			case "AddString()":
				w.AddString("")
			case "AddNullTerminate":
				w.AddNullTerminate()
				model = append(model, 0)
			case "End":
				ends++
				frame := pgproto.Msg(mtype, model)
				err := w.End()
				failing := failAt > 0 && (ends == failAt || (!recovers && ends > failAt))
				if failing && short && recovers && err == nil && len(sink.writes) == len(wantWrites)+2 && bytes.Equal(sink.writes[len(sink.writes)-1], frame[len(frame)/2:]) {
					// (a writer that completes a partially accepted frame with exactly its remainder delivers a whole message)
					wantWrites = append(wantWrites, append([]byte("SHORT:"), frame[:len(frame)/2]...), frame[len(frame)/2:])
				} else if failing {
					if err == nil {
						res.Fail("writer-end-error-lost", fmt.Sprintf("ops %v: the sink failed but End returned nil", names[:i+1]))
					}
					if short {
						wantWrites = append(wantWrites, append([]byte("SHORT:"), frame[:len(frame)/2]...))
					}
				} else {
					if err != nil {
						res.Fail("writer-end-error", fmt.Sprintf("ops %v: End returned %v on a healthy sink", names[:i+1], err))
					}
					wantWrites = append(wantWrites, frame)
				}
				open = false
				model = model[:0]
			}
		}
		res.Trans = append(res.Trans, prev+"|"+strings.SplitN(op, "(", 2)[0]+"|"+state())
		// invariant after every step: what reached the sink is exactly the completed frames, one Write each
		if len(sink.writes) != len(wantWrites) {
			res.Fail("writer-sink-bytes", fmt.Sprintf("ops %v (sink fail at %d): sink received %d writes, model %d", names[:i+1], failAt, len(sink.writes), len(wantWrites)))
			return res
		}
		for k := range wantWrites {
			if !bytes.Equal(sink.writes[k], wantWrites[k]) {
				res.Fail("writer-sink-bytes", fmt.Sprintf("ops %v (sink fail at %d): write %d is % x, model % x", names[:i+1], failAt, k, sink.writes[k], wantWrites[k]))
				return res
			}
		}
	}
	res.Key = fmt.Sprint(names, failAt, short, recovers)
	return res
}

// ---- F3: sessions with odd handler vocabulary ---------------------------------

var c02ColNames = []string{"é", "", strings.Repeat("n", 70)}

// c02Extra adds decorated-error ops "E<mask>" (6-bit subset of the decorators) and the COPY policies.
func c02Extra(ctx context.Context, r *script.Rec, stmt int, op string, w wire.DataWriter, params []wire.Parameter) (bool, error) {
	if strings.HasPrefix(op, "E") && len(op) > 1 {
		var mask int
		fmt.Sscanf(op[1:], "%d", &mask)
		ds := decorators()
		pick := []int{0, 2, 4, 6, 8, 13} // code, severity, hint, detail, constraint, source(line 42)
		var shape []int
		for i, p := range pick {
			if mask>>i&1 == 1 {
				shape = append(shape, p)
			}
		}
		return true, &script.ReturnErr{Err: buildErr(ds, "decorated é", shape)}
	}
	return copyHandler(ctx, r, stmt, op, w, params)
}

type c02Session struct {
	Name string
	Opts []wire.OptionFn
	Segs [][]byte
	SSL  bool // the first reply byte is the SSL answer
	// Params: statements declare the parameters ParseParameters finds in their text
	Params bool
	// ColNames, when set, replaces the default odd column names
	ColNames []string
}

func c02Sessions(tier string) []c02Session {
	var out []c02Session
	start := pgproto.Startup("user", "ü", "application_name", "")
	simple := func(name, prog string) {
		out = append(out, c02Session{Name: "simple " + name, Segs: [][]byte{start, pgproto.Query(prog), pgproto.Query(progRows)}})
	}
	ext := func(name string, msgs ...[]byte) {
		segs := [][]byte{start}
		segs = append(segs, msgs...)
		segs = append(segs, pgproto.Sync(), pgproto.Query(progRows))
		out = append(out, c02Session{Name: "extended " + name, Segs: segs})
	}
	// (a) result-writer programs with odd column names and tags
	tags := []string{"c=", "c=SELECT 1", "c=@300", "c=@63", "c=@64", "c=@65"}
	ops := []string{"r", "n", "a-", "a+", "u", "U", "e", "w"}
	for nc := 0; nc <= 3; nc++ {
		depth := 2
		if tier == "thorough" {
			depth = 3
		}
		forShapes(len(ops), depth, func(sh []int) {
			var p []string
			for _, s := range sh {
				p = append(p, ops[s])
			}
			for ti, tag := range tags {
				if tier != "thorough" && len(sh) == 2 && ti != (sh[0]+sh[1])%3 {
					continue
				}
				prog := fmt.Sprintf("%d:%s", nc, strings.Join(append(append([]string(nil), p...), tag), ","))
				simple(prog, prog)
				if len(sh) <= 1 {
					ext(prog, pgproto.Parse("", prog), pgproto.Bind("", "", nil, nil, []int16{1}), pgproto.Describe('P', ""), pgproto.Describe('S', ""), pgproto.Execute("", 0))
				}
			}
		})
		// multi statement and abandoned frame followed by an error
		simple(fmt.Sprintf("abandoned-then-error/%d", nc), fmt.Sprintf("%d:r,U,!boom", nc))
		simple(fmt.Sprintf("multi/%d", nc), fmt.Sprintf("%d:r,c=A|%d:u,r,c=@300|0:c=", nc, nc))
	}
	// (b) errors with every subset of the six decorators, simple and extended, parser errors
	for mask := 0; mask < 64; mask++ {
		prog := fmt.Sprintf("1:r,E%d", mask)
		simple(prog, prog)
		ext(prog, pgproto.Parse("", prog), pgproto.Bind("", "", nil, nil, nil), pgproto.Execute("", 0), pgproto.Parse("x", progRows))
	}
	simple("parser error", "#perr")
	simple("zero statements", "#zero")
	simple("blank", " ")
	// (c) extended histories (C06 alphabet)
	full, _, _ := c06Alphabet()
	d := 2
	forShapes(len(full), d, func(sh []int) {
		if len(sh) == 0 {
			return
		}
		var msgs [][]byte
		var names []string
		for _, s := range sh {
			msgs = append(msgs, full[s].Bytes)
			names = append(names, full[s].Name)
		}
		ext(strings.Join(names, " "), msgs...)
	})
	// (d) startup / global parameters with empty and non-ASCII values, auth on/off
	for _, g := range []wire.Parameters{nil, {"": ""}, {"k": ""}, {"clé": "välue", "server_version": ""}} {
		for _, auth := range []string{"none", "good", "bad"} {
			g, auth := g, auth
			opts := []wire.OptionFn{wire.GlobalParameters(g), wire.Version("15.0 (é)")}
			segs := [][]byte{pgproto.Startup("user", "", "database", "dé", "x", "")}
			if auth != "none" {
				opts = append(opts, wire.SessionAuthStrategy(wire.ClearTextPassword(func(ctx context.Context, db, u, pw string) (context.Context, bool, error) {
					return ctx, pw == "good", nil
				})))
				segs = append(segs, pgproto.Password(auth))
			}
			segs = append(segs, pgproto.Query(progRows))
			out = append(out, c02Session{Name: fmt.Sprintf("startup global=%v auth=%s", g, auth), Opts: opts, Segs: segs})
		}
	}
	out = append(out, c02Session{Name: "ssl refused then session", SSL: true, Segs: [][]byte{pgproto.SSLRequest(), start, pgproto.Query(progRows)}})
	// (e) COPY: CopyInResponse for 1-3 columns x both formats, short COPY sequences
	cl := c13Letters()
	for nc := 1; nc <= 3; nc++ {
		for _, f := range []string{"t", "b"} {
			for _, policy := range []string{"drain", "take1", "fail1"} {
				forShapes(len(cl), 2, func(sh []int) {
					if tier != "thorough" && len(sh) == 2 && (sh[0]+sh[1]+nc)%3 != 0 {
						return
					}
					prog := fmt.Sprintf("%d:copy%s:%s", nc, f, policy)
					segs := [][]byte{start, pgproto.Query(prog)}
					var names []string
					for _, s := range sh {
						segs = append(segs, cl[s].Bytes)
						names = append(names, cl[s].Name)
					}
					segs = append(segs, pgproto.CopyDone(), pgproto.Sync(), pgproto.Query(progRows))
					out = append(out, c02Session{Name: fmt.Sprintf("copy %s %v", prog, names), Segs: segs})
				})
			}
		}
	}
	// (f) oversized / unknown / terminate
	// (h) column names and command tags of every length around the writer's internal buffer sizes
	for _, n := range c05TagLengths() {
		if n == 0 || n > 300 {
			continue
		}
		out = append(out, c02Session{Name: fmt.Sprintf("column name and tag of %d bytes", n), ColNames: []string{strings.Repeat("n", n)},
			Segs: [][]byte{start, pgproto.Query(fmt.Sprintf("1:r,c=@%d", n)), pgproto.Parse("", fmt.Sprintf("1:r,c=@%d", n)), pgproto.Bind("", "", nil, nil, nil), pgproto.Describe('P', ""), pgproto.Execute("", 0), pgproto.Sync()}})
	}
	// (j) rows larger than everything the connection has written before (the frame has to grow while a value is
	// being added), in both protocols, the same row twice; a statement / portal described again and again
	for _, size := range []int{4000, 4090, 4096, 4100, 6400, 9000, 70000} {
		for _, nc := range []int{1, 3} {
			q := fmt.Sprintf("%d:r,R%d,r,R%d,c=T", nc, size, size)
			out = append(out, c02Session{Name: fmt.Sprintf("row with a %d-byte value, %d columns", size, nc), Opts: []wire.OptionFn{wire.MessageBufferSize(1 << 20)},
				Segs: [][]byte{start, pgproto.Query(q), pgproto.Parse("", q), pgproto.Bind("", "", nil, nil, []int16{1}), pgproto.Execute("", 0), pgproto.Sync(), pgproto.Query(q)}})
		}
	}
	for _, nc := range []int{0, 1, 3} {
		q := fmt.Sprintf("%d:r,c=T $1 $2", nc)
		d := [][]byte{pgproto.Describe('S', "s"), pgproto.Sync()}
		segs := [][]byte{start, pgproto.Parse("s", q), pgproto.Sync()}
		for i := 0; i < 3; i++ {
			segs = append(segs, d...)
		}
		segs = append(segs, pgproto.Bind("p", "s", nil, [][]byte{[]byte("a"), []byte("b")}, nil), pgproto.Describe('P', "p"), pgproto.Describe('S', "s"), pgproto.Describe('P', "p"), pgproto.Describe('S', "s"), pgproto.Sync())
		out = append(out, c02Session{Name: fmt.Sprintf("statement and portal of %d columns described again and again", nc), Params: true, Segs: segs})
	}
	// (i) statements declaring very many parameters (counts around the int16 / uint16 boundaries of the count word)
	for _, n := range []int{1, 255, 256, 32767, 32768, 40000, 65535} {
		q := fmt.Sprintf("1:r,c=T $%d", n)
		out = append(out, c02Session{Name: fmt.Sprintf("statement declaring %d parameters", n), Params: true, Opts: []wire.OptionFn{wire.MessageBufferSize(1 << 20)},
			Segs: [][]byte{start, pgproto.Parse("s", q), pgproto.Describe('S', "s"), pgproto.Sync(), pgproto.Query(progRows)}})
	}
	// (l) a statement is parsed, then more than an allocation granule (4 KiB, 8 KiB) of other messages arrives, then it
	// is executed: its command tag / error text (texts the handler was handed long ago) must still be well-formed
	for _, prog := range []string{"1:r,c=RETAINED-TAG-0123456789", "1:r,!retained error text 0123456789", "1:r,E63"} {
		for _, f := range [][2]int{{25, 200}, {3, 1500}, {60, 150}, {12, 1000}} {
			// (the messages in between are Binds of a value of zero bytes: whatever they overwrite turns into NULs)
			segs := [][]byte{start, pgproto.Parse("s", prog), pgproto.Parse("z", "0:c=Z $1"), pgproto.Sync()}
			for i := 0; i < f[0]; i++ {
				segs = append(segs, pgproto.Bind("zp", "z", nil, [][]byte{make([]byte, f[1])}, nil))
			}
			segs = append(segs, pgproto.Bind("", "s", nil, nil, nil), pgproto.Describe('P', ""), pgproto.Execute("", 0), pgproto.Sync(), pgproto.Query(prog))
			out = append(out, c02Session{Name: fmt.Sprintf("statement %q executed after %d Bind messages carrying %d zero bytes each", prog, f[0], f[1]), Params: true, Segs: segs})
		}
	}
	// (m) every number of result-format codes 0..4 for a statement of three columns (too few, too many): whatever the
	// server says, a RowDescription carries as many fields as it announces
	for k := 0; k <= 4; k++ {
		for _, bin := range []int16{0, 1} {
			rf := make([]int16, k)
			for i := range rf {
				rf[i] = (bin + int16(i)) % 2
			}
			prog := "3:r,c=T"
			ext(fmt.Sprintf("three columns, %d result-format codes starting with %d", k, bin), pgproto.Parse("", prog), pgproto.Bind("", "", nil, nil, rf), pgproto.Describe('P', ""), pgproto.Execute("", 0), pgproto.Describe('S', ""))
		}
	}
	// (n) start-up packets asking for a later minor protocol version, with and without protocol options
	for _, minor := range []uint32{1, 2, 99} {
		for _, kv := range [][]string{{"user", "ü"}, {"user", "ü", "_pq_.feature", "on"}, {"_pq_.a", "1", "_pq_.b", "2", "user", "x"}} {
			body := pgproto.Be32(3<<16 | minor)
			for _, s := range kv {
				body = append(body, pgproto.CStr(s)...)
			}
			body = append(body, 0)
			out = append(out, c02Session{Name: fmt.Sprintf("start-up asking for protocol 3.%d with parameters %q", minor, kv), Segs: [][]byte{pgproto.Untyped(body), pgproto.Query(progRows)}})
		}
	}
	// (k) more than one encryption request before the start-up packet: after the ONE answer byte only messages follow
	for i, segs := range [][][]byte{
		{pgproto.SSLRequest(), pgproto.SSLRequest(), start, pgproto.Query(progRows)},
		{pgproto.SSLRequest(), pgproto.Untyped([]byte{0x04, 0xd2, 0x16, 0x30}), start, pgproto.Query(progRows)},
		{pgproto.SSLRequest(), pgproto.SSLRequest(), pgproto.SSLRequest(), start},
		{pgproto.Cat(pgproto.SSLRequest(), pgproto.SSLRequest(), start, pgproto.Query(progRows))},
	} {
		out = append(out, c02Session{Name: fmt.Sprintf("repeated encryption requests (variant %d)", i), SSL: true, Segs: segs})
	}
	// (g) single bytes chosen by the client that select a sub-command or a message type: every value, known or not
	// (whatever the server says about an unknown one must still be a well-formed message)
	for b := 0; b < 256; b++ {
		tail := [][]byte{pgproto.Sync(), pgproto.Query(progRows)}
		mk := func(name string, m []byte) {
			out = append(out, c02Session{Name: fmt.Sprintf("%s 0x%02x", name, b), Segs: append([][]byte{start, pgproto.Parse("s", progRows), m}, tail...)})
		}
		mk("Describe with target byte", pgproto.Msg('D', pgproto.Cat([]byte{byte(b)}, pgproto.CStr("s"))))
		mk("Close with target byte", pgproto.Msg('C', pgproto.Cat([]byte{byte(b)}, pgproto.CStr("s"))))
		if !strings.ContainsRune("QPBEDCSHXdcfp", rune(b)) {
			mk("message of type", pgproto.Msg(byte(b), []byte("body\x00")))
		}
	}
	out = append(out, c02Session{Name: "oversized+unknown+terminate", Segs: [][]byte{start, oversizedMsg(), pgproto.Msg('z', []byte("zz")), pgproto.Msg('p', []byte("late\x00")), pgproto.Terminate()}})
	return out
}

func c02Serve(s c02Session, writeErrAt int) (*memnet.Conn, []string, string) {
	rec := &script.Rec{Extra: c02Extra, ColNames: c02ColNames}
	if s.ColNames != nil {
		rec.ColNames = s.ColNames
	}
	if s.Params {
		rec.StmtOpts = func(q string) []wire.PreparedOptionFn {
			return []wire.PreparedOptionFn{wire.WithParameters(wire.ParseParameters(q))}
		}
	}
	srv, err := harness.NewServer(rec.ParseFn(), s.Opts...)
	if err != nil {
		return nil, nil, err.Error()
	}
	mc := memnet.NewConn("mem:client1")
	mc.F.WriteErrAt = writeErrAt
	rec.Conn = mc
	c := srv.ConnectWith(mc)
	var kinds []string
	for _, seg := range s.Segs {
		out, st := c.Step(seg)
		kinds = append(kinds, fmt.Sprintf("%d bytes", len(out)))
		if st != memnet.Parked {
			break
		}
	}
	srv.Stop()
	return mc, kinds, ""
}

func c02CheckStream(res *explore.Result, s c02Session, mc *memnet.Conn, where string) int {
	raw := mc.Output()
	lens := mc.WriteLens()
	if s.SSL {
		if len(raw) == 0 {
			return 0 // the write of the SSL answer itself failed: nothing was delivered
		}
		if raw[0] != 'N' && raw[0] != 'S' {
			res.Fail("ssl-byte", fmt.Sprintf("%s %s: SSLRequest not answered with a single S/N byte: % x", s.Name, where, raw[:min(len(raw), 8)]))
			return 0
		}
		raw = raw[1:]
		if len(lens) > 0 && lens[0] == 1 {
			lens = lens[1:]
		}
	}
	ms, err := pgproto.ParseBackend(raw)
	if err != nil {
		res.Fail("malformed-backend-stream", fmt.Sprintf("%s %s: %v\n  messages before: %v", s.Name, where, err, tailStrings(pgproto.Strings(ms), 6)))
		return len(ms)
	}
	// each message is delivered by exactly one Write (so a failing write can never leave a partial message)
	if len(lens) != len(ms) {
		res.Fail("message-split-over-writes", fmt.Sprintf("%s %s: %d messages were delivered by %d writes", s.Name, where, len(ms), len(lens)))
	} else {
		for i, m := range ms {
			if lens[i] != len(m.Body)+5 {
				res.Fail("message-split-over-writes", fmt.Sprintf("%s %s: write %d carries %d bytes, message %d is %d bytes", s.Name, where, i, lens[i], i, len(m.Body)+5))
				break
			}
		}
	}
	return len(ms)
}

func tailStrings(s []string, n int) []string {
	if len(s) > n {
		return s[len(s)-n:]
	}
	return s
}

func c02RunSession(s c02Session, faults bool) explore.Result {
	var res explore.Result
	res.Outcome = "session"
	res.Key = s.Name
	mc, _, eng := c02Serve(s, 0)
	if eng != "" {
		res.Engine = eng
		return res
	}
	n := c02CheckStream(&res, s, mc, "(no fault)")
	res.States = []string{"session-ok"}
	res.Trans = []string{fmt.Sprintf("session|%s|parsed", strings.Fields(s.Name)[0])}
	if !faults || len(res.Violations) > 0 {
		return res
	}
	res.Outcome = "session+write-faults"
	writes := len(mc.WriteLens())
	for k := 1; k <= writes; k++ {
		mc2, _, eng := c02Serve(s, k)
		if eng != "" {
			res.Engine = eng
			return res
		}
		c02CheckStream(&res, s, mc2, fmt.Sprintf("(write %d of %d fails)", k, writes))
		res.Sub++
		if !mc2.IsClosed() {
			res.Fail("open-after-write-failure", fmt.Sprintf("%s: connection still open after write %d failed", s.Name, k))
		}
		if len(res.Violations) > 0 {
			break
		}
	}
	_ = n
	return res
}

func init() {
	explore.Register(&explore.Check{
		ID:          "C02",
		Level:       "model_checking",
		Technique:   "explicit-state enumeration of frame-writer operation sequences x sink faults on the real buffer.Writer against a list-of-frames model; exhaustive enumeration of sessions over an 'odd vocabulary' of handler programs and client histories on a real server, every captured byte stream parsed by an independent strict backend grammar; write-fault enumeration (every k-th write fails)",
		Rule:        "F1: all operation sequences of length <= d over 13 writer operations (within the Start..End bracket) x {healthy sink, k-th write fails (sticky / transient), short write}; F2: ErrorResponse shapes (C17 enumeration to depth 3); F3: ~3k sessions (result-writer programs x 0-3 columns with odd names x tags; 64 decorator subsets simple+extended; all extended histories of length <= 2 over the C06 alphabet; startup/global parameters with empty and non-ASCII values, auth none/good/bad; SSL refusal; COPY for 1-3 columns x 2 formats x 3 policies x short client sequences; oversized/unknown; rows with values of 4000..70000 bytes; repeated Describe of one statement / portal; every value 0..255 of the Describe / Close target byte and of the message type byte) and for every 3rd session every position of a failing write; F4: one-column rows over the whole C09 value alphabet (types x boundary values x source forms x NULL forms) x {text, binary}",
		Assumptions: []string{"handler-supplied strings contain no NUL byte (a C-string field cannot carry one)", "buffer.Writer is used inside its documented Start..End bracket"},
		Enumerate:   c02Enumerate,
		Bounds: func(tier string) map[string]any {
			return map[string]any{"writer_sequence_depth": c02Depth(tier), "sessions": len(c02Sessions(tier))}
		},
		RequiredOutcomes: []string{"writer", "session+write-faults", "error-shapes"},
		// schedule part: Close racing a connection that is half-way through a message (scenarios W1/W2: the row value yields to the scheduler while its DataRow frame is half built)
		After: explore.MergeSched("C02", false),
	})
}

// c02RunRetained: the handler answers with texts it was handed earlier (the query text given to the parser is
// echoed in the error / the command tag when the statement is finally executed). Between Parse and Execute the
// client binds the statement to further portals with values of 0xAB / zero bytes (`large` + n x `zeros` bytes):
// whatever the output carries, it is a well-formed message.
func c02RunRetained(mode string, large, zeros, n int) explore.Result {
	var res explore.Result
	res.Outcome = "session"
	res.Key = fmt.Sprint("retained", mode, large, zeros, n)
	parse := func(ctx context.Context, q string) (wire.PreparedStatements, error) {
		fail := strings.HasPrefix(q, "fail")
		return wire.Prepared(wire.NewStatement(func(ctx context.Context, w wire.DataWriter, params []wire.Parameter) error {
			if fail {
				return errors.New(q)
			}
			return w.Complete(q)
		}, wire.WithParameters(wire.ParseParameters(q)))), nil
	}
	one, err := harness.StartOne(parse)
	if err != nil {
		res.Engine = err.Error()
		return res
	}
	defer one.Stop()
	one.Step(pgproto.Startup("user", "u"))
	q := mode + ": retained query text $1 0123456789"
	one.Step(pgproto.Cat(pgproto.Parse("", q), pgproto.Bind("", "", nil, [][]byte{{0, 0, 0, 7}}, nil)))
	if large > 0 {
		one.Step(pgproto.Bind("large", "", nil, [][]byte{bytes.Repeat([]byte{0xAB}, large)}, nil))
	}
	for i := 0; i < n; i++ {
		one.Step(pgproto.Bind("zeros", "", nil, [][]byte{make([]byte, zeros)}, nil))
	}
	one.Step(pgproto.Cat(pgproto.Execute("", 0), pgproto.Sync()))
	one.Step(pgproto.Query(q))
	if ms, perr := pgproto.ParseBackend(one.C.Output()); perr != nil {
		res.Fail("malformed-backend-stream", fmt.Sprintf("a statement that echoes its query text (%s), bound to further portals with %d + %d x %d bytes of values before it is executed: %v\n  messages before: %v", mode, large, n, zeros, perr, tailStrings(pgproto.Strings(ms), 4)))
	}
	return res
}

func c02Depth(tier string) int {
	if tier == "thorough" {
		return 7
	}
	return 6
}

func c02Enumerate(tier string, emit explore.Emit) {
	type sinkMode struct {
		failAt          int
		short, recovers bool
		timeout         bool
	}
	modes := []sinkMode{{0, false, false, false}, {1, false, false, false}, {1, false, true, false}, {2, false, true, false}, {1, true, true, false}, {2, true, false, false},
		{1, true, true, true}, {2, true, true, true}, {1, false, true, true}}
	forShapes(len(c02WriterOps), c02Depth(tier), func(sh []int) {
		if len(sh) == 0 || !strings.HasPrefix(c02WriterOps[sh[0]], "Start") {
			return // every documented use begins with Start
		}
		ops := append([]int(nil), sh...)
		nEnd := 0
		for _, o := range ops {
			if c02WriterOps[o] == "End" {
				nEnd++
			}
		}
		for _, m := range modes {
			if m.failAt > nEnd {
				continue
			}
			m := m
			emit(explore.Case{Family: "writer", Size: len(ops),
				Desc: func() any {
					names := make([]string, len(ops))
					for i, o := range ops {
						names[i] = c02WriterOps[o]
					}
					return map[string]any{"ops": names, "sink_fails_at_write": m.failAt, "short_write": m.short, "transient": m.recovers, "timeout_kind": m.timeout}
				},
				Run: func() explore.Result { return c02RunWriter(ops, m.failAt, m.short, m.recovers, m.timeout) }})
		}
	})
	// F2
	ds := decorators()
	for _, base := range []string{"boom é", ""} {
		base := base
		forShapes(len(ds), 3, func(sh []int) {
			shape := append([]int(nil), sh...)
			emit(explore.Case{Family: "error-shapes", Size: len(shape),
				Desc: func() any { return map[string]any{"base_text": base, "shape_innermost_first": shapeNames(ds, shape)} },
				Run: func() explore.Result {
					var res explore.Result
					res.Outcome = "error-shapes"
					res.Key = fmt.Sprint("shape", base, shape)
					var sink bytes.Buffer
					wire.ErrorCode(buffer.NewWriter(harness.Quiet, &sink), buildErr(ds, base, shape))
					ms, err := pgproto.ParseBackend(sink.Bytes())
					if err != nil {
						res.Fail("malformed-backend-stream", fmt.Sprintf("ErrorCode(%q, %v): %v", base, shapeNames(ds, shape), err))
					} else if k := pgproto.Kinds(ms); k != "EZ" && k != "E" {
						res.Fail("malformed-backend-stream", fmt.Sprintf("ErrorCode(%q, %v) produced %q", base, shapeNames(ds, shape), k))
					}
					return res
				}})
		})
	}
	// F4: rows of every value of the C09 alphabet (all types, boundary values, source forms, NULL forms), text and
	// binary: whatever the value, the reply is a sequence of complete messages
	vals, nulls := c09Values(tier)
	for _, bin := range []bool{false, true} {
		var cells []c09Cell
		for _, v := range vals {
			for _, f := range v.Forms {
				cells = append(cells, c09Cell{v.Type, v.OID, f.Name, f.V, v.Canon})
			}
		}
		for _, n := range nulls {
			for _, f := range n.Forms {
				cells = append(cells, c09Cell{n.Type, n.OID, f.Name, f.V, "NULL"})
			}
		}
		for _, cell := range cells {
			cell, bin := cell, bin
			emit(explore.Case{Family: "typed-rows", Size: 1,
				Desc: func() any { return map[string]any{"row": cell.String(), "binary": bin} },
				Run: func() explore.Result {
					r := c09Run([]c09Cell{cell}, bin)
					var res explore.Result
					res.Outcome, res.Key, res.Engine = "typed-rows", "typed "+r.Key, r.Engine
					for _, v := range r.Violations {
						if v.Clause == "reply-grammar" {
							res.Fail("malformed-backend-stream", fmt.Sprintf("row %s (binary=%v): %s", cell, bin, v.Detail))
						}
					}
					return res
				}})
		}
	}
	for _, mode := range []string{"fail", "tag"} {
		for _, large := range []int{0, 3000, 3400, 3900} {
			for _, zeros := range []int{100, 700, 1200, 3000} {
				for n := 1; n <= 3; n++ {
					mode, large, zeros, n := mode, large, zeros, n
					emit(explore.Case{Family: "session", Size: 20,
						Desc: func() any {
							return map[string]any{"session": "a statement echoing its query text, executed after further Binds", "echo_in": mode, "bind_value_bytes": []int{large, zeros}, "zero_binds": n}
						},
						Run: func() explore.Result { return c02RunRetained(mode, large, zeros, n) }})
				}
			}
		}
	}
	for name, b := range c11OddStartups() {
		name, b := name, b
		for _, cfg := range []string{"certs", "nil"} {
			c := c11Case{Cfg: cfg, Behave: "session", StartupName: name, StartupBytes: b, Hist: []c11Letter{{"Query(ok)", pgproto.Query(progRows)}}}
			emit(explore.Case{Family: "session", Size: 21, Desc: func() any { return map[string]any{"session": c.String()} },
				Run: func() explore.Result {
					r := c11Run(c)
					r.Outcome = "session"
					for i := range r.Violations {
						r.Violations[i].Clause = "malformed-backend-stream"
					}
					return r
				}})
		}
		emit(explore.Case{Family: "session", Size: 21, Desc: func() any { return map[string]any{"session": "start-up packet: " + name + ", then Terminate"} },
			Run: func() explore.Result {
				return c02RunSession(c02Session{Name: "start-up packet: " + name, Segs: [][]byte{b, pgproto.Terminate()}}, false)
			}})
	}
	// F3
	for i, s := range c02Sessions(tier) {
		s := s
		faults := i%3 == 0 || tier == "thorough"
		emit(explore.Case{Family: "session", Size: len(s.Segs),
			Desc: func() any { return map[string]any{"session": s.Name, "write_fault_enumeration": faults} },
			Run:  func() explore.Result { return c02RunSession(s, faults) }})
	}
}
