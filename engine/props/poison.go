package props

import (
	"verif/engine/explore"
	"verif/engine/harness"
	"verif/engine/memnet"
)

func init() {
	explore.PoisonProbe = func() (bool, bool, string) {
		if !memnet.WedgeSeen.Load() {
			return false, false, ""
		}
		blocked, dump := harness.LibraryBlocked()
		return true, blocked, dump
	}
}
