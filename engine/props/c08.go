package props

import (
	"bytes"
	"context"
	"encoding/binary"
	"fmt"
	"math"
	"strconv"
	"strings"

	"github.com/jackc/pgx/v5/pgtype"
	wire "github.com/jeroenrinzema/psql-wire"
	"github.com/lib/pq/oid"
	"verif/engine/explore"
	"verif/engine/harness"
	"verif/engine/memnet"
	"verif/engine/pgproto"
)

// C08 — Bind parameters and format codes reach the handler exactly.

func init() {
	explore.Register(&explore.Check{
		ID:          "C08",
		Level:       "model_checking",
		Technique:   "small-scope exhaustive enumeration of Bind messages (parameter tuples x parameter-format sections x result-format sections x declared columns/OIDs) run through Parse/Describe/Bind/Describe/Execute/Sync on a real server, compared with the protocol's format rule and an independent value decoder",
		Rule:        "parameter count 0-3, values from {NULL,\"\",\"a\",\"\\x00\",\"1\"}, format sections {none, one code, one per item} over {0,1}, 0-3 int4 result columns, declared parameter OID lists of length 0-3, each portal executed twice; wide statements of 255, 256, 32767, 32768, 40000 and 65535 parameters; plus a typed family (oid, format, encoding, expected value); distinct = distinct Bind configurations",
		Assumptions: []string{"inadmissible code counts (1 < n < items) are outside the quantifier", "result columns are int4 so that text and binary encodings differ"},
		Enumerate:   c08Enumerate,
		Bounds: func(tier string) map[string]any {
			return map[string]any{"max_params": 3, "max_columns": 3, "value_alphabet": []string{"NULL", "", "a", "\\x00", "1"}, "declared_oid_lists": c08OidLists(tier)}
		},
		RequiredOutcomes: []string{"with-null", "no-null", "typed", "rebind", "two-portals", "wide", "prespecified"},
	})
}

var c08Values = [][]byte{nil, {}, []byte("a"), {0}, []byte("1")}

func c08OidLists(tier string) [][]uint32 {
	if tier == "thorough" {
		return [][]uint32{{}, {25}, {23, 25}, {0, 16, 20}}
	}
	return [][]uint32{{}, {23, 25}}
}

// formatSections enumerates the admissible format-code sections for n items.
func formatSections(n int) [][]int16 {
	out := [][]int16{nil, {0}, {1}}
	if n >= 2 {
		for m := 0; m < 1<<n; m++ {
			f := make([]int16, n)
			for i := range f {
				f[i] = int16(m >> i & 1)
			}
			out = append(out, f)
		}
	}
	return out
}

// formatRule is the protocol rule: no codes => text; one code => all; n codes => positional.
func formatRule(codes []int16, i int) int16 {
	switch len(codes) {
	case 0:
		return 0
	case 1:
		return codes[0]
	}
	return codes[i]
}

type c08Case struct {
	Params [][]byte
	PF     []int16
	Cols   int
	RF     []int16
	OIDs   []uint32
	Limit  int // message size limit of the server (0 = harness default)
}

type c08Obs struct {
	calls  int
	params []string
	fmts   []int
	scans  []string
}

func c08Columns(n int) wire.Columns {
	if n == 0 {
		return nil
	}
	cols := make(wire.Columns, n)
	for i := range cols {
		cols[i] = wire.Column{Name: string(rune('a' + i)), Oid: oid.T_int4, Width: 4}
	}
	return cols
}

func qbytes(b []byte) string {
	if b == nil {
		return "NULL"
	}
	return strconv.Quote(string(b))
}

func c08Run(c c08Case) explore.Result {
	var res explore.Result
	obs := &c08Obs{}
	decl := make([]oid.Oid, len(c.OIDs))
	for i, o := range c.OIDs {
		decl[i] = oid.Oid(o)
	}
	parse := func(ctx context.Context, q string) (wire.PreparedStatements, error) {
		opts := []wire.PreparedOptionFn{wire.WithParameters(decl)}
		if c.Cols > 0 {
			opts = append(opts, wire.WithColumns(c08Columns(c.Cols)))
		}
		return wire.Prepared(wire.NewStatement(func(ctx context.Context, w wire.DataWriter, params []wire.Parameter) error {
			obs.calls++
			for _, p := range params {
				obs.params = append(obs.params, qbytes(p.Value()))
				obs.fmts = append(obs.fmts, int(p.Format()))
				v, err := p.Scan(uint32(oid.T_text))
				switch {
				case err != nil:
					obs.scans = append(obs.scans, "error:"+err.Error())
				case v == nil:
					obs.scans = append(obs.scans, "nil")
				default:
					obs.scans = append(obs.scans, fmt.Sprintf("%T:%q", v, v))
				}
			}
			if c.Cols > 0 {
				row := make([]any, c.Cols)
				for i := range row {
					row[i] = int32(258 + i)
				}
				if err := w.Row(row); err != nil {
					return err
				}
			}
			return w.Complete("SELECT 1")
		}, opts...)), nil
	}
	var sopts []wire.OptionFn
	if c.Limit > 0 {
		sopts = append(sopts, wire.MessageBufferSize(c.Limit))
	}
	one, err := harness.StartOne(parse, sopts...)
	if err != nil {
		res.Engine = err.Error()
		return res
	}
	defer one.Stop()
	one.Step(pgproto.Startup("user", "u"))
	step := func(name string, b []byte) ([]pgproto.BMsg, bool) {
		out, st := one.Step(b)
		ms, err := pgproto.ParseBackend(out)
		if err != nil {
			res.Fail("reply-grammar", name+": "+err.Error())
			return nil, false
		}
		if st != memnet.Parked {
			res.Fail("connection-dropped", fmt.Sprintf("%s: connection %s, reply %q", name, st, pgproto.Kinds(ms)))
			return nil, false
		}
		return ms, true
	}
	expectKinds := func(name string, ms []pgproto.BMsg, want string) bool {
		if k := pgproto.Kinds(ms); k != want {
			res.Fail("reply-sequence", fmt.Sprintf("%s answered with %v, expected %q", name, pgproto.Strings(ms), want))
			return false
		}
		return true
	}
	descWant := "n"
	if c.Cols > 0 {
		descWant = "T"
	}
	ms, ok := step("Parse", pgproto.Parse("s", "q"))
	if !ok || !expectKinds("Parse", ms, "1") {
		return res
	}
	ms, ok = step("Describe(S)", pgproto.Describe('S', "s"))
	if !ok || !expectKinds("Describe(S)", ms, "t"+descWant) {
		return res
	}
	if fmt.Sprint(ms[0].OIDs) != fmt.Sprint(c.OIDs) && !(len(ms[0].OIDs) == 0 && len(c.OIDs) == 0) {
		res.Fail("parameter-description", fmt.Sprintf("statement declares parameter types %v, Describe announced %v", c.OIDs, ms[0].OIDs))
	}
	if c.Cols > 0 {
		if len(ms[1].Cols) != c.Cols {
			res.Fail("describe-statement-columns", fmt.Sprintf("%d columns declared, %d described", c.Cols, len(ms[1].Cols)))
		}
		for i, col := range ms[1].Cols {
			if col.Format != 0 {
				res.Fail("describe-statement-format", fmt.Sprintf("Describe(S) column %d announces format %d before any Bind", i, col.Format))
			}
		}
	}
	ms, ok = step("Bind", pgproto.Bind("p", "s", c.PF, c.Params, c.RF))
	if !ok || !expectKinds("Bind", ms, "2") {
		return res
	}
	ms, ok = step("Describe(P)", pgproto.Describe('P', "p"))
	if !ok || !expectKinds("Describe(P)", ms, descWant) {
		return res
	}
	announced := make([]int16, c.Cols)
	if c.Cols > 0 {
		if len(ms[0].Cols) != c.Cols {
			res.Fail("describe-portal-columns", fmt.Sprintf("%d columns declared, %d described", c.Cols, len(ms[0].Cols)))
			return res
		}
		for i, col := range ms[0].Cols {
			announced[i] = col.Format
			if want := formatRule(c.RF, i); col.Format != want {
				res.Fail("result-format-announced", fmt.Sprintf("column %d: Bind result codes %v => format %d, Describe(P) announces %d", i, c.RF, want, col.Format))
			}
		}
	}
	execWant := "C"
	if c.Cols > 0 {
		execWant = "DC"
	}
	ms, ok = step("Execute", pgproto.Execute("p", 0))
	if !ok || !expectKinds("Execute", ms, execWant) {
		return res
	}
	if obs.calls != 1 {
		res.Fail("handler-calls", fmt.Sprintf("statement function invoked %d times for one Execute", obs.calls))
	}
	// parameters: count, order, bytes, NULL vs empty, format rule, own decoder
	var wantP []string
	var wantF []int
	var wantS []string
	for i, p := range c.Params {
		wantP = append(wantP, qbytes(p))
		wantF = append(wantF, int(formatRule(c.PF, i)))
		if p == nil {
			wantS = append(wantS, "nil")
		} else {
			wantS = append(wantS, fmt.Sprintf("string:%q", string(p)))
		}
	}
	if !sameStrings(wantP, obs.params) {
		res.Fail("parameter-values", fmt.Sprintf("client sent %v, handler received %v", wantP, obs.params))
	}
	if fmt.Sprint(wantF) != fmt.Sprint(obs.fmts) && len(wantF)+len(obs.fmts) > 0 {
		res.Fail("parameter-formats", fmt.Sprintf("format codes %v over %d parameters => %v, handler saw %v", c.PF, len(c.Params), wantF, obs.fmts))
	}
	if !sameStrings(wantS, obs.scans) {
		res.Fail("parameter-decode", fmt.Sprintf("Scan(text) expected %v, got %v", wantS, obs.scans))
	}
	if len(res.Violations) > 0 && len(c.Params) > 16 {
		for i := range res.Violations {
			if len(res.Violations[i].Detail) > 600 {
				res.Violations[i].Detail = res.Violations[i].Detail[:300] + " ... " + res.Violations[i].Detail[len(res.Violations[i].Detail)-200:]
			}
		}
	}
	first := ms
	// the portal stays open: executing it again runs the statement with the very same parameters
	*obs = c08Obs{}
	ms2, ok2 := step("second Execute of the same portal", pgproto.Execute("p", 0))
	if !ok2 {
		return res
	}
	if obs.calls > 0 {
		if !sameStrings(wantP, obs.params) {
			res.Fail("parameter-values", fmt.Sprintf("second Execute of the open portal: client bound %v, handler received %v", wantP, obs.params))
		}
		if fmt.Sprint(wantF) != fmt.Sprint(obs.fmts) && len(wantF)+len(obs.fmts) > 0 {
			res.Fail("parameter-formats", fmt.Sprintf("second Execute of the open portal: formats %v expected, handler saw %v", wantF, obs.fmts))
		}
		if k := pgproto.Kinds(ms2); k == execWant && c.Cols > 0 && fmt.Sprint(ms2[0].Row) != fmt.Sprint(first[0].Row) {
			res.Fail("result-format-used", fmt.Sprintf("second Execute of the open portal: DataRow %v differs from the first one %v", ms2[0], first[0]))
		}
	}
	ms = first
	if c.Cols > 0 {
		row := ms[0].Row
		if len(row) != c.Cols {
			res.Fail("datarow-arity", fmt.Sprintf("%d columns, DataRow has %d fields", c.Cols, len(row)))
		} else {
			for i, f := range row {
				want := int32(258 + i)
				var got int64 = math.MinInt64
				switch announced[i] {
				case 0:
					if v, err := strconv.ParseInt(string(f), 10, 32); err == nil {
						got = v
					}
				case 1:
					if len(f) == 4 {
						got = int64(int32(binary.BigEndian.Uint32(f)))
					}
				}
				if got != int64(want) {
					res.Fail("result-format-used", fmt.Sprintf("column %d announced format %d but the field % x does not decode to %d in that format", i, announced[i], f, want))
				}
			}
		}
	}
	ms, ok = step("Sync", pgproto.Sync())
	if ok {
		expectKinds("Sync", ms, "Z")
	}
	hasNull := false
	for _, p := range c.Params {
		if p == nil {
			hasNull = true
		}
	}
	res.Outcome = "no-null"
	if hasNull {
		res.Outcome = "with-null"
	}
	res.Key = c08Desc(c)
	res.States = []string{fmt.Sprintf("params=%d pf=%d cols=%d rf=%d", len(c.Params), len(c.PF), c.Cols, len(c.RF))}
	res.Trans = []string{"parsed|bind|" + res.States[0], res.States[0] + "|execute|done"}
	return res
}

func c08Desc(c c08Case) string {
	var ps []string
	for _, p := range c.Params {
		ps = append(ps, qbytes(p))
	}
	return fmt.Sprintf("params=[%s] param_formats=%v columns=%d result_formats=%v declared_oids=%v", strings.Join(ps, ","), c.PF, c.Cols, c.RF, c.OIDs)
}

// ---- typed family ----------------------------------------------------------

type typedParam struct {
	Name   string
	OID    uint32
	Format int16
	Bytes  []byte
	Want   string // fmt.Sprint of the decoded Go value
}

func c08Typed() []typedParam {
	be := func(n int, v uint64) []byte {
		b := make([]byte, 8)
		binary.BigEndian.PutUint64(b, v)
		return b[8-n:]
	}
	f8 := func(f float64) []byte { return be(8, math.Float64bits(f)) }
	return []typedParam{
		{"int2 text", 21, 0, []byte("-32768"), "-32768"}, {"int2 binary", 21, 1, be(2, 0x7fff), "32767"},
		{"int4 text", 23, 0, []byte("2147483647"), "2147483647"}, {"int4 binary", 23, 1, be(4, 0x80000000), "-2147483648"},
		{"int4 binary 0", 23, 1, be(4, 0), "0"},
		{"int8 text", 20, 0, []byte("-9223372036854775808"), "-9223372036854775808"}, {"int8 binary", 20, 1, be(8, 0x7fffffffffffffff), "9223372036854775807"},
		{"bool text t", 16, 0, []byte("t"), "true"}, {"bool text f", 16, 0, []byte("f"), "false"},
		{"bool binary 1", 16, 1, []byte{1}, "true"}, {"bool binary 0", 16, 1, []byte{0}, "false"},
		{"text text", 25, 0, []byte("héllo"), "héllo"}, {"text binary", 25, 1, []byte("wörld"), "wörld"}, {"text empty", 25, 0, []byte{}, ""},
		{"float8 text", 701, 0, []byte("1.5"), "1.5"}, {"float8 binary", 701, 1, f8(-2.25), "-2.25"},
		{"bytea text", 17, 0, []byte(`\x00ff10`), "[0 255 16]"}, {"bytea binary", 17, 1, []byte{0, 255, 16}, "[0 255 16]"},
		{"bytea binary empty", 17, 1, []byte{}, "[]"},
	}
}

func c08RunTyped(ps []typedParam, private ...bool) explore.Result {
	var res explore.Result
	res.Outcome = "typed"
	var sopts []wire.OptionFn
	if len(private) > 0 && private[0] {
		// the parameter's type only exists on THIS connection's type map (registered by a session middleware, the
		// documented way of adding per-connection types): the parameter's own decoder must know it
		sopts = append(sopts, wire.SessionMiddleware(func(ctx context.Context) (context.Context, error) {
			for _, p := range ps {
				if p.OID >= 90000 {
					wire.TypeMap(ctx).RegisterType(&pgtype.Type{Name: fmt.Sprintf("private%d", p.OID), OID: p.OID, Codec: pgtype.TextCodec{}})
				}
			}
			return ctx, nil
		}))
	}
	var got []string
	parse := func(ctx context.Context, q string) (wire.PreparedStatements, error) {
		return wire.Prepared(wire.NewStatement(func(ctx context.Context, w wire.DataWriter, params []wire.Parameter) error {
			for i, p := range params {
				if i >= len(ps) {
					got = append(got, "surplus")
					continue
				}
				v, err := p.Scan(ps[i].OID)
				if err != nil {
					got = append(got, "error:"+err.Error())
				} else {
					got = append(got, fmt.Sprint(v))
				}
			}
			return w.Complete("OK")
		})), nil
	}
	one, err := harness.StartOne(parse, sopts...)
	if err != nil {
		res.Engine = err.Error()
		return res
	}
	defer one.Stop()
	one.Step(pgproto.Startup("user", "u"))
	var vals [][]byte
	var fmts []int16
	var want, names []string
	for _, p := range ps {
		vals = append(vals, p.Bytes)
		fmts = append(fmts, p.Format)
		want = append(want, p.Want)
		names = append(names, p.Name)
	}
	out, _ := one.Step(pgproto.Cat(pgproto.Parse("", "q"), pgproto.Bind("", "", fmts, vals, nil), pgproto.Execute("", 0), pgproto.Sync()))
	if k := harnessKinds(out); k != "12CZ" {
		res.Fail("reply-sequence", fmt.Sprintf("typed batch %v answered with %q", names, k))
		return res
	}
	if !sameStrings(want, got) {
		res.Fail("typed-decode", fmt.Sprintf("parameters %v: expected decoded values %v, got %v", names, want, got))
	}
	res.Key = "typed:" + strings.Join(names, ",")
	return res
}

// c08RunStringRows: the handler hands over its int4 values as Go strings (fine for text-format clients). With
// binary result codes the row is refused or encoded in binary: the DataRow is in the format Describe announced.
func c08RunStringRows(rf []int16) explore.Result {
	var res explore.Result
	res.Outcome = "no-null"
	res.Key = fmt.Sprint("string-rows", rf)
	parse := func(ctx context.Context, q string) (wire.PreparedStatements, error) {
		return wire.Prepared(wire.NewStatement(func(ctx context.Context, w wire.DataWriter, params []wire.Parameter) error {
			if err := w.Row([]any{"12345", "7"}); err != nil {
				return err
			}
			return w.Complete("SELECT 1")
		}, wire.WithColumns(c08Columns(2)))), nil
	}
	one, err := harness.StartOne(parse)
	if err != nil {
		res.Engine = err.Error()
		return res
	}
	defer one.Stop()
	one.Step(pgproto.Startup("user", "u"))
	out, _ := one.Step(pgproto.Cat(pgproto.Parse("", "q"), pgproto.Bind("", "", nil, nil, rf), pgproto.Describe('P', ""), pgproto.Execute("", 0), pgproto.Sync()))
	ms, perr := pgproto.ParseBackend(out)
	if perr != nil {
		res.Fail("reply-grammar", perr.Error())
		return res
	}
	var t, d *pgproto.BMsg
	for i := range ms {
		switch ms[i].Type {
		case 'T':
			t = &ms[i]
		case 'D':
			d = &ms[i]
		}
	}
	if t == nil {
		res.Fail("reply-sequence", "no RowDescription: "+pgproto.Kinds(ms))
		return res
	}
	if d == nil {
		return res // the row was refused (ErrorResponse): nothing was delivered in a wrong format
	}
	for i, want := range []int64{12345, 7} {
		if i >= len(d.Row) {
			break
		}
		var got int64 = -1
		switch t.Cols[i].Format {
		case 0:
			got, _ = strconv.ParseInt(string(d.Row[i]), 10, 64)
		case 1:
			if len(d.Row[i]) == 4 {
				got = int64(int32(binary.BigEndian.Uint32(d.Row[i])))
			}
		}
		if got != want {
			res.Fail("result-format-used", fmt.Sprintf("result codes %v: column %d was announced in format %d but its field % x does not decode to %d in that format", rf, i, t.Cols[i].Format, d.Row[i], want))
		}
	}
	return res
}

// c08RunTwoConns: two connections of one server use the same portal names (the unnamed one and "p"): Bind on A, Bind
// on B, Execute on A - A's statement receives A's parameters and formats.
func c08RunTwoConns(portal string, order string) explore.Result {
	var res explore.Result
	res.Outcome = "two-portals"
	res.Key = fmt.Sprint("two-conns", portal, order)
	got := map[string][]string{}
	parse := func(ctx context.Context, q string) (wire.PreparedStatements, error) {
		who := string(wire.ClientParameters(ctx)["user"])
		return wire.Prepared(wire.NewStatement(func(ctx context.Context, w wire.DataWriter, params []wire.Parameter) error {
			var s []string
			for _, p := range params {
				s = append(s, fmt.Sprintf("%s/%d", p.Value(), p.Format()))
			}
			got[who] = append(got[who], strings.Join(s, ","))
			if err := w.Row([]any{int32(258), int32(259)}); err != nil {
				return err
			}
			return w.Complete("SELECT 1")
		}, wire.WithColumns(c08Columns(2)))), nil
	}
	srv, err := harness.NewServer(parse)
	if err != nil {
		res.Engine = err.Error()
		return res
	}
	defer srv.Stop()
	conns := map[byte]*harness.Conn{}
	binds := map[byte][]byte{
		'A': pgproto.Bind(portal, "s", []int16{0}, [][]byte{[]byte("alpha")}, []int16{0}),
		'B': pgproto.Bind(portal, "s", []int16{1}, [][]byte{[]byte("bravo"), []byte("charlie")}, []int16{1}),
	}
	want := map[byte]string{'A': "alpha/0", 'B': "bravo/1,charlie/1"}
	wantFmt := map[byte]int16{'A': 0, 'B': 1}
	for _, c := range []byte{'A', 'B'} {
		conns[c] = srv.Connect()
		conns[c].Step(pgproto.Startup("user", string(c)))
		conns[c].Step(pgproto.Cat(pgproto.Parse("s", "q"), pgproto.Sync()))
	}
	// order is a string over {a,b,A,B}: lower case = Bind on that connection, upper case = Describe + Execute + Sync
	for i := 0; i < len(order); i++ {
		c := order[i] &^ 0x20
		if order[i] >= 'a' {
			conns[c].Step(binds[c])
			continue
		}
		before := len(got[string(c)])
		out, _ := conns[c].Step(pgproto.Cat(pgproto.Describe('P', portal), pgproto.Execute(portal, 0), pgproto.Sync()))
		ms, _ := pgproto.ParseBackend(out)
		what := fmt.Sprintf("portal %q, steps %q (lower case: Bind on that connection, upper case: Describe + Execute), connection %c", portal, order, c)
		if g := got[string(c)][before:]; len(g) != 1 || g[0] != want[c] {
			res.Fail("parameter-values", fmt.Sprintf("%s: its statement received %v, it had bound %q (reply %q)", what, g, want[c], pgproto.Kinds(ms)))
			break
		}
		if len(ms) > 0 && ms[0].Type == 'T' && ms[0].Cols[0].Format != wantFmt[c] {
			res.Fail("result-format-announced", fmt.Sprintf("%s: Describe announces format %d, it had bound result format %d", what, ms[0].Cols[0].Format, wantFmt[c]))
			break
		}
	}
	res.Trans = []string{"two connections|same portal name|own parameters"}
	return res
}

// c08RunPrespecified: the client pre-declares parameter types in its Parse message. The statement's DECLARED types
// are the handler's (it hands the library one list which it reuses for every statement): that list is never
// written to, and a later statement — on this or on another connection — is described with exactly that list.
func c08RunPrespecified(pre []uint32, sameConn bool) explore.Result {
	var res explore.Result
	res.Outcome = "prespecified"
	res.Key = fmt.Sprint("prespecified", pre, sameConn)
	declared := []oid.Oid{0, oid.T_text, 0}
	orig := append([]oid.Oid(nil), declared...)
	parse := func(ctx context.Context, q string) (wire.PreparedStatements, error) {
		return wire.Prepared(wire.NewStatement(func(ctx context.Context, w wire.DataWriter, params []wire.Parameter) error {
			return w.Complete("OK")
		}, wire.WithParameters(declared))), nil
	}
	srv, err := harness.NewServer(parse)
	if err != nil {
		res.Engine = err.Error()
		return res
	}
	defer srv.Stop()
	c1 := srv.Connect()
	c1.Step(pgproto.Startup("user", "u1"))
	c1.Step(pgproto.Cat(pgproto.Parse("s", "q $1 $2 $3", pre...), pgproto.Describe('S', "s"), pgproto.Sync()))
	c2 := c1
	if !sameConn {
		c1.End()
		c2 = srv.Connect()
		c2.Step(pgproto.Startup("user", "u2"))
	}
	out, _ := c2.Step(pgproto.Cat(pgproto.Parse("t", "q $1 $2 $3"), pgproto.Describe('S', "t"), pgproto.Sync()))
	ms, perr := pgproto.ParseBackend(out)
	what := fmt.Sprintf("an earlier Parse pre-declared the types %v (same connection: %v); a later statement declaring %v", pre, sameConn, orig)
	if perr != nil || len(ms) < 2 || ms[1].Type != 't' {
		res.Fail("reply-sequence", fmt.Sprintf("%s: Parse + Describe answered %q %v", what, pgproto.Kinds(ms), perr))
		return res
	}
	if fmt.Sprint(ms[1].OIDs) != fmt.Sprint([]uint32{0, 25, 0}) {
		res.Fail("parameter-description", fmt.Sprintf("%s was described as %v", what, ms[1].OIDs))
	}
	if fmt.Sprint(declared) != fmt.Sprint(orig) {
		res.Fail("declared-list-modified", fmt.Sprintf("%s: the list the handler handed to WithParameters now reads %v", what, declared))
	}
	res.Trans = []string{"parsed(prespecified)|parse|described"}
	return res
}

// c08RunScans: the statement function decodes every parameter with several requested types, one after the other and
// on a second execution of the portal: each Scan decodes the bound bytes with the type requested in THAT call.
func c08RunScans(value string, oids []uint32) explore.Result {
	var res explore.Result
	res.Outcome = "no-null"
	res.Key = fmt.Sprint("scans", value, oids)
	var got []string
	parse := func(ctx context.Context, q string) (wire.PreparedStatements, error) {
		return wire.Prepared(wire.NewStatement(func(ctx context.Context, w wire.DataWriter, params []wire.Parameter) error {
			for _, p := range params {
				for _, o := range oids {
					v, err := p.Scan(o)
					if err != nil {
						got = append(got, fmt.Sprintf("%d:error", o))
					} else {
						got = append(got, fmt.Sprintf("%d:%T:%v", o, v, v))
					}
				}
			}
			return w.Complete("OK")
		}, wire.WithParameters([]oid.Oid{0}))), nil
	}
	one, err := harness.StartOne(parse)
	if err != nil {
		res.Engine = err.Error()
		return res
	}
	defer one.Stop()
	one.Step(pgproto.Startup("user", "u"))
	one.Step(pgproto.Cat(pgproto.Parse("s", "q $1"), pgproto.Bind("p", "s", nil, [][]byte{[]byte(value)}, nil), pgproto.Execute("p", 0), pgproto.Execute("p", 0), pgproto.Sync()))
	// the reference: every requested type on its own, on a fresh portal
	var want []string
	for _, o := range oids {
		o := o
		got1 := got
		got = nil
		save := oids
		oids = []uint32{o}
		one.Step(pgproto.Cat(pgproto.Bind("q", "s", nil, [][]byte{[]byte(value)}, nil), pgproto.Execute("q", 0), pgproto.Sync()))
		want = append(want, got...)
		oids = save
		got = got1
	}
	want = append(want, want...)
	if !sameStrings(got, want) {
		res.Fail("parameter-values", fmt.Sprintf("the text value %q scanned with the types %v one after the other (and again on a second Execute) gave %v; each type on its own gives %v", value, oids, got, want))
	}
	return res
}

// c08RunCounts: the statement declares k parameter types, the Bind carries n values (n != k included): if the
// Bind is accepted, the statement receives exactly the n values sent, in order, NULL distinguished from empty.
func c08RunCounts(declared, sent int) explore.Result {
	var res explore.Result
	res.Outcome = "no-null"
	res.Key = fmt.Sprint("counts", declared, sent)
	var got []string
	ran := false
	parse := func(ctx context.Context, q string) (wire.PreparedStatements, error) {
		return wire.Prepared(wire.NewStatement(func(ctx context.Context, w wire.DataWriter, params []wire.Parameter) error {
			ran = true
			for _, p := range params {
				if p.Value() == nil {
					got = append(got, "NULL")
				} else {
					got = append(got, fmt.Sprintf("%q", p.Value()))
				}
			}
			return w.Complete("OK")
		}, wire.WithParameters(make([]oid.Oid, declared)))), nil
	}
	one, err := harness.StartOne(parse)
	if err != nil {
		res.Engine = err.Error()
		return res
	}
	defer one.Stop()
	one.Step(pgproto.Startup("user", "u"))
	var vals [][]byte
	var want []string
	for i := 0; i < sent; i++ {
		switch i % 3 {
		case 0:
			vals, want = append(vals, []byte(fmt.Sprint("v", i))), append(want, fmt.Sprintf("%q", fmt.Sprint("v", i)))
		case 1:
			vals, want = append(vals, nil), append(want, "NULL")
		default:
			vals, want = append(vals, []byte{}), append(want, `""`)
		}
	}
	out, _ := one.Step(pgproto.Cat(pgproto.Parse("", "q"), pgproto.Bind("", "", nil, vals, nil), pgproto.Execute("", 0), pgproto.Sync()))
	if ran && !sameStrings(got, want) {
		res.Fail("parameter-values", fmt.Sprintf("a statement declaring %d parameter types, a Bind carrying %d values %v (reply %q): the statement received %v", declared, sent, want, harness.Kinds(out), got))
	}
	return res
}

// c08RunReparse: a statement name is parsed, described, then parsed AGAIN with another text (no Close in between)
// and described again (k times): every Describe announces the declared parameter types and columns of the
// definition in force, and a Bind + Execute afterwards reaches that definition.
func c08RunReparse(name string, describesBefore, describesAfter int, closeBetween bool) explore.Result {
	var res explore.Result
	res.Outcome = "prespecified"
	res.Key = fmt.Sprint("reparse", name, describesBefore, describesAfter, closeBetween)
	decl := map[string][]oid.Oid{"first $1": {oid.T_int4}, "second $1 $2": {oid.T_text, oid.T_varchar}}
	cols := map[string]wire.Columns{"first $1": c08Columns(1), "second $1 $2": c08Columns(2)}
	var ran []string
	parse := func(ctx context.Context, q string) (wire.PreparedStatements, error) {
		return wire.Prepared(wire.NewStatement(func(ctx context.Context, w wire.DataWriter, params []wire.Parameter) error {
			ran = append(ran, fmt.Sprintf("%s/%d", q, len(params)))
			return w.Complete("OK")
		}, wire.WithParameters(decl[q]), wire.WithColumns(cols[q]))), nil
	}
	one, err := harness.StartOne(parse)
	if err != nil {
		res.Engine = err.Error()
		return res
	}
	defer one.Stop()
	one.Step(pgproto.Startup("user", "u"))
	one.Step(pgproto.Cat(pgproto.Parse(name, "first $1"), pgproto.Sync()))
	for i := 0; i < describesBefore; i++ {
		one.Step(pgproto.Cat(pgproto.Describe('S', name), pgproto.Sync()))
	}
	if closeBetween {
		one.Step(pgproto.Cat(pgproto.Close('S', name), pgproto.Sync()))
	}
	one.Step(pgproto.Cat(pgproto.Parse(name, "second $1 $2"), pgproto.Sync()))
	what := fmt.Sprintf("statement %q parsed (1 int4 parameter, 1 column), described %d times, closed: %v, parsed again (text + varchar parameters, 2 columns)", name, describesBefore, closeBetween)
	for i := 0; i < describesAfter; i++ {
		out, _ := one.Step(pgproto.Cat(pgproto.Describe('S', name), pgproto.Sync()))
		ms, perr := pgproto.ParseBackend(out)
		if perr != nil || len(ms) < 2 || ms[0].Type != 't' || ms[1].Type != 'T' {
			res.Fail("reply-sequence", fmt.Sprintf("%s: Describe answered %q %v", what, pgproto.Kinds(ms), perr))
			return res
		}
		if fmt.Sprint(ms[0].OIDs) != fmt.Sprint([]uint32{25, 1043}) || len(ms[1].Cols) != 2 {
			res.Fail("parameter-description", fmt.Sprintf("%s: Describe %d afterwards announces parameter types %v and %d columns, the statement declares [25 1043] and 2 columns", what, i+1, ms[0].OIDs, len(ms[1].Cols)))
			return res
		}
	}
	one.Step(pgproto.Cat(pgproto.Bind("", name, nil, [][]byte{[]byte("a"), []byte("b")}, nil), pgproto.Execute("", 0), pgproto.Sync()))
	if len(ran) != 1 || ran[0] != "second $1 $2/2" {
		res.Fail("parameter-values", fmt.Sprintf("%s: Bind with two values + Execute ran %v", what, ran))
	}
	res.Trans = []string{"parsed|parsed again|described"}
	return res
}

// c08RunRebind: the same portal name is bound several times to the same statement with different
// result-format sections (and parameter values); after every Bind the portal must reflect THAT Bind.
func c08RunRebind(cols int, rounds [][]int16) explore.Result {
	var res explore.Result
	res.Outcome = "rebind"
	var seen []string
	parse := func(ctx context.Context, q string) (wire.PreparedStatements, error) {
		return wire.Prepared(wire.NewStatement(func(ctx context.Context, w wire.DataWriter, params []wire.Parameter) error {
			seen = seen[:0]
			for _, p := range params {
				seen = append(seen, qbytes(p.Value()))
			}
			row := make([]any, cols)
			for i := range row {
				row[i] = int32(258 + i)
			}
			if err := w.Row(row); err != nil {
				return err
			}
			return w.Complete("SELECT 1")
		}, wire.WithColumns(c08Columns(cols)))), nil
	}
	one, err := harness.StartOne(parse)
	if err != nil {
		res.Engine = err.Error()
		return res
	}
	defer one.Stop()
	one.Step(pgproto.Startup("user", "u"))
	if out, _ := one.Step(pgproto.Parse("s", "q")); harness.Kinds(out) != "1" {
		res.Engine = "Parse failed"
		return res
	}
	res.Key = fmt.Sprint("rebind", cols, rounds)
	for r, rf := range rounds {
		val := []byte(fmt.Sprintf("round-%d", r))
		out, _ := one.Step(pgproto.Cat(pgproto.Bind("p", "s", nil, [][]byte{val}, rf), pgproto.Describe('P', "p"), pgproto.Execute("p", 0), pgproto.Sync()))
		ms, perr := pgproto.ParseBackend(out)
		if perr != nil || pgproto.Kinds(ms) != "2TDCZ" {
			res.Fail("reply-sequence", fmt.Sprintf("round %d (result codes %v): reply %q %v", r, rf, pgproto.Kinds(ms), perr))
			return res
		}
		if len(seen) != 1 || seen[0] != qbytes(val) {
			res.Fail("parameter-values", fmt.Sprintf("round %d: Bind sent %q, handler saw %v", r, val, seen))
		}
		for i, col := range ms[1].Cols {
			want := formatRule(rf, i)
			if col.Format != want {
				res.Fail("result-format-announced", fmt.Sprintf("round %d of re-binding the same portal: result codes %v => column %d format %d, Describe(P) announces %d (rounds %v)", r, rf, i, want, col.Format, rounds))
			}
			f := ms[2].Row[i]
			ok := false
			if col.Format == 0 {
				ok = string(f) == fmt.Sprint(258+i)
			} else {
				ok = len(f) == 4 && int(binary.BigEndian.Uint32(f)) == 258+i
			}
			if !ok {
				res.Fail("result-format-used", fmt.Sprintf("round %d: column %d announced format %d, field % x", r, i, col.Format, f))
			}
		}
	}
	res.Trans = []string{fmt.Sprintf("bound|rebind x%d|bound", len(rounds))}
	return res
}

// c08RunTwoPortals: two portals are bound (different parameter values / formats / result formats / sizes)
// BEFORE either is executed; each Execute must deliver its own Bind's parameters and result formats.
type c08Bind struct {
	PF   []int16
	Vals [][]byte
	RF   []int16
}

func c08RunTwoPortals(a, b c08Bind, label string, names ...string) explore.Result {
	first, second := "first", "second"
	if len(names) == 2 {
		first, second = names[0], names[1]
	}
	var res explore.Result
	res.Outcome = "two-portals"
	res.Key = "two-portals " + label
	type seen struct {
		vals []string
		fmts []int
	}
	var got []seen
	parse := func(ctx context.Context, q string) (wire.PreparedStatements, error) {
		return wire.Prepared(wire.NewStatement(func(ctx context.Context, w wire.DataWriter, params []wire.Parameter) error {
			var s seen
			for _, p := range params {
				s.vals = append(s.vals, qbytes(p.Value()))
				s.fmts = append(s.fmts, int(p.Format()))
			}
			got = append(got, s)
			if err := w.Row([]any{int32(258), int32(259)}); err != nil {
				return err
			}
			return w.Complete("SELECT 1")
		}, wire.WithColumns(c08Columns(2)))), nil
	}
	one, err := harness.StartOne(parse)
	if err != nil {
		res.Engine = err.Error()
		return res
	}
	defer one.Stop()
	one.Step(pgproto.Startup("user", "u"))
	out, _ := one.Step(pgproto.Cat(pgproto.Parse("s", "q"),
		pgproto.Bind(first, "s", a.PF, a.Vals, a.RF), pgproto.Describe('P', first),
		pgproto.Bind(second, "s", b.PF, b.Vals, b.RF), pgproto.Describe('P', second),
		pgproto.Execute(first, 0), pgproto.Execute(second, 0), pgproto.Sync()))
	ms, perr := pgproto.ParseBackend(out)
	if perr != nil || pgproto.Kinds(ms) != "12T2TDCDCZ" {
		res.Fail("reply-sequence", fmt.Sprintf("%s: reply %q %v", label, pgproto.Kinds(ms), perr))
		return res
	}
	binds := []c08Bind{a, b}
	descs := []pgproto.BMsg{ms[2], ms[4]}
	rows := []pgproto.BMsg{ms[5], ms[7]}
	for i, bd := range binds {
		if i >= len(got) {
			res.Fail("handler-calls", fmt.Sprintf("%s: statement ran %d times", label, len(got)))
			break
		}
		var wantV []string
		var wantF []int
		for k, v := range bd.Vals {
			wantV = append(wantV, qbytes(v))
			wantF = append(wantF, int(formatRule(bd.PF, k)))
		}
		if !sameStrings(wantV, got[i].vals) {
			res.Fail("parameter-values", fmt.Sprintf("%s: portal %d was bound with %.80v but its Execute delivered %.80v (another Bind on the connection interfered)", label, i+1, wantV, got[i].vals))
		}
		if fmt.Sprint(wantF) != fmt.Sprint(got[i].fmts) && len(wantF)+len(got[i].fmts) > 0 {
			res.Fail("parameter-formats", fmt.Sprintf("%s: portal %d: format codes %v over %d parameters => %v, handler saw %v", label, i+1, bd.PF, len(bd.Vals), wantF, got[i].fmts))
		}
		for c, col := range descs[i].Cols {
			if want := formatRule(bd.RF, c); col.Format != want {
				res.Fail("result-format-announced", fmt.Sprintf("%s: portal %d column %d: result codes %v => %d, announced %d", label, i+1, c, bd.RF, want, col.Format))
			}
			f := rows[i].Row[c]
			ok := false
			if col.Format == 0 {
				ok = string(f) == fmt.Sprint(258+c)
			} else {
				ok = len(f) == 4 && int(binary.BigEndian.Uint32(f)) == 258+c
			}
			if !ok {
				res.Fail("result-format-used", fmt.Sprintf("%s: portal %d column %d announced format %d but the field is % x", label, i+1, c, col.Format, f))
			}
		}
	}
	res.Trans = []string{"parsed|bind first, bind second|two portals", "two portals|execute both|done"}
	return res
}

func c08Enumerate(tier string, emit explore.Emit) {
	{
		three := func(tag string) [][]byte { return [][]byte{[]byte(tag + "1"), []byte(tag + "2"), []byte(tag + "3")} }
		secs := formatSections(3)
		rsecs := formatSections(2)
		for ai, apf := range secs {
			for bi, bpf := range secs {
				ra, rb := rsecs[(ai+bi)%len(rsecs)], rsecs[(ai*3+bi+1)%len(rsecs)]
				a, b := c08Bind{apf, three("a"), ra}, c08Bind{bpf, three("b"), rb}
				label := fmt.Sprintf("first(pf=%v rf=%v) second(pf=%v rf=%v)", apf, ra, bpf, rb)
				emit(explore.Case{Family: "two-portals", Size: 6, Desc: func() any { return label },
					Run: func() explore.Result { return c08RunTwoPortals(a, b, label) }})
			}
		}
		for _, ra := range rsecs {
			for _, rb := range rsecs {
				a, b := c08Bind{nil, three("a"), ra}, c08Bind{nil, three("b"), rb}
				label := fmt.Sprintf("first(rf=%v) second(rf=%v)", ra, rb)
				emit(explore.Case{Family: "two-portals", Size: 6, Desc: func() any { return label },
					Run: func() explore.Result { return c08RunTwoPortals(a, b, label) }})
			}
		}
		// long portal names that only differ late (or only in length)
		for _, n := range []int{31, 32, 62, 63, 64, 65, 127, 128, 255, 256, 1000} {
			base := strings.Repeat("p", n)
			for vi, pair := range [][2]string{{base + "a", base + "b"}, {base, base + "x"}, {base + "x", base}} {
				a, b := c08Bind{nil, three("a"), []int16{0}}, c08Bind{nil, three("b"), []int16{1}}
				pair := pair
				label := fmt.Sprintf("portal names of %d / %d bytes sharing their first %d bytes (variant %d)", len(pair[0]), len(pair[1]), n, vi)
				emit(explore.Case{Family: "two-portals", Size: 8, Desc: func() any { return label },
					Run: func() explore.Result { return c08RunTwoPortals(a, b, label, pair[0], pair[1]) }})
			}
		}
		// large values around / above the 4 KiB allocation granule
		for _, sz := range [][2]int{{6000, 5000}, {5000, 6000}, {4097, 4096}, {4096, 100}, {100, 7000}} {
			a, b := c08Bind{nil, [][]byte{bytes.Repeat([]byte{'A'}, sz[0])}, nil}, c08Bind{nil, [][]byte{bytes.Repeat([]byte{'b'}, sz[1])}, nil}
			label := fmt.Sprintf("first(%d-byte value) second(%d-byte value)", sz[0], sz[1])
			emit(explore.Case{Family: "two-portals", Size: 7, Desc: func() any { return label },
				Run: func() explore.Result { return c08RunTwoPortals(a, b, label) }})
		}
	}
	for cols := 1; cols <= 2; cols++ {
		secs := formatSections(cols)
		for _, a := range secs {
			for _, b := range secs {
				for _, c := range [][]int16{nil, {1}} {
					cols, rounds := cols, [][]int16{a, b, c}
					emit(explore.Case{Family: "rebind", Size: 3,
						Desc: func() any { return map[string]any{"columns": cols, "result_codes_per_round": rounds} },
						Run:  func() explore.Result { return c08RunRebind(cols, rounds) }})
				}
			}
		}
	}
	// wide statements: counts around the int16 / uint16 boundaries of the count words
	for _, n := range []int{255, 256, 32767, 32768, 40000, 65535} {
		for _, pf := range [][]int16{nil, {1}} {
			ol := make([]uint32, n)
			params := make([][]byte, n)
			for i := range ol {
				ol[i] = []uint32{25, 23, 0, 16, 20}[i%5]
				params[i] = []byte(fmt.Sprintf("v%d", i))
				if i%7 == 3 {
					params[i] = nil
				}
			}
			c := c08Case{Params: params, PF: pf, Cols: 1, OIDs: ol, Limit: 4 << 20}
			emit(explore.Case{Family: "wide", Size: 100,
				Desc: func() any {
					return map[string]any{"parameters": n, "param_formats": pf, "declared_oids": "25,23,0,16,20 repeating", "values": "v<i>, every 7th NULL"}
				},
				Run: func() explore.Result {
					r := c08Run(c)
					r.Key = fmt.Sprint("wide", n, pf)
					r.Outcome = "wide"
					for i := range r.Violations {
						if d := r.Violations[i].Detail; len(d) > 700 {
							r.Violations[i].Detail = fmt.Sprintf("(%d parameters) ", n) + d[:300] + " ... " + d[len(d)-200:]
						}
					}
					return r
				}})
		}
	}
	oidLists := c08OidLists(tier)
	for n := 0; n <= 3; n++ {
		total := 1
		for i := 0; i < n; i++ {
			total *= len(c08Values)
		}
		for t := 0; t < total; t++ {
			params := make([][]byte, n)
			x := t
			for i := 0; i < n; i++ {
				params[i] = c08Values[x%len(c08Values)]
				x /= len(c08Values)
			}
			for _, pf := range formatSections(n) {
				for cols := 0; cols <= 3; cols++ {
					for _, rf := range formatSections(cols) {
						for _, ol := range oidLists {
							c := c08Case{Params: params, PF: pf, Cols: cols, RF: rf, OIDs: ol}
							emit(explore.Case{Family: "bind", Size: n + cols,
								Desc: func() any { return c08Desc(c) },
								Run:  func() explore.Result { return c08Run(c) }})
						}
					}
				}
			}
		}
	}
	for _, rf := range [][]int16{nil, {0}, {1}, {0, 1}, {1, 0}, {1, 1}} {
		rf := rf
		emit(explore.Case{Family: "string-rows", Size: 3, Desc: func() any {
			return map[string]any{"handler_row": []string{"12345", "7"}, "columns": "int4, int4", "result_codes": rf}
		},
			Run: func() explore.Result { return c08RunStringRows(rf) }})
	}
	for _, portal := range []string{"", "p"} {
		for _, order := range []string{"abAB", "abBA", "baAB", "aAbB", "abAbB", "abABAB"} {
			portal, order := portal, order
			emit(explore.Case{Family: "two-connections", Size: 6, Desc: func() any { return map[string]any{"portal": portal, "steps": order} },
				Run: func() explore.Result { return c08RunTwoConns(portal, order) }})
		}
	}
	for _, name := range []string{"", "s"} {
		for before := 0; before <= 2; before++ {
			for after := 1; after <= 2; after++ {
				for _, cl := range []bool{false, true} {
					name, before, after, cl := name, before, after, cl
					emit(explore.Case{Family: "prespecified-types", Size: 4,
						Desc: func() any {
							return map[string]any{"statement": name, "describes_before_the_second_parse": before, "describes_after": after, "closed_between": cl}
						},
						Run: func() explore.Result { return c08RunReparse(name, before, after, cl) }})
				}
			}
		}
	}
	// the bound values reach the statement however much traffic lies between Bind and Execute (C03's retention runner)
	for _, r := range [][3]int{{3, 1500, 0}, {40, 200, 0}, {100, 60, 0}, {0, 0, 40}, {100, 60, 40}} {
		r := r
		emit(explore.Case{Family: "two-connections", Size: 7,
			Desc: func() any {
				return map[string]any{"between_bind_and_execute": fmt.Sprintf("%d Parse messages of %d bytes, %d other connections", r[0], r[1], r[2])}
			},
			Run: func() explore.Result {
				res := c03RunRetention(r[0], r[1], r[2])
				res.Outcome = "two-portals"
				for i := range res.Violations {
					res.Violations[i].Clause = "parameter-values"
				}
				return res
			}})
	}
	for _, value := range []string{"42", "abc", "t", "2024-03-10"} {
		for _, oids := range [][]uint32{{20, 25}, {25, 20}, {23, 16, 25}, {1082, 25, 20}, {25, 25}} {
			value, oids := value, oids
			emit(explore.Case{Family: "string-rows", Size: 4, Desc: func() any { return map[string]any{"parameter_text": value, "scanned_with_types": oids} },
				Run: func() explore.Result { return c08RunScans(value, oids) }})
		}
	}
	for declared := 0; declared <= 4; declared++ {
		for sent := 0; sent <= 5; sent++ {
			declared, sent := declared, sent
			emit(explore.Case{Family: "string-rows", Size: 5, Desc: func() any { return map[string]any{"declared_parameter_types": declared, "values_in_the_bind": sent} },
				Run: func() explore.Result { return c08RunCounts(declared, sent) }})
		}
	}
	// types pre-declared by the client in Parse
	for _, pre := range [][]uint32{{20}, {20, 0}, {0, 0, 23}, {20, 21, 23}, {20, 21, 23, 25}} {
		for _, same := range []bool{true, false} {
			pre, same := pre, same
			emit(explore.Case{Family: "prespecified-types", Size: 4,
				Desc: func() any { return map[string]any{"types_in_an_earlier_parse": pre, "same_connection": same} },
				Run:  func() explore.Result { return c08RunPrespecified(pre, same) }})
		}
	}
	// types registered on the connection's own type map only
	for _, f := range []int16{0, 1} {
		for _, v := range []string{"", "value of a private type", "é\x01"} {
			tp := typedParam{Name: fmt.Sprintf("private type 90001 format %d value %q", f, v), OID: 90001, Format: f, Bytes: []byte(v), Want: v}
			builtin := typedParam{Name: "int4 text 42", OID: 23, Format: 0, Bytes: []byte("42"), Want: "42"}
			for _, batch := range [][]typedParam{{tp}, {builtin, tp}, {tp, builtin}} {
				batch := batch
				emit(explore.Case{Family: "typed", Size: 3, Desc: func() any {
					var n []string
					for _, b := range batch {
						n = append(n, b.Name)
					}
					return map[string]any{"parameters": n, "registered": "on the connection's type map by a session middleware"}
				}, Run: func() explore.Result { return c08RunTyped(batch, true) }})
			}
		}
	}
	typed := c08Typed()
	for i := range typed {
		a := typed[i]
		emit(explore.Case{Family: "typed", Size: 1, Desc: func() any { return []string{a.Name} },
			Run: func() explore.Result { return c08RunTyped([]typedParam{a}) }})
		for j := range typed {
			if tier != "thorough" && (i+j)%3 != 0 {
				continue
			}
			b := typed[j]
			emit(explore.Case{Family: "typed", Size: 2, Desc: func() any { return []string{a.Name, b.Name} },
				Run: func() explore.Result { return c08RunTyped([]typedParam{a, b}) }})
		}
	}
}
