package props

import (
	"context"
	"errors"
	"fmt"
	"github.com/jeroenrinzema/psql-wire/codes"
	psqlerr "github.com/jeroenrinzema/psql-wire/errors"
	"net"
	"strings"

	wire "github.com/jeroenrinzema/psql-wire"
	"verif/engine/explore"
	"verif/engine/harness"
	"verif/engine/memnet"
	"verif/engine/pgproto"
	"verif/engine/script"
)

// C01 — Rejected credentials never yield a session.

type pwLetter struct {
	Name    string
	Bytes   []byte
	EOF     bool   // input ends right after these bytes
	Accept  string // "yes" | "no" | "either" (statement does not decide)
	Outcome string // validator outcome class for well-formed passwords: accept | reject | fail | "" (validator must not matter)
	PW      string // password the validator must have seen when accepted
}

func c01Letters() []pwLetter {
	l := []pwLetter{
		{Name: "p(good)", Bytes: pgproto.Password("good"), Accept: "yes", Outcome: "accept", PW: "good"},
		{Name: "p(bad)", Bytes: pgproto.Password("bad"), Accept: "no", Outcome: "reject"},
		{Name: "p(err)", Bytes: pgproto.Password("err"), Accept: "no", Outcome: "fail"},
		{Name: "p(validator returns true together with an error)", Bytes: pgproto.Password("errtrue"), Accept: "no", Outcome: "fail"},
		{Name: "p(empty password)", Bytes: pgproto.Password(""), Accept: "no", Outcome: "reject"},
		{Name: "p(validator fails with an error of severity WARNING)", Bytes: pgproto.Password("warn"), Accept: "no", Outcome: "fail"},
		{Name: "p(validator fails with an error of severity NOTICE)", Bytes: pgproto.Password("notice"), Accept: "no", Outcome: "fail"},
		{Name: "p(validator rejects and returns a nil context)", Bytes: pgproto.Password("nilctx"), Accept: "no", Outcome: "reject"},
		{Name: "p(validator fails and returns a nil context)", Bytes: pgproto.Password("nilctxerr"), Accept: "no", Outcome: "fail"},
		{Name: "p without NUL", Bytes: pgproto.Msg('p', []byte("good")), Accept: "no"},
		{Name: "p empty body", Bytes: pgproto.Msg('p', nil), Accept: "no"},
		{Name: "p(good) with surplus after NUL", Bytes: pgproto.Msg('p', []byte("good\x00extra")), Accept: "either", PW: "good"},
		{Name: "p oversized", Bytes: pgproto.Msg('p', append(make([]byte, harness.DefaultLimit+1), 0)), Accept: "no"},
		{Name: "p declared length 3", Bytes: pgproto.MsgDeclared('p', 3, []byte("good\x00")), Accept: "no"},
		{Name: "p declared length 0", Bytes: pgproto.MsgDeclared('p', 0, []byte("good\x00")), Accept: "no"},
		{Name: "header truncated then EOF", Bytes: []byte{'p', 0, 0}, EOF: true, Accept: "no"},
		{Name: "body truncated then EOF", Bytes: pgproto.Password("good")[:7], EOF: true, Accept: "no"},
		{Name: "immediate EOF", Bytes: nil, EOF: true, Accept: "no"},
	}
	// every other client message type, carrying a body that would read as the good password
	for _, t := range []byte("QPBDECSHXdcf") {
		l = append(l, pwLetter{Name: fmt.Sprintf("type %q instead of p, body good\\0", t), Bytes: pgproto.Msg(t, []byte("good\x00")), Accept: "no"})
	}
	l = append(l,
		pwLetter{Name: "unknown type 'z', body good\\0", Bytes: pgproto.Msg('z', []byte("good\x00")), Accept: "no"},
		pwLetter{Name: "type 0x00, body good\\0", Bytes: pgproto.Msg(0, []byte("good\x00")), Accept: "no"},
	)
	return l
}

type contLetter struct {
	Name  string
	Bytes []byte
}

func c01Cont() []contLetter {
	return []contLetter{
		{"Query(ok)", pgproto.Query(progRows)},
		{"Parse", pgproto.Parse("", progRows)},
		{"Bind", pgproto.Bind("", "", nil, nil, nil)},
		{"Execute", pgproto.Execute("", 0)},
		{"Sync", pgproto.Sync()},
		{"Terminate", pgproto.Terminate()},
		{"p(good)", pgproto.Password("good")},
	}
}

var c01Startups = []struct {
	Name string
	KV   []string
	Tail string // bytes inside the start-up packet behind the terminator of the parameter list
}{
	{"user only", []string{"user", "alice"}, ""},
	{"user+database", []string{"user", "alice", "database", "db1"}, ""},
	{"no parameters", nil, ""},
	{"user, and the bytes good\\0 behind the terminator of the parameter list", []string{"user", "alice"}, "good\x00"},
}

func c01StartupBytes(i int) []byte {
	return pgproto.Untyped(append(pgproto.StartupBody(c01Startups[i].KV...), c01Startups[i].Tail...))
}

func init() {
	explore.Register(&explore.Check{
		ID:        "C01",
		Level:     "model_checking",
		Technique: "exhaustive enumeration of (startup parameters x message sent in place of the password x validator outcome x continuation history x delivery mode) on a real server with cleartext authentication, judged by a three-state reference machine (await-password / accepted / rejected-closed) and a differential run without authentication; plus stateless schedule exploration (cooperative scheduler, preemption-bounded DFS with happens-before state caching, race monitor) of two connections authenticating concurrently",
		Rule:      "27 messages in place of the password (well-formed with accept/reject/fail validator outcomes, malformed, every other type byte, truncated, oversized, EOF) x 3 startup parameter sets x all continuations of length <= d over 7 letters x {pipelined in the same segment, after quiescence}; log-in sequences: all sequences of 2-3 attempts over 5 (database, user, password) triples on one server whose validator accepts exactly one triple; distinct = distinct cases",
		Assumptions: []string{
			"not asserted: whether validator failure / malformed cases send an ErrorResponse before closing; a ReadyForQuery directly behind the rejection ErrorResponse is noted, not a violation",
			"a password message with surplus bytes after the NUL may be accepted (with exactly the string before the NUL) or rejected",
		},
		Enumerate: c01Enumerate,
		After:     explore.MergeSched("C01", true),
		Bounds: func(tier string) map[string]any {
			return map[string]any{"continuation_depth": c01Depth(tier), "in_place_letters": len(c01Letters()), "continuation_letters": 7,
				"schedule_part": "scenarios S-G (two users authenticating concurrently, both accepted), S-J (one accepted, one rejected with a pipelined Query) and S-M (the same account, one right and one wrong password): all schedules with <= 2 preemptions (thorough: all schedules), race monitor on"}
		},
		RequiredOutcomes: []string{"accepted", "rejected-by-validator", "validator-failed", "malformed-closed"},
	})
}

// c01TLS: authentication inside a TLS-upgraded connection whose client presents an (unverified) certificate: the
// session is the plaintext session — in particular a rejected password stays rejected.
func c01TLS(emit explore.Emit) {
	for _, c := range c11ClientCertCases() {
		if c.Auth == "" {
			continue
		}
		c := c
		emit(explore.Case{Family: "tls-client-certificate", Size: 5, Desc: func() any { return c.String() }, Run: func() explore.Result {
			r := c11Run(c)
			r.Outcome = "tls"
			for i := range r.Violations {
				if c.Auth == "bad" && r.Violations[i].Clause == "tls-session-differs" {
					r.Violations[i].Clause = "authenticated-phase-reached"
				}
			}
			return r
		}})
	}
}

// c01RunSequence: several log-in attempts, one connection after the other, on ONE server whose validator accepts
// exactly one (database, user, password) triple. Every attempt is judged on its own: what an earlier connection
// presented (and was granted) decides nothing for a later one.
type c01Attempt struct{ db, user, pw string }

func (a c01Attempt) good() bool { return a == c01Attempt{"db1", "alice", "good"} }

func c01RunSequence(seq []c01Attempt) explore.Result {
	var res explore.Result
	res.Outcome = "sequence"
	res.Key = fmt.Sprint("seq", seq)
	var calls []string
	rec := &script.Rec{}
	validate := func(ctx context.Context, database, username, password string) (context.Context, bool, error) {
		calls = append(calls, fmt.Sprintf("db=%q user=%q pw=%q", database, username, password))
		return ctx, (c01Attempt{database, username, password}).good(), nil
	}
	srv, err := harness.NewServer(rec.ParseFn(), wire.SessionAuthStrategy(wire.ClearTextPassword(validate)))
	if err != nil {
		res.Engine = err.Error()
		return res
	}
	defer srv.Stop()
	for i, a := range seq {
		c := srv.Connect()
		n0, e0 := len(calls), len(rec.Evs)
		out, st := c.Step(pgproto.Startup("user", a.user, "database", a.db))
		if k := harness.Kinds(out); k != "R" || st != memnet.Parked {
			res.Fail("password-request", fmt.Sprintf("attempt %d %v of %v: startup answered %q (%s)", i, a, seq, k, st))
			return res
		}
		out, st = c.Step(pgproto.Cat(pgproto.Password(a.pw), pgproto.Query(progRows)))
		k := harness.Kinds(out)
		what := fmt.Sprintf("attempt %d %v of the sequence %v (the validator accepts only {db1 alice good})", i, a, seq)
		want := fmt.Sprintf("db=%q user=%q pw=%q", a.db, a.user, a.pw)
		// (a triple the validator has accepted before on this server need not be presented to it again: the
		// statement speaks of the validator's answer, not of how often it is asked)
		acceptedBefore := false
		for _, b := range seq[:i] {
			acceptedBefore = acceptedBefore || (b == a && a.good())
		}
		if got := calls[n0:]; !(len(got) == 1 && got[0] == want) && !(len(got) == 0 && acceptedBefore) {
			res.Fail("validator-arguments", fmt.Sprintf("%s: validator calls %v, expected exactly [%s]", what, got, want))
		}
		if a.good() {
			if !strings.HasPrefix(k, "R") || !strings.HasSuffix(k, "ZTDCZ") || st != memnet.Parked {
				res.Fail("accepted-session-differs", fmt.Sprintf("%s: answered %q (%s)", what, k, st))
			}
		} else {
			if strings.Contains(k, "R") || strings.Contains(k, "S") || strings.Contains(k, "T") || len(rec.Evs) != e0 {
				res.Fail("session-without-accepted-credentials", fmt.Sprintf("%s: answered %q, callbacks %v", what, k, evKinds(rec.Evs[e0:])))
			}
			if st != memnet.Closed {
				res.Fail("connection-not-closed", fmt.Sprintf("%s: connection is %s", what, st))
			}
		}
		c.End()
	}
	res.Trans = []string{fmt.Sprintf("server|%d attempts|server", len(seq))}
	return res
}

// c01RunAfterClose: Close only stops the accept loop; a connection accepted before it starts up afterwards. It is
// asked for its password like any other (or closed): it never reaches the authenticated phase without credentials.
func c01RunAfterClose(send string) explore.Result {
	var res explore.Result
	res.Outcome = "closing"
	res.Key = "after-close " + send
	calls := &c01Calls{rec: &script.Rec{}}
	one, err := c01Server(calls, true)
	if err != nil {
		res.Engine = err.Error()
		return res
	}
	if st := one.C.Await(); st != memnet.Parked { // the connection has been accepted and waits for its first packet
		res.Engine = fmt.Sprintf("connection is %s before anything was sent", st)
		return res
	}
	one.Server.Srv.Close()
	msgs := pgproto.Startup("user", "alice")
	switch send {
	case "startup + query":
		msgs = pgproto.Cat(msgs, pgproto.Query(progRows))
	case "startup + wrong password + query":
		msgs = pgproto.Cat(msgs, pgproto.Password("bad"), pgproto.Query(progRows))
	}
	out, _ := one.Step(msgs)
	one.C.EOF()
	one.C.AwaitClose()
	k := harness.Kinds(out)
	// (a ReadyForQuery directly behind the rejection error is tolerated here as everywhere in C01)
	if strings.Contains(k, "S") || strings.Contains(k, "T") || strings.Contains(k, "C") || strings.Count(k, "R") > 1 || (strings.Contains(k, "Z") && !strings.Contains(k, "E")) || len(calls.rec.Evs) > 0 {
		res.Fail("session-without-accepted-credentials", fmt.Sprintf("server closed, then %s on a connection accepted before: answered %q, callbacks %v (no credentials were accepted)", send, k, evKinds(calls.rec.Evs)))
	}
	res.Trans = []string{"closing|startup|password request or closed"}
	return res
}

func c01Depth(tier string) int {
	if tier == "thorough" {
		return 4
	}
	return 3
}

type c01Calls struct {
	validator []string
	rec       *script.Rec
}

func c01Server(calls *c01Calls, auth bool) (*harness.One, error) {
	validate := func(ctx context.Context, database, username, password string) (context.Context, bool, error) {
		calls.validator = append(calls.validator, fmt.Sprintf("db=%q user=%q pw=%q", database, username, password))
		switch password {
		case "good":
			return ctx, true, nil
		case "err":
			return ctx, false, errors.New("validator backend unavailable")
		case "errtrue":
			return ctx, true, errors.New("credentials match but the audit record could not be written")
		case "warn":
			return ctx, false, psqlerr.WithSeverity(errors.New("password expires soon (and does not match)"), psqlerr.LevelWarning)
		case "notice":
			return ctx, false, psqlerr.WithSeverity(psqlerr.WithCode(errors.New("account locked"), codes.InvalidPassword), psqlerr.Severity("NOTICE"))
		case "nilctx":
			return nil, false, nil // a rejection that hands no context back
		case "nilctxerr":
			return nil, false, errors.New("validator backend unavailable")
		}
		return ctx, false, nil
	}
	opts := []wire.OptionFn{
		wire.SessionMiddleware(func(ctx context.Context) (context.Context, error) {
			calls.rec.Add(script.Ev{Kind: "session"})
			return ctx, nil
		}),
		wire.TerminateConn(func(ctx context.Context) error {
			calls.rec.Add(script.Ev{Kind: "terminate"})
			return nil
		}),
		// a close hook that cannot do its work (nothing of the session it expects exists for a rejected
		// connection): whatever the library does with hooks, the connection is closed all the same
		wire.CloseConn(func(ctx context.Context) error { return errors.New("close hook: no session state") }),
	}
	if auth {
		opts = append(opts, wire.SessionAuthStrategy(wire.ClearTextPassword(validate)))
	}
	if c01Remote != nil {
		srv, err := harness.NewServer(calls.rec.ParseFn(), opts...)
		if err != nil {
			return nil, err
		}
		mc := memnet.NewConn("mem:client1")
		mc.RemoteOverride, mc.LocalOverride = c01Remote, c01Remote
		calls.rec.Conn = mc
		return &harness.One{Server: srv, Conn: srv.ConnectWith(mc)}, nil
	}
	one, err := harness.StartOne(calls.rec.ParseFn(), opts...)
	if err == nil {
		calls.rec.Conn = one.C
	}
	return one, err
}

// c01Remote, when set, is the address (local and remote) the transport of the next c01Server connection reports.
var c01Remote net.Addr

func evKinds(evs []script.Ev) []string {
	var out []string
	for _, e := range evs {
		if e.Kind == "op" || e.Kind == "ret" {
			continue
		}
		out = append(out, e.String())
	}
	return out
}

func c01Run(startup int, l pwLetter, cont []contLetter, pipelined bool) explore.Result {
	var res explore.Result
	calls := &c01Calls{rec: &script.Rec{}}
	one, err := c01Server(calls, true)
	if err != nil {
		res.Engine = err.Error()
		return res
	}
	defer one.Stop()
	kv := c01Startups[startup].KV
	out, st := one.Step(c01StartupBytes(startup))
	if k := harness.Kinds(out); k != "R" || st != memnet.Parked {
		res.Fail("password-request", fmt.Sprintf("startup answered with %q (%s), expected the cleartext password request only", k, st))
		return res
	}
	ms, _ := pgproto.ParseBackend(out)
	if ms[0].Auth != 3 {
		res.Fail("password-request", fmt.Sprintf("expected AuthenticationCleartextPassword, got R(%d)", ms[0].Auth))
		return res
	}
	if c01Fault > 0 {
		// one transport write of the exchange that follows fails once (nothing is written by it); later writes succeed
		_, writes, _, _, _, _ := one.C.Snapshot()
		one.C.SetFaults(memnet.Faults{WriteErrOnceAt: writes + c01Fault, Timeout: c01Fault%2 == 0})
	}
	// deliver the in-place message and the continuation
	var after []byte
	var contOut [][]byte
	closed := false
	if pipelined {
		seg := append([]byte(nil), l.Bytes...)
		for _, c := range cont {
			seg = append(seg, c.Bytes...)
		}
		one.C.Push(seg)
		if l.EOF {
			one.C.EOF()
		}
		st = one.C.Await()
		after = one.C.Take()
	} else {
		one.C.Push(l.Bytes)
		if l.EOF {
			one.C.EOF()
		}
		st = one.C.Await()
		after = one.C.Take()
		if st == memnet.Parked {
			for _, c := range cont {
				o, s := one.Step(c.Bytes)
				contOut = append(contOut, o)
				after = append(after, o...)
				if s != memnet.Parked {
					st = s
					break
				}
			}
		}
	}
	closed = one.C.IsClosed()
	msgs, perr := pgproto.ParseBackend(after)
	if perr != nil {
		res.Fail("reply-grammar", perr.Error())
		return res
	}
	kinds := pgproto.Kinds(msgs)
	authOK := false
	for _, m := range msgs {
		if m.Type == 'R' && m.Auth == 0 {
			authOK = true
		}
	}
	user, db := "", ""
	for i := 0; i+1 < len(kv); i += 2 {
		if kv[i] == "user" {
			user = kv[i+1]
		}
		if kv[i] == "database" {
			db = kv[i+1]
		}
	}
	wantCall := fmt.Sprintf("db=%q user=%q pw=%q", db, user, l.PW)
	accepted := authOK
	switch l.Accept {
	case "yes":
		if !authOK {
			res.Fail("valid-credentials-refused", fmt.Sprintf("well-formed good password but no AuthenticationOk; reply %q, connection closed=%v", kinds, closed))
			return res
		}
	case "no":
		accepted = false
	}
	// (a) AuthenticationOk only after exactly one accepting validator call with the exact credentials
	if authOK {
		if l.Accept == "no" {
			res.Fail("session-without-accepted-credentials", fmt.Sprintf("AuthenticationOk was sent although the strategy did not accept (%s); validator calls %v; reply %q", l.Name, calls.validator, kinds))
		} else if len(calls.validator) != 1 || calls.validator[0] != wantCall {
			res.Fail("validator-arguments", fmt.Sprintf("accepted, but validator calls were %v, expected exactly [%s]", calls.validator, wantCall))
		}
	}
	if !accepted {
		// (b) nothing of the authenticated phase
	scan:
		for _, m := range msgs {
			switch m.Type {
			case 'E':
			case 'Z':
				res.Notes = append(res.Notes, "ReadyForQuery follows the rejection ErrorResponse")
			default:
				res.Fail("authenticated-phase-reached", fmt.Sprintf("after a non-accepted authentication (%s) the server sent %v", l.Name, pgproto.Strings(msgs)))
				break scan
			}
		}
		if strings.Count(kinds, "E") > 1 || strings.Count(kinds, "Z") > 1 || strings.HasPrefix(kinds, "Z") || !(kinds == "" || kinds == "E" || kinds == "EZ") {
			res.Fail("reply-after-rejection", fmt.Sprintf("after a non-accepted authentication (%s) the reply was %q; only a single ErrorResponse is allowed, nothing answers later input", l.Name, kinds))
		}
		if cb := evKinds(calls.rec.Evs); len(cb) > 0 {
			res.Fail("callback-after-rejection", fmt.Sprintf("callbacks ran although authentication was not accepted (%s): %v", l.Name, cb))
		}
		if !closed {
			res.Fail("connection-not-closed", fmt.Sprintf("after a non-accepted authentication (%s) the server keeps the connection open (%s), reply %q", l.Name, st, kinds))
		}
		// (c) validator said reject => exactly one E of class 28
		if l.Outcome == "reject" && c01Fault == 0 {
			n28 := 0
			for _, m := range msgs {
				if m.Type == 'E' && strings.HasPrefix(m.Fields['C'], "28") {
					n28++
				}
			}
			if n28 != 1 {
				res.Fail("wrong-password-not-reported", fmt.Sprintf("a wrong password must be reported with exactly one ErrorResponse of SQLSTATE class 28, reply %v", pgproto.Strings(msgs)))
			}
		}
		if l.Outcome != "" && len(calls.validator) != 1 {
			res.Fail("validator-calls", fmt.Sprintf("validator called %d times for one password message", len(calls.validator)))
		}
		if l.Outcome == "" && l.Accept == "no" && len(calls.validator) != 0 && !strings.Contains(l.Name, "surplus") {
			res.Fail("validator-fed-malformed-input", fmt.Sprintf("validator was invoked for %s: %v", l.Name, calls.validator))
		}
	} else {
		// (d) differential: the continuation is served exactly like on a server without authentication
		ref := &c01Calls{rec: &script.Rec{}}
		r1, err := c01Server(ref, false)
		if err != nil {
			res.Engine = err.Error()
			return res
		}
		defer r1.Stop()
		refStart, _ := r1.Step(c01StartupBytes(startup))
		var refAfter []byte
		if pipelined {
			var seg []byte
			for _, c := range cont {
				seg = append(seg, c.Bytes...)
			}
			if len(seg) > 0 {
				r1.C.Push(seg)
				r1.C.Await()
			}
			refAfter = r1.C.Take()
		} else {
			for _, c := range cont {
				o, s := r1.Step(c.Bytes)
				refAfter = append(refAfter, o...)
				if s != memnet.Parked {
					break
				}
			}
		}
		got, _ := harness.CanonTranscript(after)
		want, _ := harness.CanonTranscript(append(refStart, refAfter...))
		if !sameStrings(got, want) {
			res.Fail("accepted-session-differs", fmt.Sprintf("after accepted credentials the session transcript is\n  %v\nbut the same traffic without authentication gives\n  %v", got, want))
		}
		if a, b := evKinds(calls.rec.Evs), evKinds(ref.rec.Evs); !sameStrings(a, b) {
			res.Fail("accepted-session-callbacks", fmt.Sprintf("callbacks %v vs. %v without authentication", a, b))
		}
	}
	switch {
	case accepted:
		res.Outcome = "accepted"
	case l.Outcome == "reject":
		res.Outcome = "rejected-by-validator"
	case l.Outcome == "fail":
		res.Outcome = "validator-failed"
	default:
		res.Outcome = "malformed-closed"
	}
	state := "await-password"
	next := "rejected-closed"
	if accepted {
		next = "accepted"
	}
	res.Trans = append(res.Trans, state+"|"+l.Name+"|"+next)
	for _, c := range cont {
		res.Trans = append(res.Trans, next+"|"+c.Name+"|"+next)
	}
	return res
}

// c01Fault, when > 0, makes the k-th transport write after the password request fail once (see c01Run)
var c01Fault int

func c01Enumerate(tier string, emit explore.Emit) {
	c01TLS(emit)
	// a transient write failure while the rejection is being reported must not turn the rejection into a session:
	// every not-accepting message in place of the password x the failing write (1st..4th after the password
	// request, plain or timeout kind) x {pipelined, after quiescence}, followed by a Query
	for _, l := range c01Letters() {
		if l.Accept != "no" {
			continue
		}
		for k := 1; k <= 4; k++ {
			for _, pipe := range []bool{true, false} {
				l, k, pipe := l, k, pipe
				var cont []contLetter
				if !l.EOF {
					cont = c01Cont()[:1]
				}
				emit(explore.Case{Family: "auth-write-fault", Size: 3,
					Desc: func() any {
						return map[string]any{"in_place_of_password": l.Name, "failing_write_after_password_request": k, "timeout_kind": k%2 == 0, "pipelined_in_one_segment": pipe}
					},
					Run: func() explore.Result {
						c01Fault = k
						defer func() { c01Fault = 0 }()
						return c01Run(0, l, cont, pipe)
					}})
			}
		}
	}
	for _, send := range []string{"startup", "startup + query", "startup + wrong password + query"} {
		send := send
		emit(explore.Case{Family: "after-close", Size: 2, Desc: func() any { return map[string]any{"server_closed_then_client_sends": send} },
			Run: func() explore.Result { return c01RunAfterClose(send) }})
	}
	attempts := []c01Attempt{{"db1", "alice", "good"}, {"db2", "alice", "good"}, {"db1", "bob", "good"}, {"db1", "alice", "bad"}, {"", "alice", "good"}}
	forShapes(len(attempts), 3, func(sh []int) {
		if len(sh) < 2 {
			return
		}
		seq := make([]c01Attempt, len(sh))
		for i, s := range sh {
			seq[i] = attempts[s]
		}
		emit(explore.Case{Family: "login-sequence", Size: 20 + len(seq), Desc: func() any { return map[string]any{"attempts_db_user_password": fmt.Sprint(seq)} },
			Run: func() explore.Result { return c01RunSequence(seq) }})
	})
	// the kind of transport does not matter: over a unix-domain socket (and TCP) credentials are asked for as always
	for _, kind := range []string{"unix", "tcp6", "tcp4"} {
		for _, l := range c01Letters() {
			for _, pipe := range []bool{true, false} {
				kind, l, pipe := kind, l, pipe
				var cont []contLetter
				if !l.EOF {
					cont = c01Cont()[:1]
				}
				emit(explore.Case{Family: "auth", Size: 2,
					Desc: func() any {
						return map[string]any{"startup": "user only", "in_place_of_password": l.Name, "pipelined_in_one_segment": pipe, "transport_address_kind": kind}
					},
					Run: func() explore.Result {
						c01Remote = map[string]net.Addr{"unix": &net.UnixAddr{Name: "/var/run/postgresql/.s.PGSQL.5432", Net: "unix"}, "tcp6": &net.TCPAddr{IP: net.ParseIP("::1"), Port: 5432}, "tcp4": &net.TCPAddr{IP: net.IPv4(127, 0, 0, 1), Port: 5432}}[kind]
						defer func() { c01Remote = nil }()
						return c01Run(0, l, cont, pipe)
					}})
			}
		}
	}
	letters := c01Letters()
	contA := c01Cont()
	depth := c01Depth(tier)
	for si := range c01Startups {
		for _, l := range letters {
			forShapes(len(contA), depth, func(sh []int) {
				if l.EOF && len(sh) > 0 {
					return
				}
				cont := make([]contLetter, len(sh))
				names := make([]string, len(sh))
				for i, s := range sh {
					cont[i] = contA[s]
					names[i] = contA[s].Name
				}
				for _, pipe := range []bool{true, false} {
					if !pipe && len(cont) == 0 {
						continue
					}
					si, l, pipe := si, l, pipe
					emit(explore.Case{Family: "auth", Size: len(cont),
						Desc: func() any {
							return map[string]any{"startup": c01Startups[si].Name, "in_place_of_password": l.Name, "continuation": names, "pipelined_in_one_segment": pipe}
						},
						Run: func() explore.Result {
							r := c01Run(si, l, cont, pipe)
							r.Key = fmt.Sprint(si, l.Name, names, pipe)
							return r
						}})
				}
			})
		}
	}
}
