package props

import (
	"bytes"
	"context"
	"errors"
	"fmt"
	"io"
	"strings"

	wire "github.com/jeroenrinzema/psql-wire"
	"verif/engine/explore"
	"verif/engine/harness"
	"verif/engine/memnet"
	"verif/engine/pgproto"
	"verif/engine/script"
)

// C13 — COPY-in: data delivered in order, abort reported exactly once.

type cletter struct {
	Name    string
	Kind    string // data done fail flush sync query unknown
	Payload string
	Bytes   []byte
}

func c13Letters() []cletter {
	return []cletter{
		{"CopyData(a)", "data", "a", pgproto.CopyData([]byte("a"))},
		{"CopyDone", "done", "", pgproto.CopyDone()},
		{"CopyFail(why)", "fail", "", pgproto.CopyFail("why")},
		{"CopyData(xyz\\n)", "data", "xyz\n", pgproto.CopyData([]byte("xyz\n"))},
		{"CopyFail(reason without NUL)", "fail", "", pgproto.Msg('f', []byte("boom"))},
		{"CopyFail(reason with NUL bytes inside)", "fail", "", pgproto.Msg('f', []byte("disk\x00full\x00\x00"))},
		{"Sync", "sync", "", pgproto.Sync()},
		{"Query(ok)", "query", "", pgproto.Query(progRows)},
		{"CopyData()", "data", "", pgproto.CopyData(nil)},
		{"Flush", "flush", "", pgproto.Flush()},
		{"UnknownType", "unknown", "", pgproto.Msg('z', nil)},
		{"Oversized CopyData", "oversized", "", pgproto.CopyData(make([]byte, harness.DefaultLimit+1))},
		{"Terminate", "terminate", "", pgproto.Terminate()},
	}
}

var c13Policies = []string{"drain", "take0", "take1", "take2", "fail1", "stubborn"}

// copyHandler implements the handler policies as a script Extra op: "copy<t|b>:<policy>".
func copyHandler(ctx context.Context, r *script.Rec, stmt int, op string, w wire.DataWriter, params []wire.Parameter) (bool, error) {
	if !strings.HasPrefix(op, "copy") || len(op) < 6 {
		return false, nil
	}
	format := wire.TextFormat
	if op[4] == 'b' {
		format = wire.BinaryFormat
	}
	policy := op[6:]
	cr, err := w.CopyIn(format)
	if err != nil {
		return true, &script.ReturnErr{Err: err}
	}
	r.Add(script.Ev{Kind: "copy", Op: "started"})
	chunks := 0
	read := func() error {
		err := cr.Read()
		switch {
		case err == nil:
			chunks++
			r.Add(script.Ev{Kind: "copy", Op: "chunk", Query: string(cr.Msg)})
		case err == io.EOF:
			r.Add(script.Ev{Kind: "copy", Op: "eof"})
		default:
			r.Add(script.Ev{Kind: "copy", Op: "error", Err: err.Error()})
		}
		return err
	}
	finish := func(err error) (bool, error) {
		if err == nil || err == io.EOF {
			return true, w.Complete(fmt.Sprintf("COPY %d", chunks))
		}
		return true, &script.ReturnErr{Err: err}
	}
	switch policy {
	case "drain":
		for {
			if err := read(); err != nil {
				return finish(err)
			}
		}
	case "take0", "take1", "take2":
		k := int(policy[4] - '0')
		for i := 0; i < k; i++ {
			if err := read(); err != nil {
				return finish(err)
			}
		}
		return finish(nil)
	case "fail1":
		if err := read(); err != nil {
			return finish(err)
		}
		return true, &script.ReturnErr{Err: errors.New("handler failed after one chunk")}
	case "stubborn":
		var first error
		for i := 0; i < 8; i++ {
			err := read()
			if err == io.EOF {
				if first == nil {
					return finish(err)
				}
				break
			}
			if err != nil {
				if first == nil {
					first = err
				} else {
					break // stop after the second error
				}
			}
		}
		if first == nil {
			first = errors.New("stubborn handler gave up")
		}
		return true, &script.ReturnErr{Err: first}
	}
	return true, &script.ReturnErr{Err: fmt.Errorf("unknown policy %q", policy)}
}

// c13Exp is what the reference model expects.
type c13Exp struct {
	start    []string   // allowed replies to the message that starts the COPY (Query / Execute)
	replies  [][]string // allowed replies per following letter
	handler  []string   // "chunk:<payload>", "eof", "error" in the order the handler observes them
	closedAt int        // index of the letter that closes the connection (Terminate outside COPY), -1 = none
}

// c13Policy is the reference model of a handler policy: it reacts to what a
// read delivers and says whether the handler returns ("complete" / "error") or reads on ("").
type c13Policy struct {
	name     string
	steps    int
	firstErr bool
}

func (p *c13Policy) on(ev string) string {
	switch p.name {
	case "drain":
		switch ev {
		case "eof":
			return "complete"
		case "error":
			return "error"
		}
		return ""
	case "take0", "take1", "take2":
		k := int(p.name[4] - '0')
		switch ev {
		case "start":
			if k == 0 {
				return "complete"
			}
			return ""
		case "eof":
			return "complete"
		case "error":
			return "error"
		}
		p.steps++
		if p.steps == k {
			return "complete"
		}
		return ""
	case "fail1":
		switch ev {
		case "start":
			return ""
		case "eof":
			return "complete"
		}
		return "error"
	case "stubborn":
		if ev == "start" {
			return ""
		}
		p.steps++
		switch ev {
		case "eof":
			if p.firstErr {
				return "error"
			}
			return "complete"
		case "error":
			if p.firstErr {
				return "error"
			}
			p.firstErr = true
		}
		if p.steps == 8 {
			return "error"
		}
		return ""
	}
	panic("policy " + p.name)
}

// c13Sim is the reference model of the COPY sub-protocol for one cycle.
func c13Sim(mode, policy string, letters []cletter) c13Exp {
	var e c13Exp
	e.closedAt = -1
	pol := &c13Policy{name: policy}
	head := "G"
	if mode == "simple" {
		head = "TG"
	}
	cycleEnd := func(ret string) string {
		r := "C"
		if ret == "error" {
			r = "E"
		}
		if mode == "simple" {
			r += "Z" // the simple query cycle ends with its ReadyForQuery
		}
		return r
	}
	copying := true
	skipping := false
	closed := false
	if ret := pol.on("start"); ret != "" {
		copying = false
		skipping = mode == "extended" && ret == "error"
		e.start = []string{head + cycleEnd(ret)}
	} else {
		e.start = []string{head}
	}
	for li, l := range letters {
		if copying {
			ev := ""
			switch l.Kind {
			case "flush", "sync":
				e.replies = append(e.replies, []string{""}) // invisible inside COPY
				continue
			case "data":
				ev = "chunk"
				e.handler = append(e.handler, "chunk:"+l.Payload)
			case "done":
				ev = "eof"
				e.handler = append(e.handler, "eof")
			default:
				ev = "error"
				e.handler = append(e.handler, "error")
			}
			ret := pol.on(ev)
			if ret == "" {
				e.replies = append(e.replies, []string{""})
				continue
			}
			copying = false
			skipping = mode == "extended" && ret == "error"
			e.replies = append(e.replies, []string{cycleEnd(ret)})
			continue
		}
		// outside COPY mode
		if closed {
			e.replies = append(e.replies, []string{""})
			continue
		}
		switch {
		case l.Kind == "terminate":
			closed = true
			e.closedAt = li
			e.replies = append(e.replies, []string{""})
		case l.Kind == "oversized" && skipping:
			e.replies = append(e.replies, []string{"", "E", "EZ"}) // C06 / C10: not asserted here
		case l.Kind == "oversized":
			e.replies = append(e.replies, []string{"E", "EZ"})
			if mode == "extended" {
				skipping = true
			}
		case skipping && l.Kind == "sync":
			skipping = false
			e.replies = append(e.replies, []string{"Z"})
		case skipping && l.Kind == "query":
			e.replies = append(e.replies, []string{""}) // discarded until Sync (C06)
		case skipping && l.Kind == "unknown":
			e.replies = append(e.replies, []string{"", "E", "EZ"}) // C06: not asserted
		case skipping:
			e.replies = append(e.replies, []string{""})
		case l.Kind == "data" || l.Kind == "done" || l.Kind == "fail" || l.Kind == "flush":
			e.replies = append(e.replies, []string{""}) // COPY messages outside COPY mode are ignored
		case l.Kind == "sync":
			e.replies = append(e.replies, []string{"Z"})
		case l.Kind == "query":
			e.replies = append(e.replies, []string{"TDCZ"})
		case l.Kind == "unknown":
			e.replies = append(e.replies, []string{"E", "EZ"}) // reaction to an unknown type is not specified
			if mode == "extended" {
				skipping = true // may or may not skip: the caller stops comparing after an unspecified branch
			}
		}
	}
	return e
}

func init() {
	explore.Register(&explore.Check{
		ID:        "C13",
		Level:     "model_checking",
		Technique: "exhaustive enumeration of client message sequences following a CopyInResponse x handler reading policies x column count / format x simple / extended mode on a real server; per-message replies and the chunks observed by the handler compared with a reference simulation of the COPY sub-protocol",
		Rule:      "all sequences of length <= d over 9 letters {CopyData a / xyz\\n / empty, CopyDone, CopyFail, Flush, Sync, Query, unknown type} x 6 handler policies {drain, take0..2, fail after 1, keep reading after error} x {(1 column,text),(3 columns,binary)} x {simple, extended}, each followed by Sync + Query; payloads: all sequences of <= 2 CopyData payloads over 11 look-alike payloads (\\.\\n, \\N, NUL, 0xFF, a framed CopyDone ...) x {drain, take1} x {CopyDone, CopyFail}; extended: every Bind result-format section x both copy formats x 1 / 3 columns",
		Assumptions: []string{
			"a handler that keeps reading after the abort error is only required to produce exactly one ErrorResponse and one ReadyForQuery for the cycle (what it reads afterwards is not asserted)",
			"treatment of Query / unknown messages while an extended batch is skipping after an error belongs to C06 and is not asserted",
		},
		Enumerate: c13Enumerate,
		Bounds: func(tier string) map[string]any {
			return map[string]any{"sequence_depth": c13Depth(tier), "letters": 9, "policies": c13Policies}
		},
		RequiredOutcomes: []string{"completed", "aborted-by-client", "handler-failed", "foreign-message"},
	})
}

// c13RunWhileHeld: the handler keeps looking at a payload (CopyReader.Msg) it was handed by Read while OTHER
// connections of the same server are active: connection A may have completed COPYs before (n bytes each) and sends
// a message while B's handler holds its payload; or both are inside a COPY at the same time. A payload is
// byte-exact when it is handed over and still byte-exact when the handler is done looking at it (before its next
// Read), whatever the neighbours do meanwhile.
func c13RunWhileHeld(before []int, payload int, meanwhile string) explore.Result {
	var res explore.Result
	res.Outcome = "completed"
	res.Key = fmt.Sprint("while-held", before, payload, meanwhile)
	var during func(who string)
	var bad []string
	var seen = map[string][]string{}
	parse := func(ctx context.Context, q string) (wire.PreparedStatements, error) {
		who := string(wire.ClientParameters(ctx)["user"])
		return wire.Prepared(wire.NewStatement(func(ctx context.Context, w wire.DataWriter, params []wire.Parameter) error {
			if !strings.HasPrefix(q, "copy") {
				return w.Complete("SELECT 0")
			}
			cr, err := w.CopyIn(wire.TextFormat)
			if err != nil {
				return err
			}
			n := 0
			for {
				err := cr.Read()
				if err == io.EOF {
					return w.Complete(fmt.Sprintf("COPY %d", n))
				}
				if err != nil {
					return err
				}
				n++
				handed := string(cr.Msg)
				seen[who] = append(seen[who], handed)
				if during != nil {
					during(who)
				}
				if string(cr.Msg) != handed {
					bad = append(bad, fmt.Sprintf("connection %s: payload %d was handed over as %.40q... (%d bytes) and read %.60q... when the handler had finished looking at it", who, n, handed, len(handed), string(cr.Msg)))
				}
			}
		}, wire.WithColumns(wire.Columns{{Name: "line", Oid: 25}}))), nil
	}
	srv, err := harness.NewServer(parse)
	if err != nil {
		res.Engine = err.Error()
		return res
	}
	defer srv.Stop()
	a, b := srv.Connect(), srv.Connect()
	a.Step(pgproto.Startup("user", "A"))
	b.Step(pgproto.Startup("user", "B"))
	pay := func(c byte, n int) []byte { return append(bytes.Repeat([]byte{c}, n-1), '\n') }
	want := map[string][]string{}
	for _, n := range before {
		if n < 0 { // a COPY on A that the client aborts
			a.Step(pgproto.Query("copy"))
			a.Step(pgproto.CopyData(pay('a', -n)))
			a.Step(pgproto.CopyFail("changed my mind"))
			want["A"] = append(want["A"], string(pay('a', -n)))
			continue
		}
		a.Step(pgproto.Query("copy"))
		a.Step(pgproto.CopyData(pay('a', n)))
		a.Step(pgproto.CopyDone())
		want["A"] = append(want["A"], string(pay('a', n)))
	}
	var outA []byte
	switch meanwhile {
	case "A sends a query", "A sends a long query", "A sends Parse + Sync":
		during = func(who string) {
			if who != "B" {
				return
			}
			during = nil
			switch meanwhile {
			case "A sends a query":
				outA, _ = a.Step(pgproto.Query("SELECT 'zzzzzzzzzzzzzzzz'"))
			case "A sends a long query":
				outA, _ = a.Step(pgproto.Query("SELECT '" + strings.Repeat("z", 700) + "'"))
			default:
				outA, _ = a.Step(pgproto.Cat(pgproto.Parse("zzzzzzzz", "SELECT zzzzzzzzzzzzzzzzzzzzzzzzzzzzzzzzzzzzzzzzzzzz"), pgproto.Sync()))
			}
		}
		b.Step(pgproto.Query("copy"))
		b.Step(pgproto.CopyData(pay('B', payload)))
		b.Step(pgproto.CopyData(pay('C', payload/2+1)))
		outB, _ := b.Step(pgproto.CopyDone())
		want["B"] = []string{string(pay('B', payload)), string(pay('C', payload/2+1))}
		if k := harness.Kinds(outB); k != "CZ" {
			res.Fail("reply-sequence", fmt.Sprintf("B's CopyDone answered %q", k))
		}
		if k := harness.Kinds(outA); !strings.HasSuffix(k, "Z") || strings.Contains(k, "E") {
			res.Fail("reply-sequence", fmt.Sprintf("A's message while B's handler held a payload was answered %q", k))
		}
	case "A starts a COPY of its own", "A starts and finishes a COPY of its own":
		during = func(who string) {
			if who != "B" {
				return
			}
			during = nil
			a.Step(pgproto.Query("copy"))
			a.Step(pgproto.CopyData(pay('x', payload+7)))
			want["A"] = append(want["A"], string(pay('x', payload+7)))
			if meanwhile == "A starts and finishes a COPY of its own" {
				a.Step(pgproto.CopyDone())
			}
		}
		b.Step(pgproto.Query("copy"))
		b.Step(pgproto.CopyData(pay('B', payload)))
		b.Step(pgproto.CopyData(pay('C', payload/2+1)))
		b.Step(pgproto.CopyDone())
		want["B"] = []string{string(pay('B', payload)), string(pay('C', payload/2+1))}
		if meanwhile == "A starts a COPY of its own" {
			a.Step(pgproto.CopyDone())
		}
	}
	for _, who := range []string{"A", "B"} {
		if !sameStrings(seen[who], want[who]) {
			res.Fail("copy-data-mismatch", fmt.Sprintf("connection %s: its handler was handed %d payloads %.80q, the client had sent %d payloads %.80q", who, len(seen[who]), seen[who], len(want[who]), want[who]))
		}
	}
	if len(bad) > 0 {
		res.Fail("copy-data-mismatch", fmt.Sprintf("A completed COPYs of %v bytes before; then %s while B's handler was looking at a payload of %d bytes: %s", before, meanwhile, payload, strings.Join(bad, "; ")))
	}
	res.Trans = []string{"copy|neighbour active|payload intact"}
	return res
}

// c13RunLateFailure: the statement reports its outcome through Complete and THEN fails (a deferred Complete that
// runs before the abort error is returned; a handler that completes at CopyDone and fails while storing the rows):
// the failure is still the statement's failure - exactly one ErrorResponse and one ReadyForQuery end the cycle.
func c13RunLateFailure(extended bool, end string, chunks int) explore.Result {
	var res explore.Result
	res.Outcome = "handler-failed"
	res.Key = fmt.Sprint("late-failure", extended, end, chunks)
	parse := func(ctx context.Context, q string) (wire.PreparedStatements, error) {
		if q != "copy" {
			return wire.Prepared(wire.NewStatement(func(ctx context.Context, w wire.DataWriter, p []wire.Parameter) error { return w.Complete("OK") })), nil
		}
		return wire.Prepared(wire.NewStatement(func(ctx context.Context, w wire.DataWriter, p []wire.Parameter) (err error) {
			cr, err := w.CopyIn(wire.TextFormat)
			if err != nil {
				return err
			}
			n := 0
			for {
				rerr := cr.Read()
				if rerr == io.EOF {
					if cerr := w.Complete(fmt.Sprintf("COPY %d", n)); cerr != nil {
						return cerr
					}
					return errors.New("storing the rows failed after the copy was completed")
				}
				if rerr != nil {
					w.Complete(fmt.Sprintf("COPY %d", n)) //nolint:errcheck (the row count so far, as a deferred Complete would report it)
					return rerr
				}
				n++
			}
		}, wire.WithColumns(wire.Columns{{Name: "line", Oid: 25}}))), nil
	}
	one, err := harness.StartOne(parse)
	if err != nil {
		res.Engine = err.Error()
		return res
	}
	defer one.Stop()
	one.Step(pgproto.Startup("user", "u"))
	if extended {
		one.Step(pgproto.Cat(pgproto.Parse("", "copy"), pgproto.Bind("", "", nil, nil, nil), pgproto.Execute("", 0)))
	} else {
		one.Step(pgproto.Query("copy"))
	}
	for i := 0; i < chunks; i++ {
		one.Step(pgproto.CopyData([]byte("line\n")))
	}
	last := pgproto.CopyDone()
	if end == "CopyFail" {
		last = pgproto.CopyFail("changed my mind")
	}
	if extended {
		last = pgproto.Cat(last, pgproto.Sync())
	}
	out, _ := one.Step(last)
	k := harness.Kinds(out)
	if strings.Count(k, "E") != 1 || strings.Count(k, "Z") != 1 || !strings.HasSuffix(k, "Z") {
		res.Fail("copy-reply", fmt.Sprintf("a statement that calls Complete and then fails (%d chunks, the client ends the stream with %s, extended protocol: %v): the cycle ended with %q; expected exactly one ErrorResponse and one ReadyForQuery", chunks, end, extended, k))
	}
	out, _ = one.Step(pgproto.Query("ok"))
	if k := harness.Kinds(out); k != "CZ" {
		res.Fail("copy-reply", fmt.Sprintf("after that cycle a plain query is answered %q", k))
	}
	res.Trans = []string{"copying|completed then failed|error + ready"}
	return res
}

// c13RunTwoCopies: the statement runs TWO copy-in cycles on the same DataWriter (the first ended by CopyDone): each
// CopyIn call is announced to the client by a CopyInResponse of the requested format, each cycle's payloads reach
// the handler, and the statement completes once.
func c13RunTwoCopies(f1, f2 wire.FormatCode, extended bool) explore.Result {
	var res explore.Result
	res.Outcome = "completed"
	res.Key = fmt.Sprint("two-copies", f1, f2, extended)
	var seen []string
	parse := func(ctx context.Context, q string) (wire.PreparedStatements, error) {
		return wire.Prepared(wire.NewStatement(func(ctx context.Context, w wire.DataWriter, p []wire.Parameter) error {
			for i, f := range []wire.FormatCode{f1, f2} {
				cr, err := w.CopyIn(f)
				if err != nil {
					return err
				}
				for {
					rerr := cr.Read()
					if rerr == io.EOF {
						break
					}
					if rerr != nil {
						return rerr
					}
					seen = append(seen, fmt.Sprintf("copy %d: %q", i+1, cr.Msg))
				}
			}
			return w.Complete("COPY 2")
		}, wire.WithColumns(wire.Columns{{Name: "line", Oid: 25}}))), nil
	}
	one, err := harness.StartOne(parse)
	if err != nil {
		res.Engine = err.Error()
		return res
	}
	defer one.Stop()
	one.Step(pgproto.Startup("user", "u"))
	start := pgproto.Query("q")
	if extended {
		start = pgproto.Cat(pgproto.Parse("", "q"), pgproto.Bind("", "", nil, nil, nil), pgproto.Execute("", 0))
	}
	o1, _ := one.Step(start)
	one.Step(pgproto.CopyData([]byte("first\n")))
	o2, _ := one.Step(pgproto.CopyDone())
	one.Step(pgproto.CopyData([]byte("second\n")))
	last := pgproto.CopyDone()
	if extended {
		last = pgproto.Cat(last, pgproto.Sync())
	}
	o3, _ := one.Step(last)
	g := func(out []byte) string { return strings.TrimLeft(harness.Kinds(out), "T12") }
	want := []string{`copy 1: "first\n"`, `copy 2: "second\n"`}
	if g(o1) != "G" || g(o2) != "G" || g(o3) != "CZ" || !sameStrings(seen, want) {
		res.Fail("copy-reply", fmt.Sprintf("a statement running two copy-in cycles (formats %d then %d, extended protocol: %v): start answered %q, the first CopyDone %q (expected the second CopyInResponse), the second CopyDone %q; the handler saw %v", f1, f2, extended, harness.Kinds(o1), harness.Kinds(o2), harness.Kinds(o3), seen))
	}
	res.Trans = []string{"copying|copy done|copying again"}
	return res
}

func c13Depth(tier string) int {
	if tier == "thorough" {
		return 5
	}
	return 4
}

func c13Run(mode, policy string, ncols int, binary bool, letters []cletter, rf ...int16) explore.Result {
	var res explore.Result
	rec := &script.Rec{Extra: copyHandler}
	one, err := harness.StartOne(rec.ParseFn())
	if err != nil {
		res.Engine = err.Error()
		return res
	}
	rec.Conn = one.C
	defer one.Stop()
	one.Step(pgproto.Startup("user", "u"))
	f := "t"
	if binary {
		f = "b"
	}
	prog := fmt.Sprintf("%d:copy%s:%s", ncols, f, policy)
	exp := c13Sim(mode, policy, letters)
	var out []byte
	var st memnet.Status
	if mode == "simple" {
		out, st = one.Step(pgproto.Query(prog))
	} else {
		// (the Bind message's RESULT format codes concern DataRows only: the copy format is the handler's choice)
		out, _ = one.Step(pgproto.Cat(pgproto.Parse("", prog), pgproto.Bind("", "", nil, nil, rf)))
		if k := harness.Kinds(out); k != "12" {
			res.Engine = "Parse/Bind failed: " + k
			return res
		}
		out, st = one.Step(pgproto.Execute("", 0))
	}
	ms, perr := pgproto.ParseBackend(out)
	if perr != nil {
		res.Fail("reply-grammar", perr.Error())
		return res
	}
	if k := pgproto.Kinds(ms); !containsStr(exp.start, k) {
		res.Fail("copy-start", fmt.Sprintf("COPY start answered %q, expected %q", k, exp.start))
		return res
	}
	for _, m := range ms {
		if m.Type == 'G' {
			wantF := byte(0)
			if binary {
				wantF = 1
			}
			ok := m.CopyFmt == wantF && len(m.CopyCols) == ncols
			for _, c := range m.CopyCols {
				if c != int16(wantF) {
					ok = false
				}
			}
			if !ok {
				res.Fail("copy-in-response", fmt.Sprintf("CopyInResponse %s for %d columns in format %d", m.String(), ncols, wantF))
			}
		}
	}
	full := append(append([]cletter(nil), letters...), cletter{"Sync", "sync", "", pgproto.Sync()}, cletter{"Query(ok)", "query", "", pgproto.Query(progRows)})
	expFull := c13Sim(mode, policy, full)
	var kindsAll string
	kindsAll = harness.Kinds(out)
	uncertain := false
	for j, l := range full {
		if st != memnet.Parked {
			if expFull.closedAt >= 0 && j > expFull.closedAt && st == memnet.Closed {
				break // the client terminated the connection: nothing more can be observed
			}
			res.Fail("connection-dropped", fmt.Sprintf("connection %s before %s", st, l.Name))
			return res
		}
		if expFull.closedAt >= 0 && j > expFull.closedAt {
			res.Fail("terminate-ignored", fmt.Sprintf("%s %s: the connection is still open after Terminate (history %v)", mode, prog, c13Names(full)))
			return res
		}
		var o []byte
		o, st = one.Step(l.Bytes)
		k := harness.Kinds(o)
		kindsAll += k
		if uncertain {
			continue
		}
		if !containsStr(expFull.replies[j], k) {
			clause := "copy-reply"
			if strings.Count(k, "E") > 1 || (strings.Contains(k, "E") && containsStr(expFull.replies[j], "")) {
				clause = "abort-reported-more-than-once"
			}
			res.Fail(clause, fmt.Sprintf("%s %s: step %d %s answered %q, expected one of %q; history %v; handler saw %v", mode, prog, j, l.Name, k, expFull.replies[j], c13Names(full), c13Handler(rec)))
			return res
		}
		if len(expFull.replies[j]) > 1 && mode == "extended" {
			uncertain = true // unspecified branch taken (C06 territory): stop per-step comparison
		}
	}
	if policy != "stubborn" {
		if got := c13Handler(rec); !sameStrings(got, expFull.handler) {
			res.Fail("handler-observations", fmt.Sprintf("%s %s after %v: handler observed %v, expected %v", mode, prog, c13Names(full), got, expFull.handler))
		}
	} else {
		// only: errors are non-nil non-EOF, chunks byte-exact prefix
		got := c13Handler(rec)
		for i := 0; i < len(got) && i < len(expFull.handler); i++ {
			if got[i] != expFull.handler[i] {
				if !uncertain {
					res.Fail("handler-observations", fmt.Sprintf("%s %s after %v: handler observed %v, expected %v", mode, prog, c13Names(full), got, expFull.handler))
				}
				break
			}
		}
	}
	// outcome class
	h := strings.Join(expFull.handler, ",")
	switch {
	case policy == "fail1" && strings.HasPrefix(h, "chunk"):
		res.Outcome = "handler-failed"
	case strings.Contains(h, "error"):
		res.Outcome = "aborted-by-client"
		for i, l := range letters {
			_ = i
			if l.Kind == "query" || l.Kind == "unknown" {
				res.Outcome = "foreign-message"
				break
			}
			if l.Kind == "fail" {
				break
			}
		}
	default:
		res.Outcome = "completed"
	}
	res.Key = fmt.Sprint(mode, prog, c13Names(letters), rf)
	// model transitions
	state := "copying"
	for j, l := range full {
		next := state
		if state == "copying" && j < len(expFull.replies) && !containsStr(expFull.replies[j], "") {
			next = "done"
		}
		res.Trans = append(res.Trans, fmt.Sprintf("%s/%s/%s|%s|%s", mode, policy, state, l.Kind, next))
		state = next
	}
	_ = kindsAll
	return res
}

func c13Handler(rec *script.Rec) []string {
	var out []string
	for _, e := range rec.Evs {
		if e.Kind != "copy" {
			continue
		}
		switch e.Op {
		case "chunk":
			out = append(out, "chunk:"+e.Query)
		case "eof":
			out = append(out, "eof")
		case "error":
			out = append(out, "error")
		}
	}
	return out
}

func c13Names(ls []cletter) []string {
	out := make([]string, len(ls))
	for i, l := range ls {
		out[i] = l.Name
	}
	return out
}

// c13Binary: the same abort discipline through the binary row reader (NewBinaryColumnReader): the stream
// (two rows + end-of-data trailer) is followed by optional Flush / Sync and then a terminal message.
func c13Binary(emit explore.Emit) {
	s := c14Stream{Table: []string{"int4", "text"}, Rows: 2, Nulls: make([]bool, 4), Trailer: true}
	stream, _, want := s.encode()
	terminals := []struct {
		name  string
		msg   []byte
		abort bool
	}{{"CopyDone", pgproto.CopyDone(), false}, {"CopyFail", pgproto.CopyFail("why"), true}, {"Query", pgproto.Query("again"), true}, {"unknown type", pgproto.Msg('z', nil), true}}
	fillers := [][]byte{nil, pgproto.Flush(), pgproto.Sync(), pgproto.Cat(pgproto.Sync(), pgproto.Flush())}
	for _, withTrailer := range []bool{true, false} {
		for fi, fill := range fillers {
			for _, t := range terminals {
				withTrailer, fi, fill, t := withTrailer, fi, fill, t
				emit(explore.Case{Family: "binary-reader", Size: 3,
					Desc: func() any {
						return map[string]any{"binary_stream": s.String(), "trailer_sent": withTrailer, "flush_sync_variant": fi, "then": t.name}
					},
					Run: func() explore.Result {
						var res explore.Result
						res.Key = fmt.Sprint("binary", withTrailer, fi, t.name)
						data := stream
						if !withTrailer {
							data = stream[:len(stream)-2]
						}
						o, eng := c14ServeWith(s.Table, [][]byte{data}, pgproto.Cat(fill, t.msg), 0)
						if eng != "" {
							res.Engine = eng
							return res
						}
						res.Outcome = "completed"
						if t.abort {
							res.Outcome = "aborted-by-client"
						}
						res.Trans = []string{fmt.Sprintf("binary/copying|%s|done", t.name)}
						if !t.abort {
							if !sameStrings(o.rows, want) || o.final != "eof" || !strings.HasPrefix(o.reply, "CZ") {
								res.Fail("copy-reply", fmt.Sprintf("binary COPY ended by CopyDone: rows %v, reader %q, reply %q", o.rows, o.final, o.reply))
							}
							return res
						}
						if !strings.HasPrefix(o.final, "error") {
							res.Fail("handler-observations", fmt.Sprintf("binary COPY (trailer sent: %v) then %s instead of CopyDone: the row reader ended with %q; an abort must surface as a non-EOF error (rows %v, reply %q)", withTrailer, t.name, o.final, o.rows, o.reply))
						} else if !strings.HasPrefix(o.reply, "EZ") || strings.Count(strings.SplitN(o.reply, " then:", 2)[0], "E") != 1 {
							res.Fail("abort-reported-more-than-once", fmt.Sprintf("binary COPY aborted by %s answered %q, expected exactly one ErrorResponse and one ReadyForQuery", t.name, o.reply))
						}
						return res
					}})
			}
		}
	}
}

// c13Payloads: CopyData payloads that look like something else (the text format's end-of-data marker, NULL
// marker, line ends, NUL / 0xFF bytes, a framed message): payloads are opaque and reach the handler byte-exact.
func c13Payloads() []cletter {
	var out []cletter
	for _, p := range []string{"\\.\n", "\\.", "\\.\r\n", "\\", ".\n", "\n", "\\N\n", "\x00", "\xff\xff", "c\x00\x00\x00\x04", "\\.\nrest\n"} {
		out = append(out, cletter{fmt.Sprintf("CopyData(%q)", p), "data", p, pgproto.CopyData([]byte(p))})
	}
	return out
}

// c13BinaryCut: the client completes the copy (CopyDone) although its binary stream stops in the middle of the
// header, a field count, a field length or a value: a failed COPY — exactly one ErrorResponse and one
// ReadyForQuery, and the session goes on (the next COPY starts normally).
func c13BinaryCut(emit explore.Emit) {
	s := c14Stream{Table: []string{"int4", "text"}, Rows: 2, Nulls: make([]bool, 4), Trailer: true}
	stream, rowEnds, _ := s.encode()
	boundary := map[int]bool{}
	for _, e := range rowEnds {
		boundary[e] = true
	}
	for cut := 1; cut < len(stream); cut++ {
		if boundary[cut] {
			continue // a stream that stops between two rows is a complete (trailer-less) stream
		}
		cut := cut
		for _, split := range []bool{false, true} {
			split := split
			emit(explore.Case{Family: "binary-reader", Size: 4,
				Desc: func() any {
					return map[string]any{"binary_stream": s.String(), "client_stops_after_bytes": cut, "of": len(stream), "then": "CopyDone", "two_copydata_messages": split}
				},
				Run: func() explore.Result {
					var res explore.Result
					res.Outcome = "aborted-by-client"
					res.Key = fmt.Sprint("binary-cut", cut, split)
					chunks := [][]byte{stream[:cut]}
					if split && cut > 1 {
						chunks = [][]byte{stream[:cut/2], stream[cut/2 : cut]}
					}
					o, eng := c14ServeWith(s.Table, chunks, pgproto.CopyDone(), 0)
					if eng != "" {
						res.Engine = eng
						return res
					}
					res.Trans = []string{"binary/copying|CopyDone inside a row|done"}
					if !strings.HasPrefix(o.final, "error") && !strings.HasPrefix(o.final, "reader") {
						res.Fail("handler-observations", fmt.Sprintf("binary stream stops after %d of %d bytes, then CopyDone: the row reader ended with %q (rows %v)", cut, len(stream), o.final, o.rows))
					} else if o.reply != "EZ" {
						res.Fail("copy-reply", fmt.Sprintf("binary stream stops after %d of %d bytes, then CopyDone: the failed COPY was answered %q (expected exactly one ErrorResponse and one ReadyForQuery, and a following COPY to start normally)", cut, len(stream), o.reply))
					}
					return res
				}})
		}
	}
}

// c13Wide: CopyInResponse announces one format code per declared column, for every column count.
func c13Wide(emit explore.Emit) {
	for _, n := range []int{1, 2, 15, 16, 17, 31, 32, 33, 63, 64, 65, 96, 127, 128, 129, 255, 256, 257, 1000, 1600} {
		for _, bin := range []bool{false, true} {
			n, bin := n, bin
			emit(explore.Case{Family: "wide-copy", Size: 2, Desc: func() any { return map[string]any{"columns": n, "binary": bin} },
				Run: func() explore.Result {
					var res explore.Result
					res.Outcome = "completed"
					res.Key = fmt.Sprint("wide", n, bin)
					cols := make(wire.Columns, n)
					for i := range cols {
						cols[i] = wire.Column{Name: fmt.Sprintf("c%d", i), Oid: 25}
					}
					format := wire.TextFormat
					if bin {
						format = wire.BinaryFormat
					}
					parse := func(ctx context.Context, q string) (wire.PreparedStatements, error) {
						return wire.Prepared(wire.NewStatement(func(ctx context.Context, w wire.DataWriter, p []wire.Parameter) error {
							cr, err := w.CopyIn(format)
							if err != nil {
								return err
							}
							for {
								if err := cr.Read(); err != nil {
									if err == io.EOF {
										return w.Complete("COPY 0")
									}
									return err
								}
							}
						}, wire.WithColumns(cols))), nil
					}
					one, err := harness.StartOne(parse, wire.MessageBufferSize(1<<20))
					if err != nil {
						res.Engine = err.Error()
						return res
					}
					defer one.Stop()
					one.Step(pgproto.Startup("user", "u"))
					out, _ := one.Step(pgproto.Query("copy"))
					ms, perr := pgproto.ParseBackend(out)
					if perr != nil {
						res.Fail("reply-grammar", fmt.Sprintf("COPY into %d columns: %v", n, perr))
						return res
					}
					var g *pgproto.BMsg
					for i := range ms {
						if ms[i].Type == 'G' {
							g = &ms[i]
						}
					}
					wantF := int16(0)
					if bin {
						wantF = 1
					}
					ok := g != nil && int16(g.CopyFmt) == wantF && len(g.CopyCols) == n
					if ok {
						for _, c := range g.CopyCols {
							ok = ok && c == wantF
						}
					}
					if !ok {
						res.Fail("copy-in-response", fmt.Sprintf("COPY into %d columns in format %d: reply %q, CopyInResponse %v", n, wantF, pgproto.Kinds(ms), g))
					}
					out, _ = one.Step(pgproto.Cat(pgproto.CopyDone(), pgproto.Query("copy")))
					if k := harness.Kinds(out); !strings.HasPrefix(k, "CZ") {
						res.Fail("copy-reply", fmt.Sprintf("COPY into %d columns completed by CopyDone: %q", n, k))
					}
					res.Trans = []string{"copy-start|wide table|copying"}
					return res
				}})
		}
	}
}

func c13Enumerate(tier string, emit explore.Emit) {
	for _, f := range [][2]wire.FormatCode{{wire.TextFormat, wire.TextFormat}, {wire.BinaryFormat, wire.BinaryFormat}, {wire.TextFormat, wire.BinaryFormat}} {
		for _, ext := range []bool{false, true} {
			f, ext := f, ext
			emit(explore.Case{Family: "late-failure", Size: 5, Desc: func() any {
				return map[string]any{"handler": "two copy-in cycles on one writer", "formats": []int{int(f[0]), int(f[1])}, "extended_protocol": ext}
			},
				Run: func() explore.Result { return c13RunTwoCopies(f[0], f[1], ext) }})
		}
	}
	// a value larger than the message limit that arrives in CopyData messages each within the limit: every payload
	// reaches the binary reader, the value is delivered whole (C14's runner)
	for _, cfg := range c14BigValueConfigs() {
		cfg := cfg
		emit(explore.Case{Family: "binary-reader", Size: 5,
			Desc: func() any {
				return map[string]any{"message_limit": cfg.limit, "text_value_bytes": cfg.size, "copydata_chunk": cfg.chunk}
			},
			Run: func() explore.Result {
				r := c14BigValue(cfg)
				r.Outcome = "completed"
				for i := range r.Violations {
					r.Violations[i].Clause = "copy-data-mismatch"
				}
				return r
			}})
	}
	for _, extended := range []bool{false, true} {
		for _, end := range []string{"CopyDone", "CopyFail"} {
			for chunks := 0; chunks <= 2; chunks++ {
				extended, end, chunks := extended, end, chunks
				emit(explore.Case{Family: "late-failure", Size: 4,
					Desc: func() any {
						return map[string]any{"extended_protocol": extended, "client_ends_with": end, "chunks_before": chunks, "handler": "calls Complete, then returns an error"}
					},
					Run: func() explore.Result { return c13RunLateFailure(extended, end, chunks) }})
			}
		}
	}
	for _, before := range [][]int{nil, {8}, {40}, {300}, {8, 40}, {-8}, {-40, 8}, {5000}} {
		for _, payload := range []int{4, 64, 1000, 6000} {
			for _, meanwhile := range []string{"A sends a query", "A sends a long query", "A sends Parse + Sync", "A starts a COPY of its own", "A starts and finishes a COPY of its own"} {
				before, payload, meanwhile := before, payload, meanwhile
				emit(explore.Case{Family: "payload-while-held", Size: 5,
					Desc: func() any {
						return map[string]any{"copies_completed_on_A_before (bytes, negative = aborted)": before, "payload_bytes_on_B": payload, "while_B_handler_holds_it": meanwhile}
					},
					Run: func() explore.Result { return c13RunWhileHeld(before, payload, meanwhile) }})
			}
		}
	}
	c13Wide(emit)
	c13Binary(emit)
	c13BinaryCut(emit)
	payloads := c13Payloads()
	for _, mode := range []string{"simple", "extended"} {
		for _, shape := range []struct {
			n   int
			bin bool
		}{{1, false}, {3, true}} {
			mode, shape := mode, shape
			forShapes(len(payloads), 2, func(sh []int) {
				if len(sh) == 0 {
					return
				}
				for _, policy := range []string{"drain", "take1"} {
					for _, end := range []int{1, 2} { // CopyDone / CopyFail
						ls := make([]cletter, 0, len(sh)+2)
						for _, s := range sh {
							ls = append(ls, payloads[s])
						}
						ls = append(ls, cletter{"CopyData(tail)", "data", "tail", pgproto.CopyData([]byte("tail"))}, c13Letters()[end])
						policy := policy
						emit(explore.Case{Family: "payloads", Size: 20 + len(ls),
							Desc: func() any {
								return map[string]any{"mode": mode, "handler_policy": policy, "columns": shape.n, "binary": shape.bin, "after_copy_in_response": c13Names(ls)}
							},
							Run: func() explore.Result { return c13Run(mode, policy, shape.n, shape.bin, ls) }})
					}
				}
			})
		}
	}
	// every other frontend message type as the message that ends the COPY, directly behind the CopyInResponse or
	// behind 1-2 CopyData messages: each surfaces as an error, none is skipped
	foreign := []cletter{
		{"Close(statement)", "foreign", "", pgproto.Msg('C', append([]byte{'S'}, 0))},
		{"Close(portal)", "foreign", "", pgproto.Msg('C', append([]byte{'P'}, 0))},
		{"Parse", "foreign", "", pgproto.Parse("", progRows)},
		{"Bind", "foreign", "", pgproto.Bind("", "", nil, nil, nil)},
		{"Describe(statement)", "foreign", "", pgproto.Describe('S', "")},
		{"Execute", "foreign", "", pgproto.Execute("", 0)},
		{"PasswordMessage", "foreign", "", pgproto.Password("pw")},
		{"FunctionCall-type byte", "foreign", "", pgproto.Msg('F', []byte{0, 0, 0, 1})},
		{"CopyData-lookalike 'D'", "foreign", "", pgproto.Msg('D', []byte("a"))},
	}
	for _, mode := range []string{"simple", "extended"} {
		for _, pk := range []struct {
			policy string
			k      int
		}{{"drain", 0}, {"drain", 1}, {"drain", 2}, {"take1", 0}, {"take2", 0}, {"take2", 1}} {
			for _, f := range foreign {
				for _, bin := range []bool{false, true} {
					mode, pk, f, bin := mode, pk, f, bin
					ls := []cletter{}
					for i := 0; i < pk.k; i++ {
						ls = append(ls, c13Letters()[0])
					}
					ls = append(ls, f)
					emit(explore.Case{Family: "foreign-message", Size: 3 + pk.k,
						Desc: func() any {
							return map[string]any{"mode": mode, "handler_policy": pk.policy, "binary": bin, "after_copy_in_response": c13Names(ls)}
						},
						Run: func() explore.Result { return c13Run(mode, pk.policy, 1, bin, ls) }})
				}
			}
		}
	}
	// extended protocol: every shape of the Bind message's result-format section x both copy formats
	for _, ncols := range []int{1, 3} {
		for _, bin := range []bool{false, true} {
			for _, rf := range [][]int16{{0}, {1}, {0, 1, 0}, {1, 0, 1}, {1, 1, 1}, {0, 0, 0}} {
				if len(rf) > 1 && len(rf) != ncols {
					continue
				}
				for _, policy := range []string{"drain", "take0"} {
					ncols, bin, rf, policy := ncols, bin, rf, policy
					ls := []cletter{c13Letters()[0], c13Letters()[1]}
					emit(explore.Case{Family: "bind-result-formats", Size: 10,
						Desc: func() any {
							return map[string]any{"mode": "extended", "handler_policy": policy, "columns": ncols, "copy_binary": bin, "bind_result_formats": rf}
						},
						Run: func() explore.Result { return c13Run("extended", policy, ncols, bin, ls, rf...) }})
				}
			}
		}
	}
	letters := c13Letters()
	for _, mode := range []string{"simple", "extended"} {
		for _, policy := range c13Policies {
			for _, shape := range []struct {
				n   int
				bin bool
			}{{1, false}, {3, true}} {
				mode, policy, shape := mode, policy, shape
				forShapes(len(letters), c13Depth(tier), func(sh []int) {
					ls := make([]cletter, len(sh))
					for i, s := range sh {
						ls[i] = letters[s]
					}
					emit(explore.Case{Family: mode, Size: len(ls),
						Desc: func() any {
							return map[string]any{"mode": mode, "handler_policy": policy, "columns": shape.n, "binary": shape.bin, "after_copy_in_response": c13Names(ls)}
						},
						Run: func() explore.Result { return c13Run(mode, policy, shape.n, shape.bin, ls) }})
				})
			}
		}
	}
}
