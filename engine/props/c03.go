package props

import (
	"bytes"
	"context"
	"fmt"
	"sort"
	"strings"
	"unsafe"

	wire "github.com/jeroenrinzema/psql-wire"
	"github.com/jeroenrinzema/psql-wire/pkg/buffer"
	"verif/engine/explore"
	"verif/engine/harness"
	"verif/engine/memnet"
	"verif/engine/pgproto"
	"verif/engine/script"
)

// C03 — Request parsing depends only on the byte stream, message by message.

const c03Limit = 128

type sletter struct {
	Name  string
	Bytes []byte
}

func c03Letters() []sletter {
	return []sletter{
		{"Query", pgproto.Query(progRows)},
		{"Parse", pgproto.Parse("s", progRows)},
		{"Bind(2 params)", pgproto.Bind("", "s", []int16{0, 1}, [][]byte{[]byte("a"), []byte("bc")}, []int16{1})},
		{"Execute+surplus", pgproto.Msg('E', pgproto.Cat(pgproto.CStr(""), pgproto.Be32(0), []byte{9, 9, 9}))},
		{"Sync(body xx)", pgproto.Msg('S', []byte("xx"))},
		{"Parse+OIDs", pgproto.Parse("s", progRows, 23, 25)},
		{"Describe(S s)", pgproto.Describe('S', "s")},
		{"COPY burst", pgproto.Cat(pgproto.Query("1:copyt:drain"), pgproto.CopyData([]byte("abc")), pgproto.CopyDone())},
		{"Oversized", pgproto.Msg('Q', bytes.Repeat([]byte{'o'}, c03Limit+12))},
		{"Flush(body y)", pgproto.Msg('H', []byte("y"))},
		{"Terminate(body z)", pgproto.Msg('X', []byte("z"))},
		{"Query truncated", pgproto.Query(progRows)[:9]},
	}
}

type c03Out struct {
	transcript []string
	trace      []string
	status     string
	engine     string
}

func (o c03Out) equal(p c03Out) bool {
	return sameStrings(o.transcript, p.transcript) && sameStrings(o.trace, p.trace) && o.status == p.status
}

// c03Serve feeds the stream cut at the given offsets (each piece is one Read) then EOF.
func c03Serve(stream []byte, cuts []int, maxSeg int) c03Out {
	var o c03Out
	rec := &script.Rec{Extra: copyHandler}
	srv, err := harness.NewServer(rec.ParseFn(), wire.MessageBufferSize(c03Limit))
	if err != nil {
		o.engine = err.Error()
		return o
	}
	mc := memnet.NewConn("mem:client1")
	mc.MaxSeg = maxSeg
	rec.Conn = mc
	prev := 0
	for _, c := range cuts {
		mc.Push(stream[prev:c])
		prev = c
	}
	mc.Push(stream[prev:])
	mc.EOF()
	srv.ConnectWith(mc)
	st := mc.AwaitClose()
	if st == memnet.Closed {
		harness.Settle()
	}
	o.status = st.String()
	o.transcript, _ = harness.CanonTranscript(mc.Output())
	o.trace = rec.Strings()
	srv.Stop()
	return o
}

var c03Whole = map[string]c03Out{}

func c03Uncut(stream []byte) c03Out {
	k := string(stream)
	if o, ok := c03Whole[k]; ok {
		return o
	}
	o := c03Serve(stream, nil, 0)
	if len(c03Whole) > 4096 {
		c03Whole = map[string]c03Out{}
	}
	c03Whole[k] = o
	return o
}

func c03RunSeg(stream []byte, cuts []int, maxSeg int, desc string) explore.Result {
	var res explore.Result
	res.Outcome = "segmentation"
	ref := c03Uncut(stream)
	got := c03Serve(stream, cuts, maxSeg)
	if ref.engine != "" || got.engine != "" {
		res.Engine = ref.engine + got.engine
		return res
	}
	if ref.status != "closed" {
		res.Fail("not-closed-after-eof", fmt.Sprintf("%s: connection %s after the input ended", desc, ref.status))
	}
	if !got.equal(ref) {
		res.Fail("segmentation-dependent", fmt.Sprintf("%s cuts=%v maxseg=%d:\n transcript %v\n trace %v (%s)\nbut delivered whole:\n transcript %v\n trace %v (%s)", desc, cuts, maxSeg,
			got.transcript, got.trace, got.status, ref.transcript, ref.trace, ref.status))
	}
	res.Key = fmt.Sprint(desc, cuts, maxSeg)
	res.States = []string{fmt.Sprintf("cuts=%d", len(cuts))}
	res.Trans = []string{fmt.Sprintf("whole|cuts=%d,maxseg=%d|same", len(cuts), maxSeg)}
	return res
}

func c03Depths(tier string) (single, double int) {
	if tier == "thorough" {
		return 3, 3
	}
	return 3, 2
}

// c03SegCases emits the cut enumeration for one stream prefix + history.
func c03SegCases(tier string, emit explore.Emit, letters []sletter, sh []int, prefix []byte, bounds []int, pname string, dDouble int) {
	stream := append([]byte(nil), prefix...)
	var names []string
	for _, s := range sh {
		bounds = append(bounds, len(stream)+5)
		stream = append(stream, letters[s].Bytes...)
		bounds = append(bounds, len(stream))
		names = append(names, letters[s].Name)
	}
	n := len(stream)
	desc := fmt.Sprintf("%s+%v (%d bytes)", pname, names, n)
	add := func(cuts []int, maxSeg int) {
		cuts = append([]int(nil), cuts...)
		emit(explore.Case{Family: "segmentation", Size: len(sh)*10 + len(cuts),
			Desc: func() any { return map[string]any{"stream": desc, "cuts": cuts, "max_read": maxSeg} },
			Run:  func() explore.Result { return c03RunSeg(stream, cuts, maxSeg, desc) }})
	}
	add(nil, 1)
	add(nil, 2)
	for a := 1; a < n; a++ {
		add([]int{a}, 0)
	}
	if len(sh) > 1 {
		return
	}
	for a := 1; a < 40 && a < n; a++ {
		for b := a + 1; b < 44 && b < n; b++ {
			add([]int{a, b}, 0)
		}
	}
}

func c03EnumSeg(tier string, emit explore.Emit) {
	letters := c03Letters()
	dSingle, dDouble := c03Depths(tier)
	startup := pgproto.Startup("user", "u")
	forShapes(len(letters), dSingle, func(sh []int) {
		stream := append([]byte(nil), startup...)
		bounds := []int{0, 4, len(startup)}
		if len(sh) > 0 && len(sh) <= 2 && sh[0] == 0 {
			// variant: the same history behind an SSLRequest that the server refuses with 'N'
			c03SegCases(tier, emit, letters, sh, pgproto.Cat(pgproto.SSLRequest(), startup), []int{0, 4, 8, 12, 8 + len(startup)}, "SSLRequest+startup", dDouble)
		}
		var names []string
		for _, s := range sh {
			bounds = append(bounds, len(stream)+5)
			stream = append(stream, letters[s].Bytes...)
			bounds = append(bounds, len(stream))
			names = append(names, letters[s].Name)
		}
		n := len(stream)
		desc := fmt.Sprintf("startup+%v (%d bytes)", names, n)
		add := func(cuts []int, maxSeg int) {
			cuts = append([]int(nil), cuts...)
			emit(explore.Case{Family: "segmentation", Size: len(sh)*10 + len(cuts),
				Desc: func() any { return map[string]any{"stream": desc, "cuts": cuts, "max_read": maxSeg} },
				Run:  func() explore.Result { return c03RunSeg(stream, cuts, maxSeg, desc) }})
		}
		add(nil, 1)
		add(nil, 2)
		add(nil, 3)
		for a := 1; a < n; a++ {
			add([]int{a}, 0)
		}
		if len(sh) > dDouble {
			return
		}
		// double cuts: all pairs for short streams, else within +-6 bytes of a message boundary
		var region []int
		if n <= 64 {
			for a := 1; a < n; a++ {
				region = append(region, a)
			}
		} else {
			seen := map[int]bool{}
			for _, b := range bounds {
				for a := b - 6; a <= b+6; a++ {
					if a >= 1 && a < n && !seen[a] {
						seen[a] = true
						region = append(region, a)
					}
				}
			}
			sort.Ints(region)
		}
		for i, a := range region {
			for _, b := range region[i+1:] {
				add([]int{a, b}, 0)
			}
		}
		if tier == "thorough" {
			// triple cuts inside every 5-byte header
			for i := 3; i < len(bounds); i += 2 {
				h := bounds[i] - 5
				for skip := 1; skip <= 4; skip++ {
					var cuts []int
					for k := 1; k <= 4; k++ {
						if k != skip && h+k < n {
							cuts = append(cuts, h+k)
						}
					}
					if len(cuts) == 3 {
						add(cuts, 0)
					}
				}
			}
		}
	})
}

// ---- message isolation -------------------------------------------------------

type surplusPair struct {
	Name        string
	Plain, Plus []byte
}

func c03Surplus() []surplusPair {
	tail := []byte("Q\x00\x00\x00\x08zzz\x00") // looks like a message if it leaked
	plus := func(t byte, body []byte) []byte { return pgproto.Msg(t, pgproto.Cat(body, tail)) }
	parseBody := pgproto.Cat(pgproto.CStr("s"), pgproto.CStr(progRows), pgproto.Be16(0))
	execBody := pgproto.Cat(pgproto.CStr(""), pgproto.Be32(0))
	bindBody := pgproto.BindBody("", "s", nil, nil, nil)
	return []surplusPair{
		{"Parse+declared OIDs", pgproto.Parse("s", progRows), pgproto.Parse("s", progRows, 23, 25)},
		{"Parse+surplus", pgproto.Msg('P', parseBody), plus('P', parseBody)},
		{"Execute+surplus", pgproto.Msg('E', execBody), plus('E', execBody)},
		{"Query+bytes after NUL", pgproto.Query(progRows), plus('Q', pgproto.CStr(progRows))},
		{"Bind+surplus", pgproto.Msg('B', bindBody), plus('B', bindBody)},
		{"Describe+surplus", pgproto.Describe('S', "s"), plus('D', pgproto.Cat([]byte{'S'}, pgproto.CStr("s")))},
		{"Close+surplus", pgproto.Close('S', "nope"), plus('C', pgproto.Cat([]byte{'S'}, pgproto.CStr("nope")))},
		{"Sync+body", pgproto.Sync(), plus('S', nil)},
		{"Flush+body", pgproto.Flush(), plus('H', nil)},
		{"CopyData outside COPY+body", pgproto.CopyData(nil), plus('d', nil)},
		{"CopyDone+body", pgproto.CopyDone(), plus('c', nil)},
		{"unknown type+body", pgproto.Msg('z', nil), plus('z', nil)},
		{"oversized by 1", nil, pgproto.Msg('Q', bytes.Repeat([]byte{'o'}, c03Limit+1))},
		{"oversized by 12", nil, pgproto.Msg('d', bytes.Repeat([]byte{'o'}, c03Limit+12))},
		{"oversized 2x+5", nil, pgproto.Msg('B', bytes.Repeat([]byte{'o'}, 2*c03Limit+5))},
		{"oversized 3x", nil, pgproto.Msg('Q', bytes.Repeat([]byte{'o'}, 3*c03Limit))},
	}
}

func c03RunIsolation(prefix []sletter, sp surplusPair) explore.Result {
	var res explore.Result
	res.Outcome = "isolation"
	rec := &script.Rec{Extra: copyHandler}
	one, err := harness.StartOne(rec.ParseFn(), wire.MessageBufferSize(c03Limit))
	if err != nil {
		res.Engine = err.Error()
		return res
	}
	rec.Conn = one.C
	defer one.Stop()
	one.Step(pgproto.Startup("user", "u"))
	for _, p := range prefix {
		if _, st := one.Step(p.Bytes); st != memnet.Parked {
			res.Outcome = "isolation-prefix-closed"
			return res
		}
	}
	_, st := one.Step(sp.Plus)
	var names []string
	for _, p := range prefix {
		names = append(names, p.Name)
	}
	res.Key = fmt.Sprint(names, sp.Name)
	res.Trans = []string{fmt.Sprintf("session|%s|session", sp.Name)}
	if st != memnet.Parked {
		// rejecting the surplus-carrying message by closing is a legitimate reaction; nothing can leak then
		res.Outcome = "isolation-rejected"
		return res
	}
	// an empty-bodied message right behind it must not see the previous message's unread tail:
	// a Query without any body has no query text at all (it is malformed), so no parser call can result
	if sp.Plain != nil { // (the oversized probes go straight to the Sync + Query check)
		n0 := len(rec.Evs)
		_, st = one.Step(pgproto.Msg('Q', nil))
		if cb := cbSummary(rec.Evs[n0:]); len(cb) > 0 {
			res.Fail("surplus-leaked", fmt.Sprintf("after %v + %s an EMPTY Query message reached the parser: %v (bytes of the previous message were read as its body)", names, sp.Name, cb))
			return res
		}
		if st != memnet.Parked {
			res.Outcome = "isolation"
			return res // closing on the malformed empty Query is legitimate
		}
	}
	out, _ := one.Step(pgproto.Sync())
	if k := harness.Kinds(out); k != "Z" {
		res.Fail("surplus-leaked", fmt.Sprintf("after %v + %s the following Sync was answered %q (expected exactly ReadyForQuery): surplus bytes leaked into the next message", names, sp.Name, k))
		return res
	}
	n := len(rec.Evs)
	out, _ = one.Step(pgproto.Query(progRows))
	if k := harness.Kinds(out); k != "TDCZ" || !sameStrings(cbSummary(rec.Evs[n:]), []string{"parse:" + progRows, "stmt:" + progRows}) {
		res.Fail("surplus-leaked", fmt.Sprintf("after %v + %s + Sync the following Query was answered %q with callbacks %v", names, sp.Name, k, cbSummary(rec.Evs[n:])))
	}
	return res
}

// ---- accessor clause (direct, explicit-state over bodies x accessor sequences) ---

type accessor struct {
	Name string
	N    int
}

var c03Accessors = []accessor{{"GetString", 0}, {"GetBytes(0)", 0}, {"GetBytes(1)", 1}, {"GetBytes(2)", 2}, {"GetBytes(7)", 7}, {"GetUint16", 0}, {"GetUint32", 0}, {"GetPrepareType", 0}}

func c03RunAccessors(body []byte, depth int) explore.Result {
	var res explore.Result
	res.Outcome = "accessors"
	res.Key = fmt.Sprintf("body % x", body)
	stream := pgproto.Cat(pgproto.Msg('Q', body), pgproto.Msg('Q', bytes.Repeat([]byte{0xEE}, 16)))
	r := buffer.NewReader(harness.Quiet, bytes.NewReader(stream), 4096)
	if _, _, err := r.ReadTypedMsg(); err != nil {
		res.Engine = err.Error()
		return res
	}
	orig := r.Msg
	if !bytes.Equal(orig, body) {
		res.Fail("body-mismatch", fmt.Sprintf("ReadTypedMsg delivered % x for body % x", orig, body))
		return res
	}
	var base uintptr
	if len(orig) > 0 {
		base = uintptr(unsafe.Pointer(unsafe.SliceData(orig)))
	}
	inside := func(p unsafe.Pointer, n int) bool {
		if n == 0 {
			return true
		}
		a := uintptr(p)
		return len(orig) > 0 && a >= base && a+uintptr(n) <= base+uintptr(len(orig))
	}
	seqs := 0
	forShapes(len(c03Accessors), depth, func(sh []int) {
		if len(sh) == 0 || len(res.Violations) > 0 {
			return
		}
		seqs++
		r.Msg = orig
		cur := 0 // model cursor
		var names []string
		for _, ai := range sh {
			a := c03Accessors[ai]
			names = append(names, a.Name)
			var gotErr error
			var gotBytes []byte
			var gotPtr unsafe.Pointer
			var gotNum uint64
			isNum := false
			panicked := func() (p any) {
				defer func() { p = recover() }()
				switch {
				case a.Name == "GetString":
					s, err := r.GetString()
					gotErr = err
					gotBytes = []byte(s)
					gotPtr = unsafe.Pointer(unsafe.StringData(s))
				case strings.HasPrefix(a.Name, "GetBytes"):
					b, err := r.GetBytes(a.N)
					gotErr = err
					gotBytes = b
					gotPtr = unsafe.Pointer(unsafe.SliceData(b))
				case a.Name == "GetUint16":
					v, err := r.GetUint16()
					gotErr, gotNum, isNum = err, uint64(v), true
				case a.Name == "GetUint32":
					v, err := r.GetUint32()
					gotErr, gotNum, isNum = err, uint64(v), true
				case a.Name == "GetPrepareType":
					v, err := r.GetPrepareType()
					gotErr, gotNum, isNum = err, uint64(v), true
				}
				return nil
			}()
			if panicked != nil {
				res.Fail("accessor-panic", fmt.Sprintf("body % x, accessors %v: panic %v", body, names, panicked))
				return
			}
			// model
			rest := body[cur:]
			var wantBytes []byte
			var wantNum uint64
			wantErr := false
			switch {
			case a.Name == "GetString":
				i := bytes.IndexByte(rest, 0)
				if i < 0 {
					wantErr = true
				} else {
					wantBytes = rest[:i]
					cur += i + 1
				}
			case strings.HasPrefix(a.Name, "GetBytes"):
				if len(rest) < a.N {
					wantErr = true
				} else {
					wantBytes = rest[:a.N]
					cur += a.N
				}
			case a.Name == "GetUint16":
				if len(rest) < 2 {
					wantErr = true
				} else {
					wantNum = uint64(rest[0])<<8 | uint64(rest[1])
					cur += 2
				}
			case a.Name == "GetUint32":
				if len(rest) < 4 {
					wantErr = true
				} else {
					wantNum = uint64(rest[0])<<24 | uint64(rest[1])<<16 | uint64(rest[2])<<8 | uint64(rest[3])
					cur += 4
				}
			case a.Name == "GetPrepareType":
				if len(rest) < 1 {
					wantErr = true
				} else {
					wantNum = uint64(rest[0])
					cur++
				}
			}
			if wantErr != (gotErr != nil) {
				res.Fail("accessor-error", fmt.Sprintf("body % x, accessors %v: model says error=%v, reader returned err=%v", body, names, wantErr, gotErr))
				return
			}
			if wantErr {
				return // results after the first error are not asserted
			}
			if isNum {
				if gotNum != wantNum {
					res.Fail("accessor-value", fmt.Sprintf("body % x, accessors %v: got %d, model %d", body, names, gotNum, wantNum))
					return
				}
			} else {
				if !bytes.Equal(gotBytes, wantBytes) {
					res.Fail("accessor-value", fmt.Sprintf("body % x, accessors %v: got % x, model % x", body, names, gotBytes, wantBytes))
					return
				}
				if !inside(gotPtr, len(gotBytes)) {
					res.Fail("accessor-outside-message", fmt.Sprintf("body % x, accessors %v: the returned data does not lie inside the current message", body, names))
					return
				}
			}
		}
	})
	// the next message is read as its own message: an empty one leaves nothing to access
	r.Msg = orig
	r2 := buffer.NewReader(harness.Quiet, bytes.NewReader(pgproto.Cat(pgproto.Msg('Q', body), pgproto.Msg('S', nil), pgproto.Msg('Q', []byte("n\x00")))), 4096)
	r2.ReadTypedMsg()
	if len(body) > 1 {
		r2.GetBytes(1) // leave an unread tail behind
	}
	if t, n, err := r2.ReadTypedMsg(); err != nil || byte(t) != 'S' || n != 4 || len(r2.Msg) != 0 {
		res.Fail("empty-message-sees-previous-body", fmt.Sprintf("body % x followed by an empty message: ReadTypedMsg = (%q,%d,%v) and Msg holds %d bytes (% x), expected none", body, t, n, err, len(r2.Msg), r2.Msg))
	} else if _, err := r2.GetString(); err == nil {
		res.Fail("empty-message-sees-previous-body", fmt.Sprintf("body % x followed by an empty message: GetString succeeded on the empty message", body))
	} else if t, _, err := r2.ReadTypedMsg(); err != nil || byte(t) != 'Q' || string(r2.Msg) != "n\x00" {
		res.Fail("reader-resync", fmt.Sprintf("message after the empty one read as (%q, %q, %v)", t, r2.Msg, err))
	}
	res.Sub = seqs
	res.States = []string{fmt.Sprintf("bodylen=%d", len(body))}
	res.Trans = []string{fmt.Sprintf("bodylen=%d|%d accessor sequences|checked", len(body), seqs)}
	return res
}

// ---- declared length (every value class of the length word, truncated stream behind it) ----------
//
// A message header declares D bytes; what follows is a run of perfectly framed Query messages and then the end of
// the input. As long as fewer than D-4 bytes have followed the header, every one of them belongs to THAT message:
// none may be interpreted as a message of its own.

const c03Smuggled = "smuggled"

func c03DeclaredValues() []uint32 {
	return []uint32{c03Limit + 5, 2 * c03Limit, 4095, 4096, 65535, 65536, 1 << 24, 1<<31 - 1, 1 << 31, 1<<31 + 1, 1<<31 + 24, 1<<31 + 4096, 3 << 30, 1<<32 - 2, 1<<32 - 1}
}

type c03Pos struct {
	Name   string
	Auth   bool
	Before [][]byte
}

func c03Positions() []c03Pos {
	st := pgproto.Startup("user", "u")
	return []c03Pos{
		{"first message of the session", false, [][]byte{st}},
		{"after a query", false, [][]byte{st, pgproto.Query(progRows)}},
		{"inside an extended batch", false, [][]byte{st, pgproto.Parse("s", progRows)}},
		{"inside COPY", false, [][]byte{st, pgproto.Query("copyt")}},
		{"inside binary COPY", false, [][]byte{st, pgproto.Query("copyb"), pgproto.CopyData(pgproto.BinaryCopyHeader())}},
		{"while the password is awaited", true, [][]byte{st}},
	}
}

func c03RunDeclared(pos c03Pos, t byte, declared uint32, payloadFrames int) explore.Result {
	var res explore.Result
	res.Outcome = "declared-length"
	res.Key = fmt.Sprint(pos.Name, t, declared, payloadFrames)
	frame := pgproto.Query(c03Smuggled)
	payload := bytes.Repeat(frame, payloadFrames)
	if uint64(len(payload)) >= uint64(declared)-4 {
		res.Outcome = "declared-length-skipped"
		return res // the message would be complete: other families cover that
	}
	hdr := append([]byte{t}, pgproto.Be32(declared)...)
	stream := pgproto.Cat(bytes.Join(pos.Before, nil), hdr, payload)
	o := c04RunLimit(pos.Auth, c04Feed{Stream: stream}, false, c03Limit)
	what := fmt.Sprintf("%s: header type %q declaring %d bytes, followed by only %d bytes (%d framed Query messages) and the end of the input", pos.Name, t, declared, len(payload), payloadFrames)
	if o.engine != "" {
		res.Engine = o.engine
		return res
	}
	if o.status != memnet.Closed {
		res.Fail("not-closed-after-eof", fmt.Sprintf("%s: connection is %s", what, o.status))
	}
	for _, e := range o.events {
		if strings.Contains(e, c03Smuggled) {
			res.Fail("body-read-as-messages", fmt.Sprintf("%s: bytes of the declared body were interpreted as messages of their own, callbacks: %v", what, o.events))
			break
		}
	}
	res.Trans = []string{fmt.Sprintf("%s|%q declared>=2^31:%v|closed", pos.Name, t, declared >= 1<<31)}
	return res
}

// ---- differential isolation: surplus bytes of the message that STARTS a statement ---------------
//
// The message that starts a statement (Query / Execute) carries surplus bytes after its last field. Whatever the
// statement then reads from the client (a COPY stream) must be what the client sent in the following messages:
// every callback observed with the surplus must also be observed, in the same order, without it.

type c03Starter struct {
	Name         string
	Before       [][]byte
	Plain, Plus  func(surplus []byte) []byte
	FollowBinary bool
	After        [][]byte
}

func c03Starters() []c03Starter {
	st := pgproto.Startup("user", "u")
	q := func(text string) func([]byte) []byte {
		return func(sur []byte) []byte { return pgproto.Msg('Q', pgproto.Cat(pgproto.CStr(text), sur)) }
	}
	e := func(sur []byte) []byte { return pgproto.Msg('E', pgproto.Cat(pgproto.CStr(""), pgproto.Be32(0), sur)) }
	ext := func(text string) [][]byte {
		return [][]byte{st, pgproto.Parse("", text), pgproto.Bind("", "", nil, nil, nil)}
	}
	return []c03Starter{
		{Name: "Query starting a binary COPY", Before: [][]byte{st}, Plus: q("copyb"), FollowBinary: true},
		{Name: "Query starting a text COPY", Before: [][]byte{st}, Plus: q("copyt")},
		{Name: "Execute starting a binary COPY", Before: ext("copyb"), Plus: e, FollowBinary: true, After: [][]byte{pgproto.Sync()}},
		{Name: "Execute starting a text COPY", Before: ext("copyt"), Plus: e, After: [][]byte{pgproto.Sync()}},
		{Name: "Query with placeholders", Before: [][]byte{st}, Plus: q("select $1")},
	}
}

func c03SurplusContents() []sletter {
	row := pgproto.BinaryCopyTuple([][]byte{{0, 0, 2, 154}, []byte("surplus")})
	return []sletter{
		{"binary COPY header + row", pgproto.Cat(pgproto.BinaryCopyHeader(), row)},
		{"binary COPY header + row + trailer", pgproto.Cat(pgproto.BinaryCopyHeader(), row, pgproto.BinaryCopyTrailer())},
		{"binary COPY row", row},
		{"framed CopyData(header + row)", pgproto.CopyData(pgproto.Cat(pgproto.BinaryCopyHeader(), row))},
		{"text line", []byte("666\tsurplus\n")},
		{"framed CopyData(text line)", pgproto.CopyData([]byte("666\tsurplus\n"))},
		{"framed CopyDone", pgproto.CopyDone()},
		{"framed Query", pgproto.Query(c03Smuggled)},
		{"one zero byte", []byte{0}},
	}
}

func isSubsequence(a, b []string) bool {
	j := 0
	for _, x := range a {
		for j < len(b) && b[j] != x {
			j++
		}
		if j == len(b) {
			return false
		}
		j++
	}
	return true
}

func c03RunStarter(s c03Starter, sur sletter, split bool) explore.Result {
	var res explore.Result
	res.Outcome = "starter-surplus"
	res.Key = fmt.Sprint(s.Name, sur.Name, split)
	var follow [][]byte
	if s.FollowBinary {
		bs := c04BinaryStream()
		if split {
			follow = [][]byte{pgproto.CopyData(bs[:25]), pgproto.CopyData(bs[25:]), pgproto.CopyDone()}
		} else {
			follow = [][]byte{pgproto.CopyData(bs), pgproto.CopyDone()}
		}
	} else {
		follow = [][]byte{pgproto.CopyData([]byte("1\tone\n")), pgproto.CopyData([]byte("2\ttwo\n")), pgproto.CopyDone()}
	}
	tail := pgproto.Cat(bytes.Join(follow, nil), bytes.Join(s.After, nil), pgproto.Sync(), pgproto.Query(progRows))
	mk := func(surplus []byte) []byte {
		return pgproto.Cat(bytes.Join(s.Before, nil), s.Plus(surplus), tail)
	}
	plain := c04Run(false, c04Feed{Stream: mk(nil)}, false)
	plus := c04Run(false, c04Feed{Stream: mk(sur.Bytes)}, false)
	if plain.engine != "" || plus.engine != "" {
		res.Engine = plain.engine + plus.engine
		return res
	}
	what := fmt.Sprintf("%s, carrying %s (% x) after its last field", s.Name, sur.Name, sur.Bytes)
	if plus.status != memnet.Closed {
		res.Fail("not-closed-after-eof", fmt.Sprintf("%s: connection is %s after the input ended", what, plus.status))
	}
	if !isSubsequence(plus.events, plain.events) {
		res.Fail("surplus-leaked", fmt.Sprintf("%s: callbacks\n  %v\nwithout the surplus bytes:\n  %v\n(the surplus bytes of the starting message were read as part of what followed)", what, plus.events, plain.events))
	}
	res.Trans = []string{fmt.Sprintf("%s|%s|closed", s.Name, sur.Name)}
	return res
}

// ---- an earlier message of the same kind -----------------------------------------------------------
//
// "Message by message": how a Bind is interpreted depends on that Bind alone, not on the counts and codes of a
// Bind the connection processed before it.

func c03RunBindAfterBind(fa, na, fb, nb int) explore.Result {
	var res explore.Result
	res.Outcome = "earlier-message"
	res.Key = fmt.Sprint("bind-after-bind", fa, na, fb, nb)
	bind := func(f, n int, tag string) []byte {
		pf := make([]int16, f)
		for i := range pf {
			pf[i] = int16((i + 1) % 2) // text, binary, text ... for f >= 2; binary for f == 1
			if f == 1 {
				pf[i] = 1
			}
		}
		vals := make([][]byte, n)
		for i := range vals {
			vals[i] = []byte(fmt.Sprintf("%s%d", tag, i))
		}
		return pgproto.Bind("p", "s", pf, vals, nil)
	}
	mark := "select $1 mark"
	tail := pgproto.Cat(pgproto.Query(mark), bind(fb, nb, "b"), pgproto.Execute("p", 0), pgproto.Sync())
	head := pgproto.Cat(pgproto.Startup("user", "u"), pgproto.Parse("s", "select $1, $2, $3"))
	with := c04Run(false, c04Feed{Stream: pgproto.Cat(head, bind(fa, na, "a"), pgproto.Execute("p", 0), pgproto.Sync(), tail)}, false)
	without := c04Run(false, c04Feed{Stream: pgproto.Cat(head, pgproto.Sync(), tail)}, false)
	if with.engine != "" || without.engine != "" {
		res.Engine = with.engine + without.engine
		return res
	}
	after := func(ev []string) []string {
		for i, e := range ev {
			if strings.Contains(e, mark) {
				return ev[i:]
			}
		}
		return nil
	}
	a, b := after(with.events), after(without.events)
	if !sameStrings(a, b) {
		res.Fail("earlier-message-leaked", fmt.Sprintf("Bind with %d parameter format codes and %d values: the statement observed\n  %v\nwhen a Bind with %d codes and %d values had been processed before it on the connection, but\n  %v\nwithout that earlier Bind", fb, nb, a, fa, na, b))
	}
	res.Trans = []string{fmt.Sprintf("bound(%d,%d)|bind(%d,%d)|bound", fa, na, fb, nb)}
	return res
}

// c03WideBind builds a Bind (portal p, statement s) whose count word number `field` (0 parameter format codes,
// 1 parameter values, 2 result format codes) declares `count` items and is followed by `items` of them; the words
// before it declare 0, the message ends behind the items (complete only if items == count and field == 2).
func c03WideBind(field, count, items int) []byte {
	body := pgproto.Cat(pgproto.CStr("p"), pgproto.CStr("s"))
	u16 := func(v int) []byte { return []byte{byte(v >> 8), byte(v)} }
	for f := 0; f <= 2; f++ {
		if f < field {
			body = append(body, 0, 0)
			continue
		}
		if f > field {
			if items == count {
				body = append(body, 0, 0)
			}
			continue
		}
		body = append(body, u16(count)...)
		for i := 0; i < items; i++ {
			if f == 1 {
				body = append(body, 0, 0, 0, 1, 'v')
			} else {
				body = append(body, 0, byte(i%2))
			}
		}
	}
	return pgproto.Msg('B', body)
}

// c03RunCounts: a Bind whose count word declares 2^15-1 .. 2^16-1 items (none, two or all of them present) is
// interpreted by itself: whatever becomes of it, the messages behind it are interpreted exactly as they are
// behind a Bind that fails for a plain reason (an unknown statement).
func c03RunCounts(field, count, items int) explore.Result {
	var res explore.Result
	res.Outcome = "earlier-message"
	res.Key = fmt.Sprint("counts", field, count, items)
	mark := "select $1 mark"
	head := pgproto.Cat(pgproto.Startup("user", "u"), pgproto.Parse("s", "select $1, $2, $3"))
	tail := pgproto.Cat(pgproto.Execute("p", 0), pgproto.Sync(), pgproto.Query(mark),
		pgproto.Bind("p", "s", []int16{1}, [][]byte{[]byte("b0"), []byte("b1")}, nil), pgproto.Execute("p", 0), pgproto.Sync())
	with := c04RunLimit(false, c04Feed{Stream: pgproto.Cat(head, c03WideBind(field, count, items), tail)}, false, 1<<20)
	without := c04RunLimit(false, c04Feed{Stream: pgproto.Cat(head, pgproto.Bind("p", "nosuch", nil, nil, nil), tail)}, false, 1<<20)
	if with.engine != "" || without.engine != "" {
		res.Engine = with.engine + without.engine
		return res
	}
	after := func(ev []string) []string {
		for i, e := range ev {
			if strings.Contains(e, mark) {
				return ev[i:]
			}
		}
		return nil
	}
	a, b := after(with.events), after(without.events)
	// (a Bind that ends before its declared items is malformed: the connection may be given up - then nothing
	// behind it is interpreted at all)
	if len(a) > 0 && !sameStrings(a, b) {
		res.Fail("earlier-message-leaked", fmt.Sprintf("a Bind whose count word %d (0 parameter formats, 1 values, 2 result formats) declares %d items (%d present): the messages behind it were observed as\n  %v\nbut behind a Bind that fails for a plain reason as\n  %v", field, count, items, a, b))
	}
	res.Trans = []string{"bind|count word at the 15/16-bit boundary|next messages as always"}
	return res
}

// c03RunRetention: what a Bind put into a portal is what the statement receives at Execute, however many bytes of
// other messages (on this connection, or on other connections that come and go) were read in between.
func c03RunRetention(fillers, fillerLen, otherConns int) explore.Result {
	res, kinds := c03Retention(fillers, fillerLen, otherConns)
	if fillers+otherConns > 0 && len(res.Violations) == 0 && res.Engine == "" {
		// the names too: Execute finds the portal exactly as it does when nothing was sent in between
		if _, base := c03Retention(0, 0, 0); base != kinds {
			res.Fail("earlier-message-leaked", fmt.Sprintf("Parse, Bind, then %d Parse messages of %d bytes on the same connection and %d other connections that came and went, then Execute + Sync: answered %q; with nothing in between it is answered %q", fillers, fillerLen, otherConns, kinds, base))
		}
	}
	return res
}

func c03Retention(fillers, fillerLen, otherConns int) (explore.Result, string) {
	var res explore.Result
	res.Outcome = "earlier-message"
	res.Key = fmt.Sprint("retention", fillers, fillerLen, otherConns)
	var got [][]string
	parse := func(ctx context.Context, q string) (wire.PreparedStatements, error) {
		return wire.Prepared(wire.NewStatement(func(ctx context.Context, w wire.DataWriter, params []wire.Parameter) error {
			var vs []string
			for _, p := range params {
				vs = append(vs, string(p.Value()))
			}
			if len(params) > 0 {
				got = append(got, vs)
			}
			return w.Complete("OK")
		}, wire.WithParameters(wire.ParseParameters(q)))), nil
	}
	srv, err := harness.NewServer(parse)
	if err != nil {
		res.Engine = err.Error()
		return res, ""
	}
	defer srv.Stop()
	a := srv.Connect()
	a.Step(pgproto.Startup("user", "alice"))
	want := []string{"precious-value-" + strings.Repeat("A", 40), "second-value"}
	a.Step(pgproto.Cat(pgproto.Parse("s", "q $1 $2"), pgproto.Bind("p", "s", nil, [][]byte{[]byte(want[0]), []byte(want[1])}, nil)))
	for i := 0; i < fillers; i++ {
		a.Step(pgproto.Parse("f", "--filler--"+strings.Repeat("f", fillerLen)))
	}
	for i := 0; i < otherConns; i++ {
		b := srv.Connect()
		b.Step(pgproto.Startup("user", "bob-the-builder", "database", "OTHER-DATABASE"))
		b.Step(pgproto.Query("select " + strings.Repeat("b", 90)))
		b.Step(pgproto.Terminate())
		b.End()
	}
	out, _ := a.Step(pgproto.Cat(pgproto.Execute("p", 0), pgproto.Sync()))
	if len(got) > 0 && !sameStrings(got[len(got)-1], want) {
		res.Fail("earlier-message-leaked", fmt.Sprintf("Bind of %q, then %d Parse messages of %d bytes on the same connection and %d other connections that came and went, then Execute (answered %q): the statement received %.100q", want, fillers, fillerLen, otherConns, harness.Kinds(out), got[len(got)-1]))
	}
	res.Trans = []string{"bound|later traffic|executed with the bound values"}
	return res, harness.Kinds(out)
}

// c03RunBlockEnd: a message with an unread tail (a Parse that pre-declares parameter types the server never looks
// at) ends d bytes before the end of the reader's 4 KiB block; the message behind it has a body of t bytes. However
// the two fall relative to the block, the later messages are interpreted as they are at any other alignment.
func c03RunBlockEnd(d, t, oids int) explore.Result {
	var res explore.Result
	res.Outcome = "earlier-message"
	res.Key = fmt.Sprint("block-end", d, t, oids)
	st := pgproto.Startup("user", "u")
	types := make([]uint32, oids)
	parse := pgproto.Parse("x", "select 1", types...)
	mark := "select $1 mark"
	build := func(shift int) []byte {
		used := (len(st) - 4) + (len(parse) - 5)
		fill := 4096 - d - used - shift
		behind := pgproto.Msg('Q', append(bytes.Repeat([]byte("b"), max(t-1, 0)), 0)[:t])
		if t == 0 {
			behind = pgproto.Sync()
		}
		return pgproto.Cat(st, pgproto.Query(strings.Repeat("f", fill-1)), parse, behind, pgproto.Sync(), pgproto.Query(mark))
	}
	with := c04Run(false, c04Feed{Stream: build(0)}, false)
	without := c04Run(false, c04Feed{Stream: build(60)}, false)
	if with.engine != "" || without.engine != "" {
		res.Engine = with.engine + without.engine
		return res
	}
	norm := func(ev []string) []string {
		var out []string
		for _, e := range ev {
			if strings.Contains(e, "fffff") {
				e = "parse (filler)"
			}
			out = append(out, e)
		}
		return out
	}
	a, b := norm(with.events), norm(without.events)
	if !sameStrings(a, b) || harness.Kinds(with.out) != harness.Kinds(without.out) {
		res.Fail("earlier-message-leaked", fmt.Sprintf("a Parse pre-declaring %d parameter types that ends %d bytes before the end of the reader's 4 KiB block, followed by a message with a %d-byte body: observed\n  %v (reply %q)\nbut 60 bytes earlier in the block\n  %v (reply %q)", oids, d, t, clipList(a), harness.Kinds(with.out), clipList(b), harness.Kinds(without.out)))
	}
	res.Trans = []string{"unread tail|block boundary|next message"}
	return res
}

// c03RunInterleaved: connection A's message arrives in two pieces (cut inside the 5-byte header or inside the body);
// between the pieces connection B of the same server sends and is served a complete message of another length. A's
// message is what A's bytes say, whatever B sent meanwhile.
func c03RunInterleaved(cut, sizeA, sizeB int) explore.Result {
	var res explore.Result
	res.Outcome = "segmentation"
	res.Key = fmt.Sprint("interleaved", cut, sizeA, sizeB)
	seen := map[string][]string{}
	parse := func(ctx context.Context, q string) (wire.PreparedStatements, error) {
		who := string(wire.ClientParameters(ctx)["user"])
		seen[who] = append(seen[who], fmt.Sprintf("%d bytes %.12q", len(q), q))
		return wire.Prepared(wire.NewStatement(func(ctx context.Context, w wire.DataWriter, p []wire.Parameter) error { return w.Complete("OK") })), nil
	}
	srv, err := harness.NewServer(parse)
	if err != nil {
		res.Engine = err.Error()
		return res
	}
	defer srv.Stop()
	a, b := srv.Connect(), srv.Connect()
	a.Step(pgproto.Startup("user", "A"))
	b.Step(pgproto.Startup("user", "B"))
	msgA := pgproto.Query("A" + strings.Repeat("a", sizeA-2))
	msgB := pgproto.Query("B" + strings.Repeat("b", sizeB-2))
	a.Step(msgA[:cut])
	outB, _ := b.Step(msgB)
	outA, _ := a.Step(msgA[cut:])
	outA2, _ := a.Step(pgproto.Query("A-next"))
	wantA := []string{fmt.Sprintf("%d bytes %.12q", sizeA-1, "A"+strings.Repeat("a", sizeA-2)), fmt.Sprintf("%d bytes %.12q", 6, "A-next")}
	if !sameStrings(seen["A"], wantA) || harness.Kinds(outA) != "CZ" || harness.Kinds(outA2) != "CZ" || harness.Kinds(outB) != "CZ" {
		res.Fail("segmentation-dependent", fmt.Sprintf("connection A's Query (body of %d bytes) arrives cut after %d bytes; between the pieces connection B sends a Query with a body of %d bytes: A's parser saw %v (expected %v), replies A %q %q, B %q", sizeA, cut, sizeB, seen["A"], wantA, harness.Kinds(outA), harness.Kinds(outA2), harness.Kinds(outB)))
	}
	res.Trans = []string{"A half received|B served|A completed"}
	return res
}

// c03RunReadFault: one transport read fails with a temporary error (a timeout) in the middle of a message that
// arrives in pieces. The connection may be given up, or the read may be taken up again: what reaches the callbacks
// is a prefix of what reaches them without the fault - never a text the client did not send.
func c03RunReadFault(maxSeg, k int) explore.Result {
	var res explore.Result
	res.Outcome = "segmentation"
	res.Key = fmt.Sprint("read-fault", maxSeg, k)
	stream := pgproto.Cat(pgproto.Startup("user", "u"), pgproto.Query("SELECT 1"), pgproto.Parse("s", "select $1, $2"), pgproto.Bind("p", "s", nil, [][]byte{[]byte("alpha"), []byte("beta")}, nil), pgproto.Execute("p", 0), pgproto.Sync(), pgproto.Query("SELECT 2"))
	ref := c04Run(false, c04Feed{Stream: stream, MaxSeg: maxSeg}, false)
	got := c04Run(false, c04Feed{Stream: stream, MaxSeg: maxSeg, Faults: memnet.Faults{ReadErrOnceAt: k, Timeout: true}}, false)
	if ref.engine != "" || got.engine != "" {
		res.Engine = ref.engine + got.engine
		return res
	}
	if len(got.events) > len(ref.events) || !sameStrings(got.events, ref.events[:len(got.events)]) {
		res.Fail("segmentation-dependent", fmt.Sprintf("the stream arrives in pieces of %d bytes and transport read %d fails once with a timeout: the callbacks saw\n  %v\nwithout the fault they see\n  %v", maxSeg, k, clipList(got.events), clipList(ref.events)))
	}
	res.Trans = []string{"reading|one temporary read error|prefix of the fault-free run"}
	return res
}

// ---- inside COPY-in --------------------------------------------------------------------------------

// c03RunOversizedInCopy: an oversized message arrives while a statement is copying in; it is consumed in exactly its
// declared length — everything the client sent behind it is interpreted normally.
func c03RunOversizedInCopy(t byte, over int, binary bool) explore.Result {
	var res explore.Result
	res.Outcome = "inside-copy"
	res.Key = fmt.Sprint("oversized-in-copy", t, over, binary)
	marker := "select $1 marker"
	q := "copyt"
	if binary {
		q = "copyb"
	}
	stream := pgproto.Cat(pgproto.Startup("user", "u"), pgproto.Query(q), pgproto.Msg(t, bytes.Repeat([]byte{'o'}, c03Limit+over)),
		pgproto.CopyDone(), pgproto.Sync(), pgproto.Query(marker), pgproto.Query(progRows))
	o := c04RunLimit(false, c04Feed{Stream: stream}, false, c03Limit)
	if o.engine != "" {
		res.Engine = o.engine
		return res
	}
	what := fmt.Sprintf("%s, then a %q message %d bytes over the limit, CopyDone, Sync and two queries", q, t, over)
	n := 0
	for _, e := range o.events {
		if strings.Contains(e, "parse") && strings.Contains(e, marker) {
			n++
		}
	}
	if n != 1 {
		res.Fail("consumed-beyond-declared-length", fmt.Sprintf("%s: the query behind the oversized message reached the parser %d times (callbacks %v): the oversized message was not consumed in exactly its declared length", what, n, o.events))
	}
	if k := harness.Kinds(o.out); !strings.HasSuffix(k, "TDCZ") {
		res.Fail("consumed-beyond-declared-length", fmt.Sprintf("%s: the session was answered %q (the last query must be answered normally)", what, k))
	}
	res.Trans = []string{"copying|oversized|session"}
	return res
}

// c03RunBodyInCopy: Sync / Flush messages are invisible to a copy; that holds for their (surplus) bodies too.
func c03RunBodyInCopy(t byte, sur sletter, binary bool, between bool) explore.Result {
	var res explore.Result
	res.Outcome = "inside-copy"
	res.Key = fmt.Sprint("body-in-copy", t, sur.Name, binary, between)
	mk := func(body []byte) []byte {
		var data [][]byte
		q := "copyt"
		if binary {
			q = "copyb"
			bs := c04BinaryStream()
			data = [][]byte{pgproto.CopyData(bs[:25]), pgproto.CopyData(bs[25:])}
		} else {
			data = [][]byte{pgproto.CopyData([]byte("1\tone\n")), pgproto.CopyData([]byte("2\ttwo\n"))}
		}
		m := pgproto.Msg(t, body)
		seq := [][]byte{pgproto.Startup("user", "u"), pgproto.Query(q), m, data[0]}
		if between {
			seq = append(seq, m)
		}
		seq = append(seq, data[1], m, pgproto.CopyDone(), pgproto.Sync(), pgproto.Query(progRows))
		return bytes.Join(seq, nil)
	}
	plain := c04Run(false, c04Feed{Stream: mk(nil)}, false)
	plus := c04Run(false, c04Feed{Stream: mk(sur.Bytes)}, false)
	if plain.engine != "" || plus.engine != "" {
		res.Engine = plain.engine + plus.engine
		return res
	}
	if !isSubsequence(plus.events, plain.events) {
		res.Fail("surplus-leaked", fmt.Sprintf("%q messages carrying %s (% x) inside COPY-in (binary: %v): callbacks\n  %v\nwith empty bodies:\n  %v", t, sur.Name, sur.Bytes, binary, plus.events, plain.events))
	}
	res.Trans = []string{"copying|sync/flush with a body|copying"}
	return res
}

func init() {
	explore.Register(&explore.Check{
		ID:          "C03",
		Level:       "model_checking",
		Technique:   "exhaustive enumeration of cut positions (deviation = one cut) over a corpus of client byte streams on a real server (differential against the un-cut delivery), of surplus-carrying messages followed by a probe, and explicit-state enumeration of message bodies x accessor sequences on buffer.Reader against an independent cursor model",
		Rule:        "segmentation: streams = startup + every history of <= 3 letters over 12 letters (incl. surplus-carrying, oversized, COPY, truncated); every history of <= 2 letters additionally while another connection of the same server is parked in each of 5 states (discarding until Sync, inside COPY-in, inside an extended batch, not started, after a failed query); read sizes 1/2/3, every single cut, every double cut (all pairs for streams <= 64 bytes, else within +-6 bytes of a message boundary), thorough: triple cuts inside every header; isolation: 16 surplus variants x prefixes of <= 1 letter; declared length: 6 positions (first, after a query, in a batch, in text / binary COPY, awaiting the password) x 15 message types x 15 declared lengths (limit+5 ... 2^31-1, 2^31, 2^31+24, 2^32-1) x {0,1,40} framed queries behind the header then EOF; starter surplus: 5 statement-starting messages (Query / Execute starting text / binary COPY) x 9 surplus contents, callbacks compared with the surplus-free run; inside COPY-in: oversized messages of 6 types x 4 sizes are consumed in exactly their declared length; Sync / Flush messages carrying 9 kinds of bodies leave the copy stream untouched; truncated stream: 7 canonical sessions cut after every byte (a message that was not received completely never reaches user code); earlier message: every Bind shape (0-4 format codes x 0-4 values) processed before every well-formed Bind, what the statement observes compared with the run without the earlier Bind; accessors: all bodies of length <= 5 over {00,01,'a',FF} x all accessor sequences of length <= 4 (thorough 5) over 8 accessors",
		Assumptions: []string{"accessor results after the first error and negative sizes are outside the quantifier", "a surplus-carrying message may be rejected by closing the connection (nothing can leak then)"},
		Enumerate:   c03Enumerate,
		Bounds: func(tier string) map[string]any {
			a, b := c03Depths(tier)
			return map[string]any{"history_depth_single_cut": a, "history_depth_double_cut": b, "accessor_sequence_length": c03AccDepth(tier), "body_length": 5}
		},
		RequiredOutcomes: []string{"segmentation", "isolation", "accessors", "declared-length", "starter-surplus", "earlier-message", "truncated-stream", "inside-copy"},
	})
}

func c03AccDepth(tier string) int {
	if tier == "thorough" {
		return 5
	}
	return 4
}

// c03RunNeighbour: the stream is served while ANOTHER connection of the same server is parked in some protocol
// state; transcript and callbacks must be those of the stream served alone ("a function of the client's byte
// stream alone"), and the neighbour must be found exactly as it was left.
func c03RunNeighbour(stream []byte, desc string, nb neighbour) (res explore.Result) {
	res.Outcome = "segmentation"
	ref := c03Uncut(stream)
	if ref.engine != "" {
		res.Engine = ref.engine
		return res
	}
	rec := &script.Rec{Extra: copyHandler}
	srv, err := harness.NewServer(rec.ParseFn(), wire.MessageBufferSize(c03Limit))
	if err != nil {
		res.Engine = err.Error()
		return res
	}
	defer srv.Stop()
	nc, problem := startNeighbour(srv, nb)
	if problem != "" {
		res.Engine = problem
		return res
	}
	n0 := len(rec.Strings())
	mc := memnet.NewConn("mem:client1")
	rec.Conn = mc
	mc.Push(stream)
	mc.EOF()
	srv.ConnectWith(mc)
	st := mc.AwaitClose()
	if st == memnet.Closed {
		harness.Settle()
	}
	var got c03Out
	got.status = st.String()
	got.transcript, _ = harness.CanonTranscript(mc.Output())
	if all := rec.Strings(); len(all) >= n0 {
		got.trace = all[n0:]
	}
	if !got.equal(ref) {
		res.Fail("depends-on-another-connection", fmt.Sprintf("%s while another connection of the server is %s:\n transcript %v\n trace %v (%s)\nbut served alone:\n transcript %v\n trace %v (%s)", desc, nb.Name,
			got.transcript, got.trace, got.status, ref.transcript, ref.trace, ref.status))
		return res
	}
	rec.Conn = nil
	finishNeighbour(&res, nc, nb, desc)
	res.Key = fmt.Sprint("nb", desc, nb.Name)
	return res
}

func c03Enumerate(tier string, emit explore.Emit) {
	// every history of <= 2 letters x 5 states of a neighbouring connection of the same server
	{
		letters := c03Letters()
		startup := pgproto.Startup("user", "u")
		for _, nb := range neighbourStates() {
			forShapes(len(letters), 2, func(sh []int) {
				stream := append([]byte(nil), startup...)
				var names []string
				for _, s := range sh {
					stream = append(stream, letters[s].Bytes...)
					names = append(names, letters[s].Name)
				}
				nb := nb
				desc := fmt.Sprintf("startup+%v", names)
				emit(explore.Case{Family: "neighbour", Size: 12 + len(sh),
					Desc: func() any { return map[string]any{"stream": desc, "neighbouring_connection": nb.Name} },
					Run:  func() explore.Result { return c03RunNeighbour(stream, desc, nb) }})
			})
		}
	}
	for _, oids := range []int{1, 100, 900} {
		for d := 0; d <= 24; d++ {
			for _, t := range []int{0, 1, 4, 8, 12, 16, 23, 24, 25, 40} {
				if oids == 900 && d%3 != 0 {
					continue
				}
				d, t, oids := d, t, oids
				emit(explore.Case{Family: "earlier-message", Size: 33,
					Desc: func() any {
						return map[string]any{"parse_with_unread_type_oids": oids, "ends_bytes_before_block_end": d, "next_message_body_bytes": t}
					},
					Run: func() explore.Result { return c03RunBlockEnd(d, t, oids) }})
			}
		}
	}
	for _, cut := range []int{1, 2, 3, 4, 5, 6, 20} {
		for _, sizes := range [][2]int{{0x13a, 0x3a}, {0x3a, 0x13a}, {0x1005, 0x21}, {0x21, 0x1005}, {300, 300}, {5000, 4}} {
			cut, sizes := cut, sizes
			emit(explore.Case{Family: "segmentation", Size: 600,
				Desc: func() any {
					return map[string]any{"connection_A_query_body_bytes": sizes[0], "cut_after_bytes": cut, "connection_B_query_body_bytes_between": sizes[1]}
				},
				Run: func() explore.Result { return c03RunInterleaved(cut, sizes[0], sizes[1]) }})
		}
	}
	// parameter value length words with the sign bit set (not -1) and other lengths beyond the message
	for _, lw := range []uint32{0x80000000, 0x80000001, 0xfffffffe, 0xffff0000, 0x7fffffff, 0x00010000} {
		for _, behind := range []int{0, 3} {
			lw, behind := lw, behind
			emit(explore.Case{Family: "earlier-message", Size: 34,
				Desc: func() any { return map[string]any{"bind_parameter_value_length_word": lw, "bytes_behind_it": behind} },
				Run: func() explore.Result {
					var res explore.Result
					res.Outcome = "earlier-message"
					res.Key = fmt.Sprint("value-length", lw, behind)
					body := pgproto.Cat(pgproto.CStr("p"), pgproto.CStr("s"), []byte{0, 0, 0, 1}, pgproto.Be32(lw), make([]byte, behind))
					mark := "select $1 mark"
					head := pgproto.Cat(pgproto.Startup("user", "u"), pgproto.Parse("s", "select $1"))
					tail := pgproto.Cat(pgproto.Execute("p", 0), pgproto.Sync(), pgproto.Query(mark))
					with := c04Run(false, c04Feed{Stream: pgproto.Cat(head, pgproto.Msg('B', body), tail)}, false)
					without := c04Run(false, c04Feed{Stream: pgproto.Cat(head, pgproto.Bind("p", "nosuch", nil, nil, nil), tail)}, false)
					if with.engine != "" || without.engine != "" {
						res.Engine = with.engine + without.engine
						return res
					}
					var a []string
					for i, e := range with.events {
						if strings.Contains(e, mark) {
							a = with.events[i:]
						}
					}
					var b []string
					for i, e := range without.events {
						if strings.Contains(e, mark) {
							b = without.events[i:]
						}
					}
					if len(a) > 0 && !sameStrings(a, b) {
						res.Fail("earlier-message-leaked", fmt.Sprintf("a Bind whose parameter value declares %d bytes (%d follow): the messages behind it were observed as %v, behind a plainly failing Bind as %v", lw, behind, a, b))
					}
					return res
				}})
		}
	}
	for _, seg := range []int{1, 3, 7, 50} {
		for k := 1; k <= 60; k++ {
			if seg > 3 && k > 24 {
				break
			}
			seg, k := seg, k
			emit(explore.Case{Family: "segmentation", Size: 500 + k,
				Desc: func() any {
					return map[string]any{"stream_delivered_in_pieces_of": seg, "transport_read_that_fails_once_with_a_timeout": k}
				},
				Run: func() explore.Result { return c03RunReadFault(seg, k) }})
		}
	}
	for field := 0; field < 3; field++ {
		for _, count := range []int{255, 256, 32767, 32768, 40000, 65535} {
			for _, items := range []int{0, 2, count} {
				field, count, items := field, count, items
				emit(explore.Case{Family: "earlier-message", Size: 30,
					Desc: func() any { return map[string]any{"bind_count_word": field, "declares": count, "items_present": items} },
					Run:  func() explore.Result { return c03RunCounts(field, count, items) }})
			}
		}
	}
	for _, r := range [][3]int{{0, 0, 0}, {3, 1500, 0}, {12, 400, 0}, {100, 60, 0}, {40, 200, 0}, {0, 0, 3}, {0, 0, 40}, {2, 2000, 10}, {100, 60, 40}} {
		r := r
		emit(explore.Case{Family: "earlier-message", Size: 31,
			Desc: func() any {
				return map[string]any{"between_bind_and_execute": fmt.Sprintf("%d Parse messages of %d bytes, %d other connections", r[0], r[1], r[2])}
			},
			Run: func() explore.Result { return c03RunRetention(r[0], r[1], r[2]) }})
	}
	c03EnumSeg(tier, emit)
	letters := c03Letters()
	prefixes := [][]sletter{nil}
	for _, l := range letters[:8] {
		prefixes = append(prefixes, []sletter{l})
	}
	prefixes = append(prefixes, []sletter{letters[1], letters[2]})
	for _, p := range prefixes {
		for _, sp := range c03Surplus() {
			p, sp := p, sp
			emit(explore.Case{Family: "isolation", Size: len(p),
				Desc: func() any {
					var names []string
					for _, l := range p {
						names = append(names, l.Name)
					}
					return map[string]any{"prefix": names, "surplus_message": sp.Name}
				},
				Run: func() explore.Result { return c03RunIsolation(p, sp) }})
		}
	}
	for _, pos := range c03Positions() {
		for _, t := range []byte{'Q', 'P', 'B', 'E', 'D', 'C', 'S', 'H', 'd', 'c', 'f', 'X', 'p', 'z', 0} {
			for _, d := range c03DeclaredValues() {
				for _, frames := range []int{0, 1, 2, 40} {
					if tier != "thorough" && frames == 2 {
						continue
					}
					pos, t, d, frames := pos, t, d, frames
					emit(explore.Case{Family: "declared-length", Size: frames,
						Desc: func() any {
							return map[string]any{"position": pos.Name, "type": string(t), "declared_length": d, "framed_queries_following": frames}
						},
						Run: func() explore.Result { return c03RunDeclared(pos, t, d, frames) }})
				}
			}
		}
	}
	// a stream that ends inside a message: that message was never received, nothing of it may reach user code
	// (the callbacks are a prefix of the callbacks of the complete session; same machinery as C04's prefix closure)
	for _, s := range c04Sessions() {
		switch s.Name {
		case "plain / query", "plain / multi-statement query", "plain / query with placeholders", "plain / extended batch", "plain / copy text", "plain / copy binary one message", "auth / query":
		default:
			continue
		}
		s := s
		n := len(s.stream())
		for cut := 1; cut < n; cut++ {
			cut := cut
			emit(explore.Case{Family: "truncated-stream", Size: cut,
				Desc: func() any { return map[string]any{"session": s.Name, "cut_after_bytes": cut, "of": n} },
				Run: func() explore.Result {
					r := c04RunPrefix(s, cut)
					r.Outcome = "truncated-stream"
					for i := range r.Violations {
						if r.Violations[i].Clause == "fabricated-callback" {
							r.Violations[i].Clause = "truncated-message-interpreted"
						}
					}
					return r
				}})
		}
	}
	for _, t := range []byte{'d', 'Q', 'S', 'H', 'z', 'f'} {
		for _, over := range []int{1, 12, c03Limit + 5, 3 * c03Limit} {
			for _, bin := range []bool{false, true} {
				t, over, bin := t, over, bin
				emit(explore.Case{Family: "inside-copy", Size: 5,
					Desc: func() any {
						return map[string]any{"oversized_message_type": string(t), "bytes_over_the_limit": over, "binary_copy": bin}
					},
					Run: func() explore.Result { return c03RunOversizedInCopy(t, over, bin) }})
			}
		}
	}
	for _, t := range []byte{'S', 'H'} {
		for _, sur := range c03SurplusContents() {
			for _, bin := range []bool{false, true} {
				for _, between := range []bool{false, true} {
					t, sur, bin, between := t, sur, bin, between
					emit(explore.Case{Family: "inside-copy", Size: 6,
						Desc: func() any {
							return map[string]any{"message": string(t), "body": sur.Name, "binary_copy": bin, "also_between_the_data_messages": between}
						},
						Run: func() explore.Result { return c03RunBodyInCopy(t, sur, bin, between) }})
				}
			}
		}
	}
	for fa := 0; fa <= 4; fa++ {
		for na := 0; na <= 4; na++ {
			for fb := 0; fb <= 4; fb++ {
				for nb := 0; nb <= 4; nb++ {
					if fb > 1 && fb != nb { // the second Bind is well-formed: no codes, one code, or one per value
						continue
					}
					fa, na, fb, nb := fa, na, fb, nb
					emit(explore.Case{Family: "earlier-message", Size: fa + na + fb + nb,
						Desc: func() any {
							return map[string]any{"earlier_bind": map[string]int{"format_codes": fa, "values": na}, "bind": map[string]int{"format_codes": fb, "values": nb}}
						},
						Run: func() explore.Result { return c03RunBindAfterBind(fa, na, fb, nb) }})
				}
			}
		}
	}
	for _, st := range c03Starters() {
		for _, sur := range c03SurplusContents() {
			for _, split := range []bool{false, true} {
				if split && !st.FollowBinary {
					continue
				}
				st, sur, split := st, sur, split
				emit(explore.Case{Family: "starter-surplus", Size: len(sur.Bytes),
					Desc: func() any { return map[string]any{"starter": st.Name, "surplus": sur.Name, "copy_data_split": split} },
					Run:  func() explore.Result { return c03RunStarter(st, sur, split) }})
			}
		}
	}
	alphabet := []byte{0x00, 0x01, 'a', 0xFF}
	forShapes(len(alphabet), 5, func(sh []int) {
		body := make([]byte, len(sh))
		for i, s := range sh {
			body[i] = alphabet[s]
		}
		depth := c03AccDepth(tier)
		emit(explore.Case{Family: "accessors", Size: len(body),
			Desc: func() any { return fmt.Sprintf("body % x, all accessor sequences of length <= %d", body, depth) },
			Run:  func() explore.Result { return c03RunAccessors(body, depth) }})
	})
}
