package props

import (
	"encoding/binary"
	"fmt"
	"strings"

	"verif/engine/explore"
	"verif/engine/pgproto"
	"verif/engine/script"
)

// nextMsg decodes the single backend message starting at pos.
func nextMsg(b []byte, pos int) (pgproto.BMsg, int, bool) {
	if pos+5 > len(b) {
		return pgproto.BMsg{}, pos, false
	}
	l := int(binary.BigEndian.Uint32(b[pos+1 : pos+5]))
	if l < 4 || pos+1+l > len(b) {
		return pgproto.BMsg{}, pos, false
	}
	ms, err := pgproto.ParseBackend(b[pos : pos+1+l])
	if err != nil || len(ms) != 1 {
		return pgproto.BMsg{}, pos, false
	}
	return ms[0], pos + 1 + l, true
}

func parseAll(b []byte) ([]pgproto.BMsg, bool) {
	ms, err := pgproto.ParseBackend(b)
	return ms, err == nil
}

// writerModel is the reference model of the result writer given to a statement.
type writerModel struct {
	state string // open | completed | emptied
	rows  int
}

func (w writerModel) key(stmt int, failed bool) string {
	r := w.rows
	if r > 3 {
		r = 3
	}
	return fmt.Sprintf("stmt%d/%s/rows%d/failed=%v", stmt, w.state, r, failed)
}

// judgeOps checks the ops of one statement invocation against the writer
// state machine, op by op. It returns the model after the ops and the
// concatenation of what the ops emitted.
func judgeOps(res *explore.Result, ncols int, ops []script.Ev, stmtIdx int, where string) (writerModel, []byte) {
	w := writerModel{state: "open"}
	var emitted []byte
	prev := w.key(stmtIdx, false)
	for _, e := range ops {
		ms, ok := parseAll(e.Out)
		if !ok {
			res.Fail("op-emitted-garbage", fmt.Sprintf("%s: op %s emitted bytes that are not whole messages: % x", where, e.Op, e.Out))
		}
		kinds := pgproto.Kinds(ms)
		failed := e.Err != ""
		cls := e.Op
		switch {
		case e.Op == "r" || e.Op == "n" || e.Op == "a-" || e.Op == "a+" || e.Op == "u" || e.Op == "U" || e.Op == "p":
			good := e.Op == "r" || e.Op == "n" || e.Op == "p"
			if ncols == 0 && (e.Op == "n" || e.Op == "u" || e.Op == "U") {
				good = true // nothing to make NULL / unencodable: it is a plain empty row
			}
			// consistency (always): nil <=> exactly one DataRow of the declared arity
			if !failed {
				if kinds != "D" {
					res.Fail("row-ok-but-not-one-datarow", fmt.Sprintf("%s: Row (%s) returned nil but emitted %q", where, e.Op, kinds))
				} else if len(ms[0].Row) != ncols {
					res.Fail("row-arity", fmt.Sprintf("%s: DataRow has %d fields, %d columns declared", where, len(ms[0].Row), ncols))
				} else {
					for c, f := range ms[0].Row {
						want := fmt.Sprintf("r%dc%d", w.rows, c)
						if e.Op == "p" {
							continue
						}
						if e.Op == "n" && c == 0 {
							if f != nil {
								res.Fail("row-null", fmt.Sprintf("%s: NULL value arrived as %q", where, f))
							}
						} else if string(f) != want || f == nil {
							res.Fail("row-value", fmt.Sprintf("%s: field %d is %q, handler wrote %q", where, c, f, want))
						}
					}
				}
				w.rows++
			} else if len(e.Out) != 0 {
				res.Fail("row-failed-but-emitted", fmt.Sprintf("%s: Row (%s) returned %q but emitted %q", where, e.Op, e.Err, kinds))
			}
			switch w.state {
			case "open":
				if good && failed {
					res.Fail("row-rejected", fmt.Sprintf("%s: a well-formed row was rejected on an open writer: %s", where, e.Err))
				}
				if !good && !failed {
					res.Fail("bad-row-accepted", fmt.Sprintf("%s: Row (%s) was accepted", where, e.Op))
				}
			case "completed":
				if !failed {
					res.Fail("call-after-complete-succeeded", fmt.Sprintf("%s: Row after completion returned nil", where))
				}
			}
		case e.Op == "w":
			if int(e.Written) != w.rows {
				res.Fail("written-counter", fmt.Sprintf("%s: Written() = %d but %d DataRows were delivered", where, e.Written, w.rows))
			}
		case strings.HasPrefix(e.Op, "c="):
			cls = "c"
			tag := script.ExpandTag(e.Op[2:])
			if !failed {
				if kinds != "C" || ms[0].Tag != tag {
					res.Fail("complete-ok-but-not-one-commandcomplete", fmt.Sprintf("%s: Complete(%q) returned nil but emitted %v", where, tag, pgproto.Strings(ms)))
				}
			} else if len(e.Out) != 0 {
				res.Fail("complete-failed-but-emitted", fmt.Sprintf("%s: Complete returned %q but emitted %q", where, e.Err, kinds))
			}
			switch w.state {
			case "open":
				if failed {
					res.Fail("complete-rejected", fmt.Sprintf("%s: first Complete on an open writer failed: %s", where, e.Err))
				} else {
					w.state = "completed"
				}
			case "completed":
				if !failed {
					res.Fail("call-after-complete-succeeded", fmt.Sprintf("%s: second Complete returned nil", where))
				}
			case "emptied":
				if !failed {
					w.state = "completed"
				}
			}
		case e.Op == "e":
			if failed && len(e.Out) != 0 {
				res.Fail("empty-failed-but-emitted", fmt.Sprintf("%s: Empty returned %q but emitted %q", where, e.Err, kinds))
			}
			if !failed && kinds != "" && kinds != "I" {
				res.Fail("empty-emitted", fmt.Sprintf("%s: Empty emitted %q", where, kinds))
			}
			switch w.state {
			case "completed":
				if !failed {
					res.Fail("call-after-complete-succeeded", fmt.Sprintf("%s: Empty after completion returned nil", where))
				}
			case "open":
				if !failed {
					w.state = "emptied"
				}
			}
		default:
			if strings.HasPrefix(e.Op, "!") || e.Op == "y" {
				if len(e.Out) != 0 {
					res.Fail("stray-bytes", fmt.Sprintf("%s: %d bytes appeared on the wire during a no-op", where, len(e.Out)))
				}
			}
		}
		emitted = append(emitted, e.Out...)
		cur := w.key(stmtIdx, false)
		if failed {
			cls += "/err"
		}
		res.Trans = append(res.Trans, prev+"|"+cls+"|"+cur)
		prev = cur
	}
	return w, emitted
}

// splitStatements groups the events of one simple-query cycle.
type stmtRun struct {
	start script.Ev
	ops   []script.Ev
	ret   *script.Ev
}

func groupStmts(evs []script.Ev) (parses []script.Ev, runs []stmtRun) {
	for _, e := range evs {
		switch e.Kind {
		case "parse":
			parses = append(parses, e)
		case "stmt":
			runs = append(runs, stmtRun{start: e})
		case "op":
			if len(runs) > 0 {
				runs[len(runs)-1].ops = append(runs[len(runs)-1].ops, e)
			}
		case "ret":
			if len(runs) > 0 {
				e := e
				runs[len(runs)-1].ret = &e
			}
		}
	}
	return
}

// judgeSimpleCycle checks one simple Query cycle: reply bytes + callback events.
func judgeSimpleCycle(res *explore.Result, query string, evs []script.Ev, reply []byte, where string) {
	if _, ok := parseAll(reply); !ok {
		_, err := pgproto.ParseBackend(reply)
		res.Fail("reply-grammar", fmt.Sprintf("%s: %v", where, err))
		return
	}
	parses, runs := groupStmts(evs)
	if strings.TrimSpace(query) == "" {
		if len(parses) != 0 {
			res.Fail("blank-query-parsed", where+": the parser was consulted for a blank query")
		}
		if k := harnessKinds(reply); k != "IZ" {
			res.Fail("blank-query-reply", fmt.Sprintf("%s: blank query answered with %q, expected EmptyQueryResponse + ReadyForQuery", where, k))
		}
		return
	}
	if len(parses) != 1 {
		res.Fail("parser-calls", fmt.Sprintf("%s: parser invoked %d times for one Query", where, len(parses)))
		return
	}
	stmts, perr, _ := script.ParseQuery(query)
	pos := 0
	expectE := perr || len(stmts) == 0
	executed := 0
	if !expectE {
		for i, st := range stmts {
			if i >= len(runs) {
				res.Fail("statement-not-run", fmt.Sprintf("%s: statement %d was never invoked although no earlier statement failed", where, i))
				return
			}
			run := runs[i]
			executed++
			if run.start.Stmt != i {
				res.Fail("statement-order", fmt.Sprintf("%s: invocation %d ran statement %d", where, i, run.start.Stmt))
			}
			if len(run.start.Params) != 0 {
				res.Fail("simple-query-params", where+": a simple query passed parameters")
			}
			// optional RowDescription
			if m, np, ok := nextMsg(reply, pos); ok && m.Type == 'T' {
				if len(m.Cols) != st.NCols {
					res.Fail("rowdescription-columns", fmt.Sprintf("%s: RowDescription announces %d columns, statement declares %d", where, len(m.Cols), st.NCols))
				}
				for c, col := range m.Cols {
					if c < st.NCols && (col.Name != string(rune('a'+c)) || col.Format != 0) {
						res.Fail("rowdescription-columns", fmt.Sprintf("%s: column %d described as %+v", where, c, col))
					}
				}
				pos = np
			} else if st.NCols > 0 {
				res.Fail("rowdescription-missing", fmt.Sprintf("%s: statement %d declares %d columns but no RowDescription precedes its rows (next: %s)", where, i, st.NCols, peekKinds(reply, pos)))
			}
			w, emitted := judgeOps(res, st.NCols, run.ops, i, fmt.Sprintf("%s stmt %d", where, i))
			if !hasPrefixAt(reply, pos, emitted) {
				res.Fail("interleaved-bytes", fmt.Sprintf("%s: the bytes emitted by statement %d's writer calls (%q) are not contiguous in the reply at offset %d (reply %q)", where, i, harnessKinds(emitted), pos, harnessKinds(reply)))
				return
			}
			pos += len(emitted)
			if run.ret == nil {
				res.Fail("statement-did-not-return", where)
				return
			}
			if run.ret.Err != "" {
				expectE = true
				res.Trans = append(res.Trans, w.key(i, false)+"|return-error|"+w.key(i, true))
				break
			}
			// a statement that returns nil without completing may or may not get a CommandComplete (not asserted)
			if w.state != "completed" {
				if m, np, ok := nextMsg(reply, pos); ok && m.Type == 'C' {
					pos = np
				}
			}
			res.Trans = append(res.Trans, w.key(i, false)+"|return-nil|"+fmt.Sprintf("stmt%d/open/rows0/failed=false", i+1))
		}
	}
	if len(runs) > executed {
		res.Fail("statement-ran-after-failure", fmt.Sprintf("%s: %d statement functions were invoked, expected %d (no statement may run after the first failure)", where, len(runs), executed))
	}
	if expectE {
		m, np, ok := nextMsg(reply, pos)
		if !ok || m.Type != 'E' {
			res.Fail("error-response-missing", fmt.Sprintf("%s: expected exactly one ErrorResponse at offset %d, reply is %q", where, pos, harnessKinds(reply)))
			return
		}
		pos = np
	}
	m, np, ok := nextMsg(reply, pos)
	if !ok || m.Type != 'Z' {
		res.Fail("ready-missing", fmt.Sprintf("%s: expected ReadyForQuery at offset %d, reply is %q", where, pos, harnessKinds(reply)))
		return
	}
	if np != len(reply) {
		res.Fail("ready-not-last", fmt.Sprintf("%s: messages follow the ReadyForQuery: reply is %q", where, harnessKinds(reply)))
	}
}

func harnessKinds(b []byte) string {
	ms, err := pgproto.ParseBackend(b)
	if err != nil {
		return pgproto.Kinds(ms) + "!"
	}
	return pgproto.Kinds(ms)
}

func peekKinds(b []byte, pos int) string {
	if pos > len(b) {
		return ""
	}
	return harnessKinds(b[pos:])
}

func hasPrefixAt(b []byte, pos int, p []byte) bool {
	return pos+len(p) <= len(b) && string(b[pos:pos+len(p)]) == string(p)
}
