package props

import (
	"context"
	"errors"
	"fmt"
	"strings"

	wire "github.com/jeroenrinzema/psql-wire"
	"verif/engine/explore"
	"verif/engine/harness"
	"verif/engine/memnet"
	"verif/engine/pgproto"
	"verif/engine/script"
)

// C05 — Simple Query: ordered results, then exactly one ReadyForQuery.

var c05Ops = []string{"r", "c=SELECT 1", "a-", "w", "e", "a+", "u", "n", "U", "c="}

func init() {
	explore.Register(&explore.Check{
		ID:        "C05",
		Level:     "model_checking",
		Technique: "exhaustive enumeration of handler programs (result-writer operation sequences x statement counts x parser outcomes) run on a real server over an in-memory transport; every writer call and every cycle compared with a reference state machine",
		Rule:      "handler programs: all op sequences of length <= N over " + fmt.Sprintf("%q", c05Ops) + " x {return nil, return an error, return an error wrapping io.EOF / io.ErrUnexpectedEOF, return an error decorated with each severity} x {0, 2 columns}; 2-3 statement products over a 4-op core; parser error / zero statements / blank queries; command tags of every length 0..130 and around 256, 1024, 4096; each program as first and as second Query of a connection; schedule part: a query of two statements overlapping Close (all schedules up to 2 preemptions, thorough: all schedules) is answered with the results of both statements or not at all; 7 programs x 5 states of a neighbouring connection of the same server (discarding until Sync, inside COPY-in, inside an extended batch, not started, after a failed query), the neighbour completed and checked afterwards",
		Assumptions: []string{
			"presence of RowDescription for a column-less statement, a CommandComplete for a statement returning nil without Complete, and the behaviour of calls after a successful Empty() are not asserted (only return-value <=> emission consistency)",
			"reply attribution uses quiescence of the in-memory transport (server parked in Read), not time",
		},
		Enumerate: c05Enumerate,
		After:     explore.MergeSched("C05", false),
		Bounds: func(tier string) map[string]any {
			a, b, c := c05Depth(tier)
			return map[string]any{"single_statement_ops": a, "two_statement_ops": b, "three_statement_ops": c}
		},
		RequiredOutcomes: []string{"ok", "stmt-error", "parser-error", "zero-statements", "blank", "copy-cycle", "neighbour"},
	})
}

func c05TagLengths() []int {
	var out []int
	for n := 0; n <= 130; n++ {
		out = append(out, n)
	}
	return append(out, 254, 255, 256, 257, 1023, 1024, 1025, 4090, 4095, 4096, 4097, 8000)
}

func c05Depth(tier string) (int, int, int) {
	if tier == "thorough" {
		return 6, 3, 2
	}
	return 4, 2, 1
}

func c05Run(query string, second bool) explore.Result { return c05RunNb(query, second, nil) }

// c05RunNb: the same cycle check while another connection of the server is parked in the given state.
func c05RunNb(query string, second bool, nb *neighbour) (res explore.Result) {
	rec := &script.Rec{Extra: copyHandler}
	srv, err := harness.NewServer(rec.ParseFn())
	if err != nil {
		res.Engine = err.Error()
		return res
	}
	defer srv.Stop()
	if nb != nil {
		nc, problem := startNeighbour(srv, *nb)
		if problem != "" {
			res.Engine = problem
			return res
		}
		defer func() {
			finishNeighbour(&res, nc, *nb, fmt.Sprintf("query %q", query))
			if res.Outcome != "" {
				res.Outcome = "neighbour"
			}
		}()
	}
	one := &harness.One{Server: srv, Conn: srv.Connect()}
	rec.Conn = one.C
	out, _ := one.Step(pgproto.Startup("user", "u"))
	if !strings.HasSuffix(harnessKinds(out), "Z") {
		res.Engine = "startup failed: " + harnessKinds(out)
		return res
	}
	if second {
		n := len(rec.Evs)
		q0 := "2:r,c=SELECT 1"
		out, _ := one.Step(pgproto.Query(q0))
		judgeSimpleCycle(&res, q0, rec.Evs[n:], out, "first query")
	}
	n := len(rec.Evs)
	out, st := one.Step(pgproto.Query(query))
	if st.String() != "parked" {
		res.Fail("connection-state", fmt.Sprintf("after the query the connection is %s, expected the server to wait for the next message", st))
	}
	judgeSimpleCycle(&res, query, rec.Evs[n:], out, "query")
	// outcome class
	stmts, perr, _ := script.ParseQuery(query)
	switch {
	case strings.TrimSpace(query) == "":
		res.Outcome = "blank"
	case perr:
		res.Outcome = "parser-error"
	case len(stmts) == 0:
		res.Outcome = "zero-statements"
	case strings.Contains(query, "!"):
		res.Outcome = "stmt-error"
	default:
		res.Outcome = "ok"
	}
	res.Key = fmt.Sprint(query, second)
	// the connection must still serve a following query normally
	n = len(rec.Evs)
	q2 := "1:r,c=SELECT 1"
	out, _ = one.Step(pgproto.Query(q2))
	judgeSimpleCycle(&res, q2, rec.Evs[n:], out, "follow-up query")
	if k := harnessKinds(out); k != "TDCZ" {
		res.Fail("follow-up", fmt.Sprintf("follow-up query answered with %q", k))
	}
	return res
}

// c05RunWriteFault: exactly one transport write of the query cycle fails (nothing of it is delivered). The statement
// writes five rows whatever Row returns and reports Written() in its command tag: the counter equals the rows whose
// Row call returned nil, and those are the DataRows the client received.
func c05RunWriteFault(k int, ncols int) explore.Result { return c05RunWriteFaultEnd(k, ncols, false) }

// c05RunAfterCompletion: calls on a completed writer "fail without emitting bytes" - CopyIn too.
func c05RunAfterCompletion(how string) explore.Result {
	var res explore.Result
	res.Outcome = "ok"
	res.Key = "after-completion " + how
	var errs []string
	parse := func(ctx context.Context, q string) (wire.PreparedStatements, error) {
		return wire.Prepared(wire.NewStatement(func(ctx context.Context, w wire.DataWriter, p []wire.Parameter) error {
			if how == "Empty" {
				errs = append(errs, fmt.Sprint(w.Empty()))
			} else {
				w.Row([]any{"x"})
				errs = append(errs, fmt.Sprint(w.Complete("DONE")))
			}
			_, err := w.CopyIn(wire.TextFormat)
			errs = append(errs, fmt.Sprint("CopyIn: ", err))
			_, err = w.CopyIn(wire.BinaryFormat)
			errs = append(errs, fmt.Sprint("CopyIn: ", err))
			return nil
		}, wire.WithColumns(wire.Columns{{Name: "a", Oid: 25}}))), nil
	}
	one, err := harness.StartOne(parse)
	if err != nil {
		res.Engine = err.Error()
		return res
	}
	defer one.Stop()
	one.Step(pgproto.Startup("user", "u"))
	out, _ := one.Step(pgproto.Query("q"))
	want := "TDCZ"
	if how == "Empty" {
		want = "TIZ"
	}
	k := harness.Kinds(out)
	if how == "Empty" && (k == "IZ" || k == "TZ" || k == "Z") {
		k = want // (what Empty itself emits is judged by the program families)
	}
	if k != want || len(errs) != 3 || strings.HasSuffix(errs[1], "<nil>") || strings.HasSuffix(errs[2], "<nil>") {
		res.Fail("call-after-complete-succeeded", fmt.Sprintf("a statement completes (%s) and then calls CopyIn twice: the calls returned %v and the client received %q (expected errors and nothing beyond %q)", how, errs, harness.Kinds(out), want))
	}
	return res
}

func c05RunWriteFaultEnd(k int, ncols int, fails bool) explore.Result {
	var res explore.Result
	res.Outcome = "ok"
	res.Key = fmt.Sprint("write-fault", k, ncols, fails)
	accepted := 0
	var written uint64
	parse := func(ctx context.Context, q string) (wire.PreparedStatements, error) {
		cols := wire.Columns{{Name: "a", Oid: 25}, {Name: "b", Oid: 25}}[:ncols]
		return wire.Prepared(wire.NewStatement(func(ctx context.Context, w wire.DataWriter, p []wire.Parameter) error {
			accepted = 0
			for i := 0; i < 5; i++ {
				if err := w.Row([]any{fmt.Sprint("r", i), "x"}[:ncols]); err == nil {
					accepted++
				}
			}
			written = w.Written()
			if fails {
				return errors.New("the statement fails after its rows")
			}
			return w.Complete(fmt.Sprintf("SELECT %d", written))
		}, wire.WithColumns(cols))), nil
	}
	one, err := harness.StartOne(parse)
	if err != nil {
		res.Engine = err.Error()
		return res
	}
	defer one.Stop()
	one.Step(pgproto.Startup("user", "u"))
	_, writes, _, _, _, _ := one.C.Snapshot()
	one.C.SetFaults(memnet.Faults{WriteErrOnceAt: writes + k, Timeout: k%2 == 0})
	out, _ := one.Step(pgproto.Query("q"))
	ms, perr := pgproto.ParseBackend(out)
	if perr != nil {
		res.Fail("reply-grammar", perr.Error())
		return res
	}
	delivered := strings.Count(pgproto.Kinds(ms), "D")
	if int(written) != accepted {
		res.Fail("written-counter", fmt.Sprintf("write %d of the cycle failed once: Row returned nil %d times but Written() = %d", k, accepted, written))
	}
	if kinds := pgproto.Kinds(ms); fails && strings.HasSuffix(kinds, "Z") && strings.Count(kinds, "E") != 1 {
		// the cycle of a failing statement ends with its ErrorResponse and then ReadyForQuery - or, if that
		// ErrorResponse cannot be delivered, not with a ReadyForQuery that makes the failure look like a success
		res.Fail("error-count", fmt.Sprintf("write %d of the cycle of a FAILING statement failed once: the client received %q (a ReadyForQuery without the ErrorResponse)", k, kinds))
	}
	if delivered != accepted && strings.Contains(pgproto.Kinds(ms), "Z") {
		res.Fail("written-counter", fmt.Sprintf("write %d of the cycle failed once: Row returned nil %d times (Written() = %d) but %d DataRows were delivered (reply %q)", k, accepted, written, delivered, pgproto.Kinds(ms)))
	}
	return res
}

func c05Programs(ops []string, maxLen int, ncols int, f func(prog string, size int)) {
	forShapes(len(ops), maxLen, func(sh []int) {
		var parts []string
		for _, i := range sh {
			op := ops[i]
			if ncols == 0 && (op == "a-" || op == "u" || op == "U" || op == "n") {
				return // not applicable without columns
			}
			parts = append(parts, op)
		}
		for _, ret := range []string{"", "!boom", "!EOF", "!UEOF", "!WARNING", "!NOTICE", "!INFO", "!LOG", "!DEBUG", "!FATAL", "!PANIC", "!JOIN"} {
			if ret != "" && ret != "!boom" && (len(sh) > 2 || (len(sh) > 1 && ret != "!EOF" && ret != "!UEOF")) {
				continue // errors wrapping io.EOF / io.ErrUnexpectedEOF: behind every program of <= 2 operations
			}
			p := append([]string(nil), parts...)
			if ret != "" {
				p = append(p, ret)
			}
			prog := fmt.Sprint(ncols)
			if len(p) > 0 {
				prog += ":" + strings.Join(p, ",")
			}
			f(prog, len(sh))
		}
	})
}

// c05RunCopy: a simple Query whose statement starts COPY-in. Whatever the client sends while the copy
// is active, the cycle carries at most one ErrorResponse and ends with exactly one ReadyForQuery, and
// the next Query is answered with its own cycle.
func c05RunCopy(policy string, msgs []cletter) explore.Result {
	var res explore.Result
	res.Outcome = "copy-cycle"
	rec := &script.Rec{Extra: copyHandler}
	one, err := harness.StartOne(rec.ParseFn())
	if err != nil {
		res.Engine = err.Error()
		return res
	}
	rec.Conn = one.C
	defer one.Stop()
	one.Step(pgproto.Startup("user", "u"))
	prog := "1:copyt:" + policy
	var all []byte
	out, _ := one.Step(pgproto.Query(prog))
	all = append(all, out...)
	var names []string
	for _, m := range msgs {
		names = append(names, m.Name)
		out, st := one.Step(m.Bytes)
		all = append(all, out...)
		if kk := harnessKinds(out); strings.Count(kk, "Z") > 1 || (m.Kind != "query" && strings.Count(kk, "E") > 1) {
			res.Fail("copy-cycle", fmt.Sprintf("%s: %s was answered %q: one client message ends at most one cycle (a second ErrorResponse / ReadyForQuery is stale and shifts every later reply)", prog, m.Name, kk))
		}
		if st != memnet.Parked {
			break
		}
	}
	out, _ = one.Step(pgproto.CopyDone()) // ends the copy if it is still active, ignored otherwise
	all = append(all, out...)
	res.Key = fmt.Sprint("copy", policy, names)
	k := harnessKinds(all)
	if strings.HasSuffix(k, "!") {
		res.Fail("reply-grammar", fmt.Sprintf("%s then %v: %q", prog, names, k))
		return res
	}
	// the Query cycle: T G ... exactly one Z overall (Sync letters inside the copy are invisible; a Sync after it adds its own Z)
	syncsAfter := 0
	ended := false
	for _, m := range msgs {
		if ended && m.Kind == "sync" {
			syncsAfter++
		}
		if m.Kind == "done" || m.Kind == "fail" || m.Kind == "query" || m.Kind == "unknown" || m.Kind == "oversized" {
			ended = true
		}
	}
	_ = syncsAfter
	if !strings.HasPrefix(k, "TG") {
		res.Fail("copy-cycle", fmt.Sprintf("%s: the cycle does not start with RowDescription + CopyInResponse: %q", prog, k))
		return res
	}
	cycle := k[2:]
	if i := strings.IndexByte(cycle, 'Z'); i < 0 {
		res.Fail("ready-missing", fmt.Sprintf("%s then %v: no ReadyForQuery ends the cycle: %q", prog, names, k))
		return res
	} else {
		first := cycle[:i+1]
		if strings.Count(first, "E") > 1 || (first != "CZ" && first != "EZ" && first != "Z") {
			res.Fail("copy-cycle", fmt.Sprintf("%s then %v: the cycle is %q (expected CommandComplete or a single ErrorResponse, then ReadyForQuery); whole reply %q", prog, names, first, k))
		}
	}
	// a following query gets exactly its own cycle
	out, _ = one.Step(pgproto.Query(progRows))
	if kk := harnessKinds(out); kk != "TDCZ" && one.C.IsClosed() == false {
		res.Fail("follow-up", fmt.Sprintf("%s then %v: the next query was answered %q (a stale ErrorResponse / ReadyForQuery shifts every later reply)", prog, names, kk))
	}
	res.Trans = []string{fmt.Sprintf("stmt0/copying|%s|stmt0/done", policy)}
	return res
}

func c05Enumerate(tier string, emit explore.Emit) {
	{
		letters := c13Letters()
		for _, policy := range []string{"drain", "take1", "fail1"} {
			policy := policy
			forShapes(len(letters), 2, func(sh []int) {
				msgs := make([]cletter, len(sh))
				for i, s := range sh {
					msgs[i] = letters[s]
					if letters[s].Kind == "terminate" {
						return // the connection ends: nothing to observe about the cycle
					}
				}
				emit(explore.Case{Family: "copy-cycle", Size: 30 + len(msgs),
					Desc: func() any {
						return map[string]any{"statement": "COPY-in, policy " + policy, "client_sends": c13Names(msgs)}
					},
					Run: func() explore.Result { return c05RunCopy(policy, msgs) }})
			})
		}
	}
	d1, d2, d3 := c05Depth(tier)
	add := func(q string, size int) {
		for _, second := range []bool{false, true} {
			second := second
			emit(explore.Case{Family: "simple-query", Size: size,
				Desc: func() any { return map[string]any{"query_program": q, "as_second_query": second} },
				Run:  func() explore.Result { return c05Run(q, second) }})
		}
	}
	for _, q := range []string{"", " ", "\t\n ", "#perr", "#zero", "#peof"} {
		add(q, 0)
	}
	// command tags of every length around the sizes of the writer's internal buffers
	for _, n := range c05TagLengths() {
		add(fmt.Sprintf("1:r,c=@%d", n), 3)
		add(fmt.Sprintf("0:c=@%d|1:r,c=@%d", n, n+1), 4)
	}
	for _, ncols := range []int{1, 2} {
		for k := 1; k <= 8; k++ {
			k, ncols := k, ncols
			emit(explore.Case{Family: "write-fault", Size: 6, Desc: func() any {
				return map[string]any{"columns": ncols, "rows": 5, "transport_write_of_the_cycle_that_fails_once": k}
			},
				Run: func() explore.Result { return c05RunWriteFault(k, ncols) }})
			emit(explore.Case{Family: "write-fault", Size: 7, Desc: func() any {
				return map[string]any{"columns": ncols, "rows": 5, "then_the_statement": "fails", "transport_write_of_the_cycle_that_fails_once": k}
			},
				Run: func() explore.Result { return c05RunWriteFaultEnd(k, ncols, true) }})
		}
	}
	for _, how := range []string{"Complete", "Empty"} {
		how := how
		emit(explore.Case{Family: "write-fault", Size: 8, Desc: func() any {
			return map[string]any{"statement_completes_with": how, "then_calls": "CopyIn (text), CopyIn (binary)"}
		},
			Run: func() explore.Result { return c05RunAfterCompletion(how) }})
	}
	// every neighbour state x a small set of programs
	for _, nb := range neighbourStates() {
		for _, q := range []string{"", "#perr", "#zero", "1:r,c=SELECT 1", "2:r,r,c=T|0:c=X", "1:r,!boom|0:c=X", "0:e"} {
			nb, q := nb, q
			emit(explore.Case{Family: "neighbour", Size: 5,
				Desc: func() any { return map[string]any{"query_program": q, "neighbouring_connection": nb.Name} },
				Run:  func() explore.Result { return c05RunNb(q, true, &nb) }})
		}
	}
	for _, nc := range []int{2, 0} {
		c05Programs(c05Ops, d1, nc, add)
	}
	core := []string{"r", "c=T", "w", "a-", "e"}
	var progs2, progs3 []string
	c05Programs(core, d2, 2, func(p string, _ int) { progs2 = append(progs2, p) })
	c05Programs(core, d3, 2, func(p string, _ int) { progs3 = append(progs3, p) })
	for _, a := range progs2 {
		for _, b := range progs2 {
			add(a+"|"+b, 10)
		}
	}
	for _, a := range progs3 {
		for _, b := range progs3 {
			for _, c := range progs3 {
				add(a+"|"+b+"|"+c, 20)
			}
		}
	}
}
