package props

import (
	"context"
	"fmt"
	"runtime"
	"strings"

	wire "github.com/jeroenrinzema/psql-wire"
	"verif/engine/explore"
	"verif/engine/harness"
	"verif/engine/pgproto"
)

// C20 — ParseParameters is total and counts placeholders correctly.

var c20Tokens = []string{"$1", "?", "x", " ", "$2", "$0", "$5", "$01", "$", "$65535", "$65536", "$99999999", "$9223372036854775808"}

func init() {
	explore.Register(&explore.Check{
		ID:        "C20",
		Level:     "exploration",
		Technique: "exhaustive enumeration of all token concatenations up to a length bound, each run on the real ParseParameters (and through Parse+Describe on a live server) against an independent scanner",
		Rule: "all concatenations of <= N tokens from " + fmt.Sprintf("%q", c20Tokens) + "; a case is non-trivial when it contains at least one marker; distinct = distinct query strings. " +
			"Oracle: no panic, len <= 65535, bounded allocation, all OIDs 0, pure $n => highest index, pure ? => number of markers, Describe announces that length",
		Assumptions: []string{"length for a highest index > 65535 and for queries mixing $n with ? is not asserted (only totality and the 65535 bound)"},
		Enumerate:   c20Enumerate,
		Bounds: func(tier string) map[string]any {
			d, s := c20Depth(tier)
			return map[string]any{"tokens": len(c20Tokens), "max_tokens_direct": d, "max_tokens_session": s}
		},
		RequiredOutcomes: []string{"positional", "anonymous", "mixed", "none", "beyond-limit"},
	})
}

func c20Depth(tier string) (int, int) {
	if tier == "thorough" {
		return 5, 3
	}
	return 4, 2
}

// c20Model is the independent left-to-right scanner for \$[0-9]+|\?
// It returns the highest positional index (capped to "huge" when it does not
// fit the protocol limit), the number of ? markers and whether any index is huge.
func c20Model(q string) (maxPos int, marks int, positional int, huge bool) {
	for i := 0; i < len(q); {
		switch {
		case q[i] == '?':
			marks++
			i++
		case q[i] == '$' && i+1 < len(q) && q[i+1] >= '0' && q[i+1] <= '9':
			j := i + 1
			v := 0
			big := false
			for j < len(q) && q[j] >= '0' && q[j] <= '9' {
				if !big {
					v = v*10 + int(q[j]-'0')
					if v > 65535 {
						big = true
					}
				}
				j++
			}
			positional++
			if big {
				huge = true
			} else if v > maxPos {
				maxPos = v
			}
			i = j
		default:
			i++
		}
	}
	return
}

func c20Judge(res *explore.Result, q string) (n int, ok bool) {
	maxPos, marks, positional, huge := c20Model(q)
	switch {
	case huge:
		res.Outcome = "beyond-limit"
	case positional > 0 && marks > 0:
		res.Outcome = "mixed"
	case positional > 0:
		res.Outcome = "positional"
	case marks > 0:
		res.Outcome = "anonymous"
	default:
		res.Outcome = "none"
	}
	if positional+marks > 0 {
		res.Key = q
	}
	measure := huge || maxPos >= 1000
	var before runtime.MemStats
	if measure {
		runtime.ReadMemStats(&before)
	}
	var out []uint32
	panicked := func() (p any) {
		defer func() { p = recover() }()
		got := wire.ParseParameters(q)
		for _, o := range got {
			out = append(out, uint32(o))
		}
		// a caller is free to annotate the list it was given (e.g. fill in types it knows): that must never
		// show up in a later, unrelated result
		for i := range got {
			got[i] = 23
		}
		return nil
	}()
	if panicked != nil {
		res.Fail("panic", fmt.Sprintf("ParseParameters(%q) panicked: %v", q, panicked))
		return 0, false
	}
	if measure {
		var after runtime.MemStats
		runtime.ReadMemStats(&after)
		if d := after.TotalAlloc - before.TotalAlloc; d > 8<<20 {
			res.Fail("unbounded-work", fmt.Sprintf("ParseParameters(%q) allocated %d bytes (> 8 MiB) for one call", q, d))
		}
	}
	if len(out) > 65535 {
		res.Fail("unbounded-work", fmt.Sprintf("ParseParameters(%q) returned %d placeholders (> 65535)", q, len(out)))
	}
	for i, o := range out {
		if o != 0 {
			res.Fail("oid-not-unspecified", fmt.Sprintf("ParseParameters(%q)[%d] = %d", q, i, o))
			break
		}
	}
	switch res.Outcome {
	case "positional":
		if len(out) != maxPos {
			res.Fail("count", fmt.Sprintf("ParseParameters(%q): %d placeholders, highest positional index is %d", q, len(out), maxPos))
		}
	case "anonymous":
		if len(out) != marks {
			res.Fail("count", fmt.Sprintf("ParseParameters(%q): %d placeholders, %d ? markers", q, len(out), marks))
		}
	case "none":
		if len(out) != 0 {
			res.Fail("count", fmt.Sprintf("ParseParameters(%q): %d placeholders for a query without markers", q, len(out)))
		}
	}
	return len(out), true
}

func forTokenStrings(tokens []string, depth int, f func(parts []int)) {
	forShapes(len(tokens), depth, f)
}

func c20Enumerate(tier string, emit explore.Emit) {
	depth, sdepth := c20Depth(tier)
	mk := func(parts []int) string {
		var b strings.Builder
		for _, p := range parts {
			b.WriteString(c20Tokens[p])
		}
		return b.String()
	}
	forTokenStrings(c20Tokens, depth, func(parts []int) {
		q := mk(parts)
		n := len(parts)
		emit(explore.Case{Family: "direct", Size: n, Desc: func() any { return map[string]any{"query": q} }, Run: func() explore.Result {
			var res explore.Result
			c20Judge(&res, q)
			return res
		}})
	})
	forTokenStrings(c20Tokens, sdepth, func(parts []int) {
		q := "select " + mk(parts)
		n := len(parts)
		emit(explore.Case{Family: "describe", Size: n, Desc: func() any { return map[string]any{"query": q, "via": "Parse+Describe(S)"} }, Run: func() explore.Result {
			var res explore.Result
			// the handler calls the documented helper on client-controlled text;
			// a panic here kills the process (attributed by the driver).
			parse := func(ctx context.Context, query string) (wire.PreparedStatements, error) {
				return wire.Prepared(wire.NewStatement(func(ctx context.Context, w wire.DataWriter, p []wire.Parameter) error {
					return w.Complete("OK")
				}, wire.WithParameters(wire.ParseParameters(query)))), nil
			}
			want, ok := c20Judge(&res, q)
			if !ok {
				return res
			}
			one, err := harness.StartOne(parse, wire.MessageBufferSize(1<<20))
			if err != nil {
				res.Engine = err.Error()
				return res
			}
			one.Step(pgproto.Startup("user", "u"))
			// the frontend may pre-declare types for only some (or none) of the placeholders
			declared := make([]uint32, n%3)
			for i := range declared {
				declared[i] = 25
			}
			out, _ := one.Step(pgproto.Cat(pgproto.Parse("s", q, declared...), pgproto.Describe('S', "s"), pgproto.Sync()))
			one.Stop()
			ms, err := pgproto.ParseBackend(out)
			if err != nil {
				res.Fail("describe-grammar", err.Error())
				return res
			}
			var t *pgproto.BMsg
			for i := range ms {
				if ms[i].Type == 't' {
					t = &ms[i]
				}
			}
			if t == nil {
				res.Fail("describe-missing", "no ParameterDescription in reply "+pgproto.Kinds(ms))
			} else if len(t.OIDs) != want {
				res.Fail("describe-count", fmt.Sprintf("ParseParameters reported %d placeholders, Describe announced %d", want, len(t.OIDs)))
			}
			return res
		}})
	})
}
