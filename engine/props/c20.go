package props

import (
	"context"
	"fmt"
	"runtime"
	"strings"

	wire "github.com/jeroenrinzema/psql-wire"
	"verif/engine/explore"
	"verif/engine/harness"
	"verif/engine/pgproto"
)

// C20 — ParseParameters is total and counts placeholders correctly.

var c20Tokens = []string{"$1", "?", "x", " ", "$2", "$0", "$5", "$01", "$", "$65535", "$65536", "$99999999", "$9223372036854775808", "$18446744073709551623", "$340282366920938463463374607431768211461"}

func init() {
	explore.Register(&explore.Check{
		ID:        "C20",
		Level:     "exploration",
		Technique: "exhaustive enumeration of all token concatenations up to a length bound, each run on the real ParseParameters (and through Parse+Describe on a live server) against an independent scanner",
		Rule: "all concatenations of <= N tokens from " + fmt.Sprintf("%q", c20Tokens) + "; a case is non-trivial when it contains at least one marker; distinct = distinct query strings. " +
			"Oracle: no panic, len <= 65535, bounded allocation, all OIDs 0, pure $n => highest index, pure ? => number of markers, Describe announces that length",
		Assumptions: []string{"for a pure $n query with an index > 65535 the length is the highest in-range index or 65535 (ignored or saturating), nothing else; for more than 65535 ? markers and for queries mixing $n with ? it is not asserted (only totality and the 65535 bound)", "allocation bound per call: 8 MiB + 1 KiB per byte of query text (scanning is linear in the text; nothing may depend on the value of an index)"},
		Enumerate:   c20Enumerate,
		Bounds: func(tier string) map[string]any {
			d, s := c20Depth(tier)
			return map[string]any{"tokens": len(c20Tokens), "max_tokens_direct": d, "max_tokens_session": s, "long_queries": len(c20LongSpecs(tier)), "redefine": "every first text of <= max_tokens_session tokens x every second text of <= 1 token x {unnamed, named}"}
		},
		RequiredOutcomes: []string{"positional", "anonymous", "mixed", "none", "beyond-limit"},
	})
}

// c20Long are structured long queries: a block repeated many times (so that the number of MARKERS, not the
// highest index, crosses the protocol limit) with a tail that introduces a new highest index afterwards.
type c20LongSpec struct {
	block string
	times int
	tail  string
}

func c20LongSpecs(tier string) []c20LongSpec {
	blocks := []string{"($1, $2),", "$1 ", "?,", "$2$1", "$70000 ", "x"}
	times := []int{1, 32767, 32768, 65534, 65535, 65536, 70000}
	tails := []string{"", "$3", "($1, $3)", "?", "$65535", "$65536"}
	if tier == "thorough" {
		times = append(times, 2, 255, 256, 4095, 4096, 16383, 16384, 131072, 200000)
		tails = append(tails, "$4 $3", "$0", "$")
		blocks = append(blocks, "$3,$2,$1;", "$65535,", "??")
	}
	var out []c20LongSpec
	for _, b := range blocks {
		for _, n := range times {
			for _, t := range tails {
				out = append(out, c20LongSpec{b, n, t})
			}
		}
	}
	return out
}

func c20Depth(tier string) (int, int) {
	if tier == "thorough" {
		return 5, 3
	}
	return 4, 2
}

// c20Model is the independent left-to-right scanner for \$[0-9]+|\?
// It returns the highest positional index (capped to "huge" when it does not
// fit the protocol limit), the number of ? markers and whether any index is huge.
func c20Model(q string) (maxPos int, marks int, positional int, huge bool) {
	for i := 0; i < len(q); {
		switch {
		case q[i] == '?':
			marks++
			i++
		case q[i] == '$' && i+1 < len(q) && q[i+1] >= '0' && q[i+1] <= '9':
			j := i + 1
			v := 0
			big := false
			for j < len(q) && q[j] >= '0' && q[j] <= '9' {
				if !big {
					v = v*10 + int(q[j]-'0')
					if v > 65535 {
						big = true
					}
				}
				j++
			}
			positional++
			if big {
				huge = true
			} else if v > maxPos {
				maxPos = v
			}
			i = j
		default:
			i++
		}
	}
	return
}

func c20Judge(res *explore.Result, q string) (n int, ok bool) {
	maxPos, marks, positional, huge := c20Model(q)
	switch {
	case huge || marks > 65535:
		res.Outcome = "beyond-limit"
	case positional > 0 && marks > 0:
		res.Outcome = "mixed"
	case positional > 0:
		res.Outcome = "positional"
	case marks > 0:
		res.Outcome = "anonymous"
	default:
		res.Outcome = "none"
	}
	if positional+marks > 0 {
		res.Key = q
	}
	measure := huge || maxPos >= 1000 || len(q) > 4096
	var before runtime.MemStats
	if measure {
		runtime.ReadMemStats(&before)
	}
	var out []uint32
	panicked := func() (p any) {
		defer func() { p = recover() }()
		got := wire.ParseParameters(q)
		for _, o := range got {
			out = append(out, uint32(o))
		}
		// a caller is free to annotate the list it was given (e.g. fill in types it knows): that must never
		// show up in a later, unrelated result
		for i := range got {
			got[i] = 23
		}
		return nil
	}()
	if panicked != nil {
		res.Fail("panic", fmt.Sprintf("ParseParameters(%q) panicked: %v", q, panicked))
		return 0, false
	}
	if measure {
		var after runtime.MemStats
		runtime.ReadMemStats(&after)
		// scanning the text is proportional to its length; nothing may be proportional to the VALUE of an index
		if d := after.TotalAlloc - before.TotalAlloc; d > 8<<20+1024*uint64(len(q)) {
			res.Fail("unbounded-work", fmt.Sprintf("ParseParameters(%q) allocated %d bytes (> 8 MiB + 1 KiB per byte of input) for one call", q, d))
		}
	}
	if len(out) > 65535 {
		res.Fail("unbounded-work", fmt.Sprintf("ParseParameters(%q) returned %d placeholders (> 65535)", q, len(out)))
	}
	for i, o := range out {
		if o != 0 {
			res.Fail("oid-not-unspecified", fmt.Sprintf("ParseParameters(%q)[%d] = %d", q, i, o))
			break
		}
	}
	switch res.Outcome {
	case "beyond-limit":
		// an index beyond the limit cannot be honoured; it is ignored or it saturates the list - it is never read as
		// some other, smaller index (2^64+7 is not 7)
		if positional > 0 && marks == 0 && len(out) != maxPos && len(out) != 65535 {
			res.Fail("count", fmt.Sprintf("ParseParameters(%q): %d placeholders; the highest index within the limit is %d (indexes beyond 65535 are ignored or saturate the list at 65535, nothing else)", q, len(out), maxPos))
		}
	case "positional":
		if len(out) != maxPos {
			res.Fail("count", fmt.Sprintf("ParseParameters(%q): %d placeholders, highest positional index is %d", q, len(out), maxPos))
		}
	case "anonymous":
		if len(out) != marks {
			res.Fail("count", fmt.Sprintf("ParseParameters(%q): %d placeholders, %d ? markers", q, len(out), marks))
		}
	case "none":
		if len(out) != 0 {
			res.Fail("count", fmt.Sprintf("ParseParameters(%q): %d placeholders for a query without markers", q, len(out)))
		}
	}
	return len(out), true
}

// c20Parse is the documented way of using the helper: on client-controlled text inside the parse callback.
func c20Parse(ctx context.Context, query string) (wire.PreparedStatements, error) {
	return wire.Prepared(wire.NewStatement(func(ctx context.Context, w wire.DataWriter, p []wire.Parameter) error {
		return w.Complete("OK")
	}, wire.WithParameters(wire.ParseParameters(query)))), nil
}

func forTokenStrings(tokens []string, depth int, f func(parts []int)) {
	forShapes(len(tokens), depth, f)
}

func c20Enumerate(tier string, emit explore.Emit) {
	depth, sdepth := c20Depth(tier)
	mk := func(parts []int) string {
		var b strings.Builder
		for _, p := range parts {
			b.WriteString(c20Tokens[p])
		}
		return b.String()
	}
	forTokenStrings(c20Tokens, depth, func(parts []int) {
		q := mk(parts)
		n := len(parts)
		emit(explore.Case{Family: "direct", Size: n, Desc: func() any { return map[string]any{"query": q} }, Run: func() explore.Result {
			var res explore.Result
			c20Judge(&res, q)
			return res
		}})
	})
	for _, sp := range c20LongSpecs(tier) {
		sp := sp
		emit(explore.Case{Family: "long", Size: 10 + len(sp.tail), Desc: func() any {
			return map[string]any{"block": sp.block, "times": sp.times, "tail": sp.tail, "query": "strings.Repeat(block, times) + tail"}
		}, Run: func() explore.Result {
			var res explore.Result
			c20Judge(&res, strings.Repeat(sp.block, sp.times)+sp.tail)
			if len(res.Key) > 64 {
				res.Key = fmt.Sprintf("%q*%d+%q", sp.block, sp.times, sp.tail)
			}
			for i := range res.Violations {
				if len(res.Violations[i].Detail) > 400 {
					res.Violations[i].Detail = fmt.Sprintf("ParseParameters(strings.Repeat(%q, %d)+%q): ", sp.block, sp.times, sp.tail) + res.Violations[i].Detail[len(res.Violations[i].Detail)-160:]
				}
			}
			return res
		}})
	}
	// a statement name defined more than once on one connection: Describe announces the count of the LATEST
	// definition (state left behind by the earlier one must not show)
	forTokenStrings(c20Tokens, sdepth, func(first []int) {
		if len(first) == 0 {
			return
		}
		forTokenStrings(c20Tokens, 1, func(second []int) {
			for _, blank := range []string{"select ", "", " ", "\t\n "} {
				if blank != "select " && len(second) > 0 {
					continue
				}
				q1, q2 := "select "+mk(first), blank+mk(second)
				n := len(first) + len(second)
				for _, name := range []string{"", "s"} {
					name := name
					emit(explore.Case{Family: "redefine", Size: n, Desc: func() any {
						return map[string]any{"statement": name, "first": q1, "second": q2, "via": "Parse, Parse (same name), Describe(S)"}
					}, Run: func() explore.Result {
						var res explore.Result
						var r1 explore.Result
						if _, ok := c20Judge(&r1, q1); !ok {
							return r1
						}
						want, ok := c20Judge(&res, q2)
						if !ok {
							return res
						}
						res.Key = q1 + "\x00" + q2
						one, err := harness.StartOne(c20Parse, wire.MessageBufferSize(1<<20))
						if err != nil {
							res.Engine = err.Error()
							return res
						}
						one.Step(pgproto.Startup("user", "u"))
						out, _ := one.Step(pgproto.Cat(pgproto.Parse(name, q1), pgproto.Describe('S', name), pgproto.Parse(name, q2), pgproto.Describe('S', name), pgproto.Sync()))
						one.Stop()
						ms, err := pgproto.ParseBackend(out)
						if err != nil {
							res.Fail("describe-grammar", err.Error())
							return res
						}
						var t *pgproto.BMsg
						for i := range ms {
							if ms[i].Type == 't' {
								t = &ms[i]
							}
						}
						if t == nil {
							res.Fail("describe-missing", "no ParameterDescription in reply "+pgproto.Kinds(ms))
						} else if len(t.OIDs) != want {
							res.Fail("describe-count", fmt.Sprintf("statement %q redefined from %q to %q: ParseParameters reported %d placeholders for the new text, Describe announced %d", name, q1, q2, want, len(t.OIDs)))
						}
						return res
					}})
				}
			}
		})
	})
	emitDescribe := func(q string, n int) { c20DescribeCase(emit, q, n) }
	func() {
		// index spellings (leading zeros, the digits 8 and 9 behind a zero) and every count around the sizes at
		// which a buffer for the description might be chosen
		for _, tok := range []string{"$08", "$09", "$010", "$0100", "$0177", "$00065535", "$0000000000000000000012", "$1e3", "$0x10", "$+3", "$-3", "$12abc", "$12_3"} {
			emitDescribe("select "+tok+" from t where a = $2", 3)
			emitDescribe(tok, 1)
		}
		for n := 1; n <= 300; n++ {
			emitDescribe(fmt.Sprintf("select $%d", n), 2)
		}
		for _, n := range []int{511, 512, 513, 1023, 1024, 1025, 2047, 2048, 4095, 4096, 4097, 16383, 16384, 16385, 32767, 32768, 65534, 65535} {
			emitDescribe(fmt.Sprintf("select $%d", n), 2)
			emitDescribe(strings.Repeat("?,", n-1)+"?", 2)
		}
	}()
	forTokenStrings(c20Tokens, sdepth, func(parts []int) {
		for _, prefix := range []string{"select ", "", " "} {
			if prefix != "select " && len(parts) > 1 {
				continue
			}
			emitDescribe(prefix+mk(parts), len(parts))
		}
	})
}

// c20DescribeCase: one query through ParseParameters and through Parse + Describe(S) on a live server (shared by the
// token enumeration and the explicit lists).
func c20DescribeCase(emit explore.Emit, q string, n int) {
	{
		{
			emit(explore.Case{Family: "describe", Size: n, Desc: func() any { return map[string]any{"query": q, "via": "Parse+Describe(S)"} }, Run: func() explore.Result {
				var res explore.Result
				// the handler calls the documented helper on client-controlled text;
				// a panic here kills the process (attributed by the driver).
				parse := func(ctx context.Context, query string) (wire.PreparedStatements, error) {
					return wire.Prepared(wire.NewStatement(func(ctx context.Context, w wire.DataWriter, p []wire.Parameter) error {
						return w.Complete("OK")
					}, wire.WithParameters(wire.ParseParameters(query)))), nil
				}
				want, ok := c20Judge(&res, q)
				if !ok {
					return res
				}
				one, err := harness.StartOne(parse, wire.MessageBufferSize(1<<20))
				if err != nil {
					res.Engine = err.Error()
					return res
				}
				one.Step(pgproto.Startup("user", "u"))
				// the frontend may pre-declare types for only some (or none) of the placeholders
				declared := make([]uint32, n%3)
				for i := range declared {
					declared[i] = 25
				}
				out, _ := one.Step(pgproto.Cat(pgproto.Parse("s", q, declared...), pgproto.Describe('S', "s"), pgproto.Sync()))
				one.Stop()
				ms, err := pgproto.ParseBackend(out)
				if err != nil {
					res.Fail("describe-grammar", err.Error())
					return res
				}
				var t *pgproto.BMsg
				for i := range ms {
					if ms[i].Type == 't' {
						t = &ms[i]
					}
				}
				if t == nil {
					res.Fail("describe-missing", "no ParameterDescription in reply "+pgproto.Kinds(ms))
				} else if len(t.OIDs) != want {
					res.Fail("describe-count", fmt.Sprintf("ParseParameters reported %d placeholders, Describe announced %d", want, len(t.OIDs)))
				}
				return res
			}})
		}
	}
}
