package props

import (
	"context"
	"crypto/ecdsa"
	"crypto/elliptic"
	"crypto/rand"
	"crypto/tls"
	"crypto/x509"
	"crypto/x509/pkix"
	"encoding/binary"
	"fmt"
	"math/big"
	"net"
	"strings"
	"sync"
	"time"

	wire "github.com/jeroenrinzema/psql-wire"
	"verif/engine/explore"
	"verif/engine/harness"
	"verif/engine/memnet"
	"verif/engine/pgproto"
	"verif/engine/script"
)

// C11 — TLS upgrade: everything after 'S' is encrypted, nothing before it is trusted.

var (
	c11CertOnce sync.Once
	c11Cert     tls.Certificate
)

func c11Certificate() tls.Certificate {
	c11CertOnce.Do(func() {
		key, err := ecdsa.GenerateKey(elliptic.P256(), rand.Reader)
		if err != nil {
			panic(err)
		}
		tmpl := &x509.Certificate{SerialNumber: big.NewInt(1), Subject: pkix.Name{CommonName: "verif"},
			NotBefore: time.Unix(0, 0), NotAfter: time.Date(2099, 1, 1, 0, 0, 0, 0, time.UTC),
			KeyUsage: x509.KeyUsageDigitalSignature, ExtKeyUsage: []x509.ExtKeyUsage{x509.ExtKeyUsageServerAuth}, DNSNames: []string{"verif"}}
		der, err := x509.CreateCertificate(rand.Reader, tmpl, tmpl, &key.PublicKey, key)
		if err != nil {
			panic(err)
		}
		c11Cert = tls.Certificate{Certificate: [][]byte{der}, PrivateKey: key}
	})
	return c11Cert
}

// c11CertKind, when set, replaces the certificate of the "certs" configuration by one that is outside its validity
// period ("expired", "not-yet-valid") or by such a one followed by the regular one: certificates ARE configured, so the
// upgrade is offered and everything behind the 'S' is encrypted all the same (whether the client accepts such a
// certificate is the client's business).
var c11CertKind string

var c11OddCerts = map[string]tls.Certificate{}

func c11CertOf(kind string) []tls.Certificate {
	mk := func(from, to time.Time) tls.Certificate {
		k := fmt.Sprint(from.Unix(), to.Unix())
		if c, ok := c11OddCerts[k]; ok {
			return c
		}
		key, err := ecdsa.GenerateKey(elliptic.P256(), rand.Reader)
		if err != nil {
			panic(err)
		}
		tmpl := &x509.Certificate{SerialNumber: big.NewInt(2), Subject: pkix.Name{CommonName: "verif"}, NotBefore: from, NotAfter: to,
			KeyUsage: x509.KeyUsageDigitalSignature, ExtKeyUsage: []x509.ExtKeyUsage{x509.ExtKeyUsageServerAuth}, DNSNames: []string{"verif"}}
		der, err := x509.CreateCertificate(rand.Reader, tmpl, tmpl, &key.PublicKey, key)
		if err != nil {
			panic(err)
		}
		c := tls.Certificate{Certificate: [][]byte{der}, PrivateKey: key}
		if strings.HasSuffix(kind, "with-leaf") {
			c.Leaf, _ = x509.ParseCertificate(der)
		}
		c11OddCerts[k] = c
		return c
	}
	switch strings.TrimSuffix(kind, "-with-leaf") {
	case "expired":
		return []tls.Certificate{mk(time.Unix(0, 0), time.Date(2001, 1, 1, 0, 0, 0, 0, time.UTC))}
	case "not-yet-valid":
		return []tls.Certificate{mk(time.Date(2098, 1, 1, 0, 0, 0, 0, time.UTC), time.Date(2099, 1, 1, 0, 0, 0, 0, time.UTC))}
	case "expired-then-not-yet-valid":
		return []tls.Certificate{mk(time.Unix(0, 0), time.Date(2001, 1, 1, 0, 0, 0, 0, time.UTC)), mk(time.Date(2098, 1, 1, 0, 0, 0, 0, time.UTC), time.Date(2099, 1, 1, 0, 0, 0, 0, time.UTC))}
	}
	return []tls.Certificate{c11Certificate()}
}

type c11Letter struct {
	Name  string
	Bytes []byte
}

func c11Letters() []c11Letter {
	return []c11Letter{
		{"Query(ok)", pgproto.Query(progRows)},
		{"Query(err)", pgproto.Query("1:!boom")},
		{"Parse+Bind+Execute+Sync", pgproto.Cat(pgproto.Parse("", progRows), pgproto.Bind("", "", nil, nil, nil), pgproto.Execute("", 0), pgproto.Sync())},
		{"COPY-in", pgproto.Cat(pgproto.Query("1:copyt:drain"), pgproto.CopyData([]byte("a\n")), pgproto.CopyDone())},
		{"Oversized", oversizedMsg()},
		{"Terminate", pgproto.Terminate()},
	}
}

// stuffed plaintext that must never be interpreted
var c11Stuffed = pgproto.Cat(pgproto.Startup("user", "eve"), pgproto.Query("stuffed"))

func c11Server(rec *script.Rec, cfg string, limit ...int) (*harness.One, error) {
	var opts []wire.OptionFn
	if len(limit) > 0 && limit[0] != 0 {
		opts = append(opts, wire.MessageBufferSize(limit[0]))
	}
	if len(limit) > 1 && limit[1] != 0 {
		opts = append(opts, wire.SessionAuthStrategy(wire.ClearTextPassword(func(ctx context.Context, db, u, pw string) (context.Context, bool, error) {
			return ctx, pw == "good", nil
		})))
	}
	switch cfg {
	case "empty":
		opts = append(opts, wire.TLSConfig(&tls.Config{}))
	case "empty-slice":
		opts = append(opts, wire.TLSConfig(&tls.Config{Certificates: []tls.Certificate{}}))
	case "empty-slice-with-capacity":
		opts = append(opts, wire.TLSConfig(&tls.Config{Certificates: make([]tls.Certificate, 0, 4)}))
	case "certs":
		cfg := &tls.Config{Certificates: []tls.Certificate{c11Certificate()}}
		if c11CertKind != "" {
			cfg.Certificates = c11CertOf(c11CertKind)
		}
		if len(limit) > 2 {
			cfg.ClientAuth = tls.ClientAuthType(limit[2])
		}
		opts = append(opts, wire.TLSConfig(cfg))
	}
	rec.Extra = copyHandler
	if c11Local != nil {
		// the transport reports this local address (a unix-domain socket, a TCP address) instead of the in-memory one
		srv, err := harness.NewServer(rec.ParseFn(), opts...)
		if err != nil {
			return nil, err
		}
		mc := memnet.NewConn("mem:client1")
		mc.LocalOverride = c11Local
		rec.Conn = nil
		return &harness.One{Server: srv, Conn: srv.ConnectWith(mc)}, nil
	}
	one, err := harness.StartOne(rec.ParseFn(), opts...)
	if err == nil {
		rec.Conn = nil // the plaintext offsets are meaningless under TLS
	}
	return one, err
}

// c11Local, when set, is the local address the transport of the next c11Server connection reports.
var c11Local net.Addr

var c11Locals = map[string]net.Addr{
	"unix socket": &net.UnixAddr{Name: "/var/run/postgresql/.s.PGSQL.5432", Net: "unix"},
	"tcp6":        &net.TCPAddr{IP: net.ParseIP("::1"), Port: 5432},
	"tcp4":        &net.TCPAddr{IP: net.IPv4(127, 0, 0, 1), Port: 5432},
}

// checkTLSRecords verifies that b is a sequence of complete, well-formed TLS records.
func checkTLSRecords(b []byte) (int, string) {
	n := 0
	for len(b) > 0 {
		if len(b) < 5 {
			return n, fmt.Sprintf("truncated TLS record header % x", b)
		}
		typ, ver, l := b[0], binary.BigEndian.Uint16(b[1:3]), int(binary.BigEndian.Uint16(b[3:5]))
		if typ < 20 || typ > 23 {
			return n, fmt.Sprintf("byte 0x%02x (%q) is not a TLS record type; following bytes % x", typ, typ, b[:min(len(b), 16)])
		}
		if ver < 0x0301 || ver > 0x0304 {
			return n, fmt.Sprintf("TLS record version 0x%04x", ver)
		}
		if l > 16640 || len(b) < 5+l {
			return n, fmt.Sprintf("TLS record length %d (have %d)", l, len(b)-5)
		}
		b = b[5+l:]
		n++
	}
	return n, ""
}

type c11Case struct {
	Cfg    string // nil | empty | certs
	Behave string
	Hist   []c11Letter
	Limit  int // configured message size limit (0 = harness default of 8 KiB)
	// Auth: "" = none; "good" / "bad": cleartext password authentication, the client sends that password
	Auth string
	// FailedBefore: number of connections on the same server that answered 'S' with plaintext (a failed handshake)
	// and went away, before this connection arrives
	FailedBefore int
	// ClientAuth: the server's tls.Config.ClientAuth (0 = NoClientCert, 1 = RequestClientCert, 2 = RequireAnyClientCert);
	// ClientCert: the client presents a (self-signed, unverified) certificate
	ClientAuth tls.ClientAuthType
	ClientCert bool
	// Pipelined: the start-up packet (the password) and the whole session are sent in ONE write, without waiting
	// for any answer
	Pipelined bool
	// CloseDuring: Server.Close is called (by another goroutine) while a statement of the session is half-way
	// through its rows (at its yield point); the statement goes on once Close is waiting for it
	CloseDuring bool
	// Local: the kind of local address the transport reports ("" = in-memory); see c11Locals
	Local string
	// StartupName / StartupBytes: a start-up packet other than the ordinary one (malformed ones, old protocol
	// versions): whatever the server answers travels inside the TLS session, exactly as it travels in plaintext
	StartupName  string
	StartupBytes []byte
}

func (c c11Case) startup() []byte {
	if c.StartupBytes != nil {
		return c.StartupBytes
	}
	return pgproto.Startup("user", "alice")
}

// c11OddStartups: start-up packets the server turns away (or answers in its own way).
func c11OddStartups() map[string][]byte {
	ver := pgproto.Be32(pgproto.Version30)
	return map[string][]byte{
		"a parameter name without terminator": pgproto.Untyped(pgproto.Cat(ver, []byte("user\x00alice\x00database"))),
		"a parameter without value":           pgproto.Untyped(pgproto.Cat(ver, []byte("user\x00alice\x00x\x00"))),
		"no terminator of the list":           pgproto.Untyped(pgproto.Cat(ver, []byte("user\x00alice\x00"))),
		"protocol version 2.0":                pgproto.Untyped(pgproto.Cat(pgproto.Be32(2<<16), []byte("user\x00alice\x00\x00"))),
		"protocol version 2.1":                pgproto.Untyped(pgproto.Cat(pgproto.Be32(2<<16|1), []byte("user\x00alice\x00\x00"))),
		"protocol version 1.0":                pgproto.Untyped(pgproto.Cat(pgproto.Be32(1<<16), []byte("alice\x00"))),
		"protocol version 4.0":                pgproto.Untyped(pgproto.Cat(pgproto.Be32(4<<16), []byte("user\x00alice\x00\x00"))),
		"protocol version 3.2":                pgproto.Untyped(pgproto.Cat(pgproto.Be32(3<<16|2), []byte("user\x00alice\x00\x00"))),
	}
}

// c11CloseHook arms the recorder: at the first yield point of a statement Server.Close is called concurrently.
func c11CloseHook(rec *script.Rec, srv *harness.Server) {
	fired := false
	rec.Hook = func(ctx context.Context, where string) {
		if where == "yield" && !fired {
			fired = true
			harness.CloseWhileBusy(srv.Srv)
		}
	}
}

func (c c11Case) String() string {
	var names []string
	for _, l := range c.Hist {
		names = append(names, l.Name)
	}
	if c.Pipelined {
		return fmt.Sprintf("tls=%s auth=%s client=%s session=%v sent in one write together with the start-up packet", c.Cfg, c.Auth, c.Behave, names)
	}
	if c.StartupName != "" {
		return fmt.Sprintf("tls=%s auth=%s client=%s start-up packet: %s, then session=%v", c.Cfg, c.Auth, c.Behave, c.StartupName, names)
	}
	if c.Local != "" {
		return fmt.Sprintf("tls=%s auth=%s client=%s session=%v, the connection arrived over a %s (local address %v)", c.Cfg, c.Auth, c.Behave, names, c.Local, c11Locals[c.Local])
	}
	if c.CloseDuring {
		return fmt.Sprintf("tls=%s auth=%s client=%s session=%v, Server.Close is called while the statement is half-way through its rows", c.Cfg, c.Auth, c.Behave, names)
	}
	if c.ClientAuth != 0 || c.ClientCert {
		return fmt.Sprintf("tls=%s server_client_auth=%v client_presents_certificate=%v auth=%s-password client=%s session=%v", c.Cfg, c.ClientAuth, c.ClientCert, c.Auth, c.Behave, names)
	}
	if c.Auth != "" || c.FailedBefore > 0 {
		return fmt.Sprintf("tls=%s auth=%s-password earlier_failed_handshakes=%d client=%s session=%v", c.Cfg, c.Auth, c.FailedBefore, c.Behave, names)
	}
	if c.Limit != 0 {
		return fmt.Sprintf("tls=%s limit=%d client=%s session=%v", c.Cfg, c.Limit, c.Behave, names)
	}
	return fmt.Sprintf("tls=%s client=%s session=%v", c.Cfg, c.Behave, names)
}

// c11Flight is the whole client side of a pipelined session as one byte string.
func c11Flight(c c11Case) []byte {
	b := c.startup()
	if c.Auth != "" {
		b = append(b, pgproto.Password(c.Auth)...)
	}
	for _, l := range c.Hist {
		b = append(b, l.Bytes...)
	}
	return b
}

// plainTranscript serves the history on a plaintext connection of an identically configured server.
func c11Plain(c c11Case) ([]string, []string, string) {
	rec := &script.Rec{}
	one, err := c11Server(rec, c.Cfg, c.Limit, len(c.Auth), int(c.ClientAuth))
	if err != nil {
		return nil, nil, err.Error()
	}
	defer one.Stop()
	if c.CloseDuring {
		c11CloseHook(rec, one.Server)
	}
	var all []byte
	if c.Pipelined {
		out, _ := one.Step(c11Flight(c))
		t, _ := harness.CanonTranscript(out)
		return t, cbSummary(rec.Evs), ""
	}
	out, stp := one.Step(c.startup())
	all = append(all, out...)
	if c.Auth != "" && stp == memnet.Parked {
		out, stp = one.Step(pgproto.Password(c.Auth))
		all = append(all, out...)
	}
	for _, l := range c.Hist {
		if stp != memnet.Parked {
			break
		}
		out, st := one.Step(l.Bytes)
		all = append(all, out...)
		if st != memnet.Parked {
			break
		}
	}
	t, _ := harness.CanonTranscript(all)
	return t, cbSummary(rec.Evs), ""
}

var c11Last *harness.Server

// c11Run: a connection the watchdog gave up on leaves a goroutine of the library behind (and every later wait
// on this process would take a watchdog period): the worker retires after such a case.
func c11Run(c c11Case) explore.Result {
	c11Local = c11Locals[c.Local]
	defer func() { c11Local = nil }()
	c11Last = nil
	res := c11RunInner(c)
	if c11Last != nil && c11Last.AnyWedged() {
		res.Poison = true
		if len(res.Violations) == 0 && res.Engine == "" {
			blocked, dump := harness.LibraryBlocked()
			if blocked {
				res.Fail("wedged", fmt.Sprintf("%s: a connection's goroutine is blocked inside the library although its client is waiting for it:\n%s", c, dump))
			} else {
				res.Engine = "watchdog expired but no blocked library goroutine found:\n" + dump
			}
		}
	}
	return res
}

func c11RunInner(c c11Case) explore.Result {
	var res explore.Result
	res.Key = c.String()
	rec := &script.Rec{}
	one, err := c11Server(rec, c.Cfg, c.Limit, len(c.Auth), int(c.ClientAuth))
	if err != nil {
		res.Engine = err.Error()
		return res
	}
	c11Last = one.Server
	if c.CloseDuring {
		c11CloseHook(rec, one.Server)
	}
	defer func() {
		if !one.Server.AnyWedged() {
			one.Stop() // (Close would wait for a wedged command for ever)
		}
	}()
	for i := 0; i < c.FailedBefore; i++ {
		// an earlier client: SSLRequest, then plaintext instead of a ClientHello, then it goes away
		ec := one.Server.Connect()
		if out, _ := ec.Step(pgproto.SSLRequest()); string(out) != "S" {
			res.Engine = fmt.Sprintf("earlier connection %d: SSLRequest answered % x", i, out)
			return res
		}
		if _, st := ec.Step(pgproto.Startup("user", "eve")); st == memnet.Wedged {
			blocked, dump := harness.LibraryBlocked()
			if !blocked {
				res.Engine = "watchdog expired but no blocked library goroutine found:\n" + dump
				return res
			}
			res.Fail("wedged", fmt.Sprintf("%s: earlier connection %d sent plaintext instead of a handshake; the server neither reads it nor closes, its goroutine is blocked:\n%s", c, i, dump))
			return res
		}
		if _, st := ec.End(); st != memnet.Closed {
			res.Fail("failed-handshake-not-closed", fmt.Sprintf("%s: earlier connection %d (plaintext instead of a handshake, then EOF) is %s", c, i, st))
			return res
		}
	}
	mc := one.C
	certs := c.Cfg == "certs"
	res.Trans = []string{fmt.Sprintf("start/%s|%s|done", c.Cfg, c.Behave)}
	noCallback := func(where string) {
		if cb := cbSummary(rec.Evs); len(cb) > 0 {
			res.Fail("callback-from-untrusted-bytes", fmt.Sprintf("%s %s: callbacks %v", c, where, cb))
		}
	}
	switch c.Behave {
	case "plain-startup":
		// no SSLRequest at all: an ordinary plaintext session
		res.Outcome = "plaintext"
		want, wantCB, eng := c11Plain(c)
		if eng != "" {
			res.Engine = eng
		}
		_ = want
		_ = wantCB
		return res
	}
	if c.Behave == "gss-then-ssl" {
		// a client that tries GSSAPI encryption first (libpq, gssencmode=prefer): the server may hang up or decline
		// with 'N'; if it declines, the SSLRequest that follows is answered as if it had come first
		out, st := one.Step(pgproto.Untyped([]byte{0x04, 0xd2, 0x16, 0x30}))
		res.Outcome = "refused"
		if st == memnet.Closed {
			if len(out) != 0 {
				res.Fail("gss-refusal", fmt.Sprintf("%s: GSSENCRequest answered % x before the connection was closed", c, out))
			}
			return res
		}
		if string(out) != "N" {
			res.Fail("gss-refusal", fmt.Sprintf("%s: GSSENCRequest answered % x (expected the single byte N or a closed connection)", c, out))
			return res
		}
	}
	// every other behaviour starts with an SSLRequest
	first := pgproto.SSLRequest()
	switch c.Behave {
	case "ssl+stuffed":
		first = pgproto.Cat(pgproto.SSLRequest(), c11Stuffed)
	case "ssl-surplus-body":
		first = pgproto.Untyped(pgproto.Cat(pgproto.Be32(pgproto.SSLCode), []byte("surplus")))
	}
	out, st := one.Step(first)
	if !certs {
		res.Outcome = "refused"
		if c.Behave == "ssl+stuffed" && string(out) == "N" {
			res.Fail("pipelined-plaintext-dropped", fmt.Sprintf("%s: the startup packet and query that arrived in the same segment as the refused SSLRequest were never answered (the connection must continue in plaintext with them)", c))
			return res
		}
		if string(out) != "N" {
			if c.Behave == "ssl+stuffed" && len(out) > 0 && out[0] == 'N' {
				// without TLS the connection legitimately continues in plaintext: the stuffed bytes are an ordinary
				// pipelined startup + query and must be served exactly as if no SSLRequest had preceded them
				res.Outcome = "refused-pipelined"
				ref := &script.Rec{}
				r1, err := c11Server(ref, c.Cfg, c.Limit, len(c.Auth), int(c.ClientAuth))
				if err != nil {
					res.Engine = err.Error()
					return res
				}
				defer r1.Stop()
				want, _ := r1.Step(c11Stuffed)
				got, _ := harness.CanonTranscript(out[1:])
				wantT, _ := harness.CanonTranscript(want)
				if !sameStrings(got, wantT) || !sameStrings(cbSummary(rec.Evs), cbSummary(ref.Evs)) {
					res.Fail("plaintext-after-refusal-differs", fmt.Sprintf("%s: SSLRequest + startup + query in one segment: after N the server answered\n  %v (callbacks %v)\nbut the same bytes without the SSLRequest give\n  %v (callbacks %v)", c, got, cbSummary(rec.Evs), wantT, cbSummary(ref.Evs)))
				}
				return res
			}
			res.Fail("ssl-refusal", fmt.Sprintf("%s: SSLRequest without certificates answered % x, expected the single byte N", c, out))
			return res
		}
		if st != memnet.Parked {
			res.Fail("ssl-refusal", fmt.Sprintf("%s: connection %s after N", c, st))
			return res
		}
		switch c.Behave {
		case "cancel-after":
			out, st = one.Step(pgproto.CancelRequest(1, 2))
			if len(out) != 0 || st != memnet.Closed {
				res.Fail("cancel-after-refusal", fmt.Sprintf("%s: CancelRequest after N answered % x, connection %s", c, out, st))
			}
			noCallback("cancel after N")
			return res
		case "second-ssl":
			out, _ = one.Step(pgproto.SSLRequest())
			if ms, err := pgproto.ParseBackend(out); err != nil && string(out) != "N" {
				res.Fail("second-ssl-reply", fmt.Sprintf("%s: second SSLRequest answered % x", c, out))
			} else {
				_ = ms
			}
			noCallback("second SSLRequest")
			return res
		case "plaintext-instead":
			// after N plaintext is exactly what is expected
		}
		// the same connection continues in plaintext with a fresh startup packet
		var all []byte
		out, stp := one.Step(c.startup())
		all = append(all, out...)
		if c.Auth != "" && stp == memnet.Parked {
			out, stp = one.Step(pgproto.Password(c.Auth))
			all = append(all, out...)
		}
		for _, l := range c.Hist {
			if stp != memnet.Parked {
				break
			}
			out, st := one.Step(l.Bytes)
			all = append(all, out...)
			if st != memnet.Parked {
				break
			}
		}
		got, _ := harness.CanonTranscript(all)
		want, wantCB, eng := c11Plain(c)
		if eng != "" {
			res.Engine = eng
			return res
		}
		if !sameStrings(got, want) || !sameStrings(cbSummary(rec.Evs), wantCB) {
			res.Fail("plaintext-after-refusal-differs", fmt.Sprintf("%s: after N the session gave\n  %v\n  %v\nbut a plain connection gives\n  %v\n  %v", c, got, cbSummary(rec.Evs), want, wantCB))
		}
		return res
	}
	// certificates configured: the answer is the single byte S
	res.Outcome = "upgraded"
	if len(out) < 1 || out[0] != 'S' {
		res.Fail("ssl-accept", fmt.Sprintf("%s: SSLRequest answered % x, expected the single byte S", c, out[:min(len(out), 8)]))
		return res
	}
	rawFromServer := func() []byte { return mc.Output()[1:] }
	if c.Behave == "plaintext-instead" {
		res.Outcome = "plaintext-instead-of-handshake"
		one.Step(pgproto.Cat(pgproto.Startup("user", "eve"), pgproto.Query("stuffed")))
		one.End()
		if _, bad := checkTLSRecords(rawFromServer()); bad != "" {
			res.Fail("plaintext-after-S", fmt.Sprintf("%s: after answering S the server sent bytes outside of the TLS session: %s", c, bad))
		}
		noCallback("plaintext instead of a handshake")
		return res
	}
	ce := memnet.NewClientEnd(mc)
	ccfg := &tls.Config{InsecureSkipVerify: true, ServerName: "verif"}
	if c.ClientCert {
		ccfg.Certificates = []tls.Certificate{c11Certificate()}
	}
	tc := tls.Client(ce, ccfg)
	hs := make(chan error, 1)
	go func() { hs <- tc.Handshake() }()
	select {
	case err := <-hs:
		if err != nil {
			res.Fail("handshake-failed", fmt.Sprintf("%s: TLS handshake failed: %v", c, err))
			return res
		}
	case <-time.After(memnet.Watchdog):
		// (the watchdog only counts when a stack dump shows a library goroutine blocked outside a transport read)
		blocked, dump := harness.LibraryBlocked()
		ce.Close()
		if !blocked {
			res.Engine = "TLS handshake did not complete but no blocked library goroutine was found:\n" + dump
			return res
		}
		res.Poison = true
		res.Fail("handshake-stalled", fmt.Sprintf("%s: the server answered S but never answers the ClientHello; its goroutine is blocked:\n%s", c, dump))
		return res
	}
	var mu sync.Mutex
	var plain []byte
	done := make(chan struct{})
	go func() {
		defer close(done)
		buf := make([]byte, 1<<16)
		for {
			n, err := tc.Read(buf)
			mu.Lock()
			plain = append(plain, buf[:n]...)
			mu.Unlock()
			if err != nil {
				return
			}
		}
	}()
	step := func(b []byte) memnet.Status {
		if _, err := tc.Write(b); err != nil {
			return memnet.Closed
		}
		st := mc.Await()
		if st == memnet.Closed {
			harness.Settle()
		}
		ce.AwaitDrained()
		return st
	}
	var st2 memnet.Status
	switch c.Behave {
	case "cancel-after":
		res.Outcome = "cancel-inside-tls"
		st2 = step(pgproto.CancelRequest(1, 2))
		if st2 == memnet.Closed {
			<-done
		}
		mu.Lock()
		got := append([]byte(nil), plain...)
		mu.Unlock()
		if len(got) != 0 || st2 != memnet.Closed {
			res.Fail("cancel-after-upgrade", fmt.Sprintf("%s: CancelRequest inside TLS answered % x, connection %s", c, got, st2))
		}
		noCallback("cancel after upgrade")
	case "second-ssl":
		res.Outcome = "second-ssl-inside-tls"
		st2 = step(pgproto.SSLRequest())
		noCallback("second SSLRequest inside TLS")
	default:
		if c.Pipelined {
			st2 = step(c11Flight(c))
		} else {
			st2 = step(c.startup())
			if c.Auth != "" && st2 == memnet.Parked {
				st2 = step(pgproto.Password(c.Auth))
			}
		}
		for _, l := range c.Hist {
			if c.Pipelined {
				break
			}
			if st2 != memnet.Parked {
				break
			}
			st2 = step(l.Bytes)
		}
		// a plaintext connection never has a transport deadline armed while it waits for the client;
		// one left armed after the upgrade makes the TLS session die later on its own
		if rd, wd := mc.Deadlines(); st2 == memnet.Parked && (!rd.IsZero() || !wd.IsZero()) {
			res.Fail("deadline-left-armed", fmt.Sprintf("%s: the upgraded connection is idle with a transport deadline still armed (read %v, write %v); the plaintext equivalent has none", c, rd, wd))
		}
		if st2 == memnet.Closed {
			<-done // the server closed the connection: the reader sees EOF once it has decrypted everything
		}
		mu.Lock()
		got, _ := harness.CanonTranscript(append([]byte(nil), plain...))
		mu.Unlock()
		want, wantCB, eng := c11Plain(c)
		if eng != "" {
			res.Engine = eng
			return res
		}
		if !sameStrings(got, want) {
			res.Fail("tls-session-differs", fmt.Sprintf("%s: decrypted transcript\n  %v\nplaintext equivalent\n  %v", c, got, want))
		}
		if cb := cbSummary(rec.Evs); !sameStrings(cb, wantCB) {
			res.Fail("tls-session-callbacks-differ", fmt.Sprintf("%s: callbacks %v, plaintext equivalent %v", c, cb, wantCB))
		}
		for _, e := range rec.Evs {
			if strings.Contains(e.Query, "stuffed") {
				res.Fail("stuffed-plaintext-interpreted", fmt.Sprintf("%s: plaintext pushed ahead of the handshake reached a callback: %s", c, e.String()))
			}
		}
	}
	ce.Close()
	one.C.AwaitClose()
	harness.Settle()
	<-done
	// the raw tap: exactly S, then only TLS records
	n, bad := checkTLSRecords(rawFromServer())
	if bad != "" {
		res.Fail("plaintext-after-S", fmt.Sprintf("%s: raw server bytes after S are not all TLS records (%d good records): %s", c, n, bad))
	}
	return res
}

func init() {
	explore.Register(&explore.Check{
		ID:               "C11",
		Level:            "exploration",
		Technique:        "exhaustive enumeration of (server TLS configuration x client behaviour around the SSLRequest x session history) with a real crypto/tls client over a tapped in-memory transport; raw bytes judged structurally (TLS record framing), decrypted stream differentially against the plaintext equivalent",
		Rule:             "TLS configuration {none, empty config, empty non-nil certificate slice (with / without capacity), with certificate} x client behaviour {SSLRequest then handshake, SSLRequest with startup+Query stuffed into the same segment, SSLRequest with surplus body, plaintext instead of a handshake, second SSLRequest, CancelRequest after the negotiation} x all session histories of length <= 2 over {Query ok, Query error, Parse+Bind+Execute+Sync, COPY-in, oversized, Terminate}; cleartext authentication (accepted / rejected) over the upgraded connection; whole sessions of <= 2 letters sent in one write together with the start-up packet; servers requesting / requiring a client certificate x clients presenting an unverified one x authentication none / accepted / rejected; a session arriving after 1..40 earlier clients failed their handshakes on the same server; configured limits {1 KiB, 16 KiB, 64 KiB} x Query / Bind messages with bodies of L-1, L, L+1, 2L, 16383, 16384, 16385, 20000, 70000 bytes over TLS against the plaintext equivalent; non-trivial = cases that negotiate (refused or upgraded)",
		Assumptions:      []string{"cryptographic strength is not judged: only record framing on the wire and the decrypted plaintext", "behaviour of a repeated SSLRequest is only required to leak nothing and to run no callback", "crypto/tls client and server goroutines run freely; the verdict depends on byte structure and transcripts only"},
		Enumerate:        c11Enumerate,
		Bounds:           func(tier string) map[string]any { return map[string]any{"session_depth": c11Depth(tier)} },
		RequiredOutcomes: []string{"upgraded", "refused", "plaintext-instead-of-handshake", "cancel-inside-tls"},
		// schedule part: two servers of one process (one with, one without certificates) answering an SSLRequest at
		// the same time: all schedules with <= 2 preemptions (thorough: all), race monitor on
		After: explore.MergeSched("C11", true),
	})
}

func c11Depth(tier string) int {
	if tier == "thorough" {
		return 3
	}
	return 2
}

func c11Enumerate(tier string, emit explore.Emit) {
	letters := c11Letters()
	for _, cfg := range []string{"nil", "empty", "empty-slice", "empty-slice-with-capacity", "certs"} {
		for _, b := range []string{"ssl-handshake", "ssl+stuffed", "ssl-surplus-body"} {
			cfg, b := cfg, b
			forShapes(len(letters), c11Depth(tier), func(sh []int) {
				hist := make([]c11Letter, len(sh))
				for i, s := range sh {
					hist[i] = letters[s]
				}
				c := c11Case{Cfg: cfg, Behave: b, Hist: hist}
				emit(explore.Case{Family: "tls", Size: len(hist), Desc: func() any { return c.String() }, Run: func() explore.Result { return c11Run(c) }})
			})
		}
		for _, b := range []string{"plaintext-instead", "second-ssl", "cancel-after"} {
			c := c11Case{Cfg: cfg, Behave: b, Hist: []c11Letter{letters[0]}}
			emit(explore.Case{Family: "tls", Size: 1, Desc: func() any { return c.String() }, Run: func() explore.Result { return c11Run(c) }})
		}
	}
	// certificates outside their validity period are configured certificates
	for _, kind := range []string{"expired", "not-yet-valid", "expired-then-not-yet-valid", "expired-with-leaf", "not-yet-valid-with-leaf"} {
		for _, b := range []string{"ssl-handshake", "ssl+stuffed", "ssl-surplus-body", "plaintext-instead", "second-ssl", "cancel-after"} {
			for _, auth := range []string{"", "good", "bad"} {
				if auth != "" && b != "ssl-handshake" {
					continue
				}
				kind := kind
				c := c11Case{Cfg: "certs", Behave: b, Hist: []c11Letter{letters[0]}, Auth: auth}
				emit(explore.Case{Family: "tls", Size: 2,
					Desc: func() any { return map[string]any{"case": c.String(), "configured_certificates": kind} },
					Run: func() explore.Result {
						c11CertKind = kind
						defer func() { c11CertKind = "" }()
						r := c11Run(c)
						r.Key = kind + "/" + r.Key
						return r
					}})
			}
		}
	}
	// start-up packets the server turns away, over TLS, after a refused SSLRequest and in plaintext
	for name, b := range c11OddStartups() {
		for _, cfg := range []string{"certs", "nil"} {
			c := c11Case{Cfg: cfg, Behave: "session", StartupName: name, StartupBytes: b, Hist: []c11Letter{letters[0]}}
			emit(explore.Case{Family: "tls", Size: 2, Desc: func() any { return c.String() }, Run: func() explore.Result { return c11Run(c) }})
		}
	}
	// the kind of listener does not matter: with certificates an SSLRequest is answered S over a unix-domain socket too
	for _, cfg := range []string{"certs", "nil"} {
		for _, local := range []string{"unix socket", "tcp6", "tcp4"} {
			for _, auth := range []string{"", "good"} {
				c := c11Case{Cfg: cfg, Behave: "session", Auth: auth, Local: local, Hist: []c11Letter{letters[0]}}
				emit(explore.Case{Family: "tls", Size: 2, Desc: func() any { return c.String() }, Run: func() explore.Result { return c11Run(c) }})
			}
		}
	}
	// Server.Close while a statement of the (upgraded / refused / plaintext) session is half-way through its rows
	for _, cfg := range []string{"certs", "nil", "empty"} {
		for _, auth := range []string{"", "good"} {
			for _, q := range []c11Letter{{"Query(row, yield, row)", pgproto.Query("1:r,y,r,c=T")},
				{"Parse+Bind+Execute+Sync(row, yield, row)", pgproto.Cat(pgproto.Parse("", "1:r,y,r,c=T"), pgproto.Bind("", "", nil, nil, nil), pgproto.Execute("", 0), pgproto.Sync())}} {
				c := c11Case{Cfg: cfg, Behave: "session", Auth: auth, CloseDuring: true, Hist: []c11Letter{q}}
				emit(explore.Case{Family: "tls", Size: 3, Desc: func() any { return c.String() }, Run: func() explore.Result { return c11Run(c) }})
			}
		}
	}
	// authentication over the upgraded connection (accepted and rejected), and sessions that arrive after
	// earlier clients failed their handshakes
	for _, cfg := range []string{"certs", "nil"} {
		for _, auth := range []string{"good", "bad"} {
			for _, hist := range [][]c11Letter{nil, {letters[0]}, {letters[0], letters[5]}} {
				c := c11Case{Cfg: cfg, Behave: "ssl-handshake", Hist: hist, Auth: auth}
				emit(explore.Case{Family: "tls-auth", Size: 2 + len(hist), Desc: func() any { return c.String() }, Run: func() explore.Result { return c11Run(c) }})
			}
		}
	}
	// the whole session in one write behind the start-up packet
	for _, auth := range []string{"", "good", "bad"} {
		forShapes(len(letters), 2, func(sh []int) {
			if len(sh) == 0 {
				return
			}
			hist := make([]c11Letter, len(sh))
			for i, s := range sh {
				hist[i] = letters[s]
			}
			c := c11Case{Cfg: "certs", Behave: "ssl-handshake", Hist: hist, Auth: auth, Pipelined: true}
			emit(explore.Case{Family: "tls-pipelined", Size: 3 + len(hist), Desc: func() any { return c.String() }, Run: func() explore.Result { return c11Run(c) }})
		})
	}
	for _, cfg := range []string{"nil", "empty", "certs"} {
		c := c11Case{Cfg: cfg, Behave: "gss-then-ssl", Hist: []c11Letter{letters[0]}}
		emit(explore.Case{Family: "tls", Size: 2, Desc: func() any { return c.String() }, Run: func() explore.Result { return c11Run(c) }})
	}
	for _, auth := range []bool{false, true} {
		auth := auth
		emit(explore.Case{Family: "tls", Size: 2, Desc: func() any {
			return map[string]any{"tls": "certs", "server_closed_before_the_ssl_request": true, "auth": auth}
		},
			Run: func() explore.Result { return c11RunAfterClose(auth) }})
	}
	for _, junk := range [][]byte{{0}, []byte("junk!"), {0x16, 0x03, 0x01, 0x00, 0x02, 0x01, 0x00}, {0x15, 0x03, 0x03, 0x00, 0x02, 0x02, 0x28}, []byte("GET / HTTP/1.0\r\n\r\n")} {
		for _, stuffed := range []bool{false, true} {
			junk, stuffed := junk, stuffed
			emit(explore.Case{Family: "tls", Size: 3, Desc: func() any {
				return map[string]any{"tls": "certs", "after_S_the_client_sends": fmt.Sprintf("% x", junk), "then": "plaintext start-up + Query", "start-up stuffed behind the SSLRequest too": stuffed}
			},
				Run: func() explore.Result { return c11RunJunk(junk, stuffed) }})
		}
	}
	// certificates that arrive later: the application holds the *tls.Config it handed over and adds the
	// certificate to it once it has been issued; from then on SSLRequests are answered S
	for _, before := range []int{0, 1, 3} {
		before := before
		emit(explore.Case{Family: "certificates-added-later", Size: 3 + before,
			Desc: func() any { return map[string]any{"ssl_requests_before_the_certificate_exists": before} },
			Run:  func() explore.Result { return c11RunLateCerts(before) }})
	}
	for _, c := range c11ClientCertCases() {
		c := c
		emit(explore.Case{Family: "tls-client-certificate", Size: 4, Desc: func() any { return c.String() }, Run: func() explore.Result { return c11Run(c) }})
	}
	for _, n := range []int{1, 2, 7, 8, 9, 16, 17, 40} {
		c := c11Case{Cfg: "certs", Behave: "ssl-handshake", Hist: []c11Letter{letters[0]}, FailedBefore: n}
		emit(explore.Case{Family: "after-failed-handshakes", Size: 3 + n, Desc: func() any { return c.String() }, Run: func() explore.Result { return c11Run(c) }})
	}
	limits := []int{1024, 16384, 65536}
	if tier == "thorough" {
		limits = []int{200, 1024, 4096, 16383, 16384, 16385, 32768, 65536, 1 << 20}
	}
	for _, c := range c11SizedCases(limits) {
		c := c
		emit(explore.Case{Family: "tls-limit", Size: 3, Desc: func() any { return c.String() }, Run: func() explore.Result { return c11Run(c) }})
	}
}

// c11RunAfterClose: the connection was accepted, then Server.Close was called (it only stops the accept loop and waits
// for running commands), then the client sends its SSLRequest: with certificates the answer is S (or the
// connection is closed) - never N followed by a plaintext session.
func c11RunAfterClose(auth bool) explore.Result {
	var res explore.Result
	res.Outcome = "upgraded"
	res.Key = fmt.Sprint("after-close", auth)
	rec := &script.Rec{Extra: copyHandler}
	one, err := c11Server(rec, "certs", 0, map[bool]int{false: 0, true: 1}[auth])
	if err != nil {
		res.Engine = err.Error()
		return res
	}
	if st := one.C.Await(); st != memnet.Parked { // the connection has been accepted and waits for its first packet
		res.Engine = fmt.Sprintf("connection is %s before anything was sent", st)
		return res
	}
	one.Server.Srv.Close()
	out, st := one.Step(pgproto.SSLRequest())
	switch {
	case len(out) == 0 && st == memnet.Closed:
	case string(out) == "S":
	default:
		res.Fail("ssl-accept", fmt.Sprintf("certificates configured, connection accepted before Close, SSLRequest sent after it: answered % x (connection %s); expected S or a closed connection", out, st))
	}
	one.C.EOF()
	one.C.AwaitClose()
	res.Trans = []string{"closing|SSLRequest|S or closed"}
	return res
}

// c11RunJunk: after S the client sends bytes that are no TLS handshake and stays connected, then a plaintext
// start-up packet and a query: nothing is answered in plaintext, nothing reaches a callback.
func c11RunJunk(junk []byte, stuffed bool) explore.Result {
	var res explore.Result
	res.Outcome = "plaintext-instead-of-handshake"
	res.Key = fmt.Sprint("junk", junk, stuffed)
	rec := &script.Rec{Extra: copyHandler}
	one, err := c11Server(rec, "certs")
	if err != nil {
		res.Engine = err.Error()
		return res
	}
	defer func() {
		if !one.Server.AnyWedged() {
			one.Stop()
		}
	}()
	first := pgproto.SSLRequest()
	if stuffed {
		first = pgproto.Cat(first, c11Stuffed)
	}
	out, _ := one.Step(first)
	if len(out) < 1 || out[0] != 'S' {
		res.Fail("ssl-accept", fmt.Sprintf("SSLRequest answered % x", out))
		return res
	}
	one.Step(junk)
	one.Step(pgproto.Cat(pgproto.Startup("user", "eve"), pgproto.Query("stuffed")))
	one.End()
	raw := one.C.Output()[1:]
	if _, bad := checkTLSRecords(raw); bad != "" {
		res.Fail("plaintext-after-S", fmt.Sprintf("after S the client sent % x (no TLS handshake) and then a plaintext start-up packet: the server sent bytes outside of a TLS session: %s", junk, bad))
	}
	if cb := cbSummary(rec.Evs); len(cb) > 0 {
		res.Fail("callback-from-untrusted-bytes", fmt.Sprintf("junk % x then plaintext: callbacks %v", junk, cb))
	}
	res.Trans = []string{"S|junk + plaintext|closed"}
	return res
}

func c11RunLateCerts(before int) explore.Result {
	var res explore.Result
	res.Outcome = "upgraded"
	res.Key = fmt.Sprint("late-certs", before)
	cfg := &tls.Config{}
	rec := &script.Rec{Extra: copyHandler}
	srv, err := harness.NewServer(rec.ParseFn(), wire.TLSConfig(cfg))
	if err != nil {
		res.Engine = err.Error()
		return res
	}
	defer srv.Stop()
	for i := 0; i < before; i++ {
		c := srv.Connect()
		if out, _ := c.Step(pgproto.SSLRequest()); string(out) != "N" {
			res.Fail("ssl-refusal", fmt.Sprintf("SSLRequest %d without certificates answered % x", i+1, out))
			return res
		}
		c.End()
	}
	cfg.Certificates = []tls.Certificate{c11Certificate()}
	c := srv.Connect()
	out, _ := c.Step(pgproto.SSLRequest())
	if string(out) != "S" {
		res.Fail("ssl-accept", fmt.Sprintf("a certificate was added to the configured tls.Config after %d SSLRequests had been declined; the next SSLRequest was answered % x, expected S", before, out))
		return res
	}
	ce := memnet.NewClientEnd(c.C)
	tc := tls.Client(ce, &tls.Config{InsecureSkipVerify: true, ServerName: "verif"})
	hs := make(chan error, 1)
	go func() { hs <- tc.Handshake() }()
	select {
	case err := <-hs:
		if err != nil {
			res.Fail("handshake-failed", fmt.Sprintf("certificate added after %d declined requests: TLS handshake failed: %v", before, err))
		}
	case <-time.After(memnet.Watchdog):
		res.Poison = true
		res.Fail("handshake-stalled", "the server answered S but never completes the handshake")
	}
	ce.Close()
	res.Trans = []string{"no-certs|certificate added|upgraded"}
	return res
}

// c11ClientCertCases: whatever the server's TLS configuration asks of the client's certificate and whatever the
// client presents, the session inside the tunnel (authentication included) is the plaintext session.
func c11ClientCertCases() []c11Case {
	var out []c11Case
	ok, term := c11Letters()[0], c11Letters()[5]
	for _, ca := range []tls.ClientAuthType{tls.NoClientCert, tls.RequestClientCert, tls.RequireAnyClientCert} {
		for _, cert := range []bool{false, true} {
			if ca == tls.RequireAnyClientCert && !cert {
				continue // the handshake itself fails: nothing to compare
			}
			if ca == tls.NoClientCert && !cert {
				continue // the ordinary case
			}
			for _, auth := range []string{"", "good", "bad"} {
				for _, hist := range [][]c11Letter{{ok}, {ok, term}} {
					out = append(out, c11Case{Cfg: "certs", Behave: "ssl-handshake", Hist: hist, Auth: auth, ClientAuth: ca, ClientCert: cert})
				}
			}
		}
	}
	return out
}

// c11SizedCases: the configured message size limit applies to the upgraded connection exactly as to a plaintext
// one: limits around the TLS record size (16 KiB) x messages just below / above the limit and the record size.
func c11SizedCases(limits []int) []c11Case {
	var out []c11Case
	ok := c11Letters()[0]
	for _, l := range limits {
		seen := map[int]bool{}
		for _, body := range []int{l - 1, l, l + 1, 2 * l, 16383, 16384, 16385, 20000, 70000} {
			if body < 64 || seen[body] {
				continue
			}
			seen[body] = true
			// a Query message whose body is exactly body bytes: the program, padding blanks, NUL
			pad := body - len(progRows) - 1
			q := c11Letter{fmt.Sprintf("Query(%d-byte body)", body), pgproto.Query(progRows + strings.Repeat(" ", pad))}
			b := c11Letter{fmt.Sprintf("Bind(%d-byte body)", body), pgproto.Cat(pgproto.Parse("", "1:r,c=SELECT 1"), pgproto.Msg('B', append(pgproto.BindBody("", "", nil, nil, nil), make([]byte, body-len(pgproto.BindBody("", "", nil, nil, nil)))...)), pgproto.Execute("", 0), pgproto.Sync())}
			for _, cfg := range []string{"certs", "nil"} {
				out = append(out, c11Case{Cfg: cfg, Behave: "ssl-handshake", Hist: []c11Letter{q, ok}, Limit: l})
				out = append(out, c11Case{Cfg: cfg, Behave: "ssl-handshake", Hist: []c11Letter{ok, b, ok}, Limit: l})
			}
		}
	}
	return out
}

var _ = context.Background
