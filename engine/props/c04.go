package props

import (
	"bytes"
	"context"
	"encoding/binary"
	"errors"
	"fmt"
	"github.com/jeroenrinzema/psql-wire/codes"
	psqlerr "github.com/jeroenrinzema/psql-wire/errors"
	"io"
	"runtime"
	"strings"

	wire "github.com/jeroenrinzema/psql-wire"
	"github.com/lib/pq/oid"
	"verif/engine/explore"
	"verif/engine/harness"
	"verif/engine/memnet"
	"verif/engine/pgproto"
	"verif/engine/script"
)

// C04 — No client input can crash, wedge or balloon the server.

const c04Limit = 8192

// c04Server: handlers deliberately use the documented helpers on client data.
type c04World struct {
	rec    *script.Rec
	events []string // deterministic data-bearing callback events: parse / stmt / chunk / row
	params [][]byte // parameter values handed to statements
	evCap  int      // > 0: only the first evCap events are kept (long repetitions must not grow the harness)
	evN    int
}

func (w *c04World) ev(format string, a ...any) {
	w.evN++
	if w.evCap > 0 && len(w.events) >= w.evCap {
		return
	}
	w.events = append(w.events, fmt.Sprintf(format, a...))
}

func c04Parse(w *c04World) wire.ParseFn {
	w.rec.StmtOpts = func(q string) []wire.PreparedOptionFn {
		return []wire.PreparedOptionFn{wire.WithParameters(wire.ParseParameters(q))}
	}
	inner := w.rec.ParseFn()
	static := []oid.Oid{0, oid.T_text, 0} // one list per server, shared by all of its connections
	sentinel := psqlerr.WithDetail(psqlerr.WithHint(psqlerr.WithCode(errors.New("quota exceeded"), codes.Code("53400")), "free some space"), "contact your administrator")
	copyCols := wire.Columns{{Name: "i", Oid: oid.T_int4}, {Name: "t", Oid: oid.T_text}}
	return func(ctx context.Context, q string) (wire.PreparedStatements, error) {
		w.ev("parse %q", q)
		switch {
		case strings.HasPrefix(q, "copyb"):
			return wire.Prepared(wire.NewStatement(func(ctx context.Context, dw wire.DataWriter, p []wire.Parameter) error {
				cr, err := dw.CopyIn(wire.BinaryFormat)
				if err != nil {
					return err
				}
				rd, err := wire.NewBinaryColumnReader(ctx, cr)
				if err != nil {
					return err
				}
				n := 0
				for {
					row, err := rd.Read(ctx)
					if err == io.EOF {
						break
					}
					if err != nil {
						return err
					}
					w.ev("row %v", c14Print(row))
					if n++; n > 1000 && !strings.HasSuffix(q, "*") {
						return fmt.Errorf("runaway")
					}
				}
				return dw.Complete("COPY")
			}, wire.WithColumns(copyCols))), nil
		case strings.HasPrefix(q, "copyt"):
			return wire.Prepared(wire.NewStatement(func(ctx context.Context, dw wire.DataWriter, p []wire.Parameter) error {
				cr, err := dw.CopyIn(wire.TextFormat)
				if err != nil {
					return err
				}
				for n := 0; n < 1000 || strings.HasSuffix(q, "*"); n++ {
					err := cr.Read()
					if err == io.EOF {
						return dw.Complete("COPY")
					}
					if err != nil {
						return err
					}
					w.ev("chunk %q", cr.Msg)
				}
				return fmt.Errorf("runaway")
			}, wire.WithColumns(copyCols))), nil
		case strings.HasPrefix(q, "typedparams"):
			// the handler takes the placeholder list of the documented helper and fills in the types it knows for the
			// connected user (its own copy of the list, as far as it can tell)
			ps := wire.ParseParameters(q)
			if strings.HasSuffix(string(wire.ClientParameters(ctx)["user"]), "1") {
				for i := range ps {
					ps[i] = oid.T_int4
				}
			}
			return wire.Prepared(wire.NewStatement(func(ctx context.Context, dw wire.DataWriter, params []wire.Parameter) error {
				w.ev("typedparams stmt, %d parameters", len(params))
				return dw.Complete("TYPED")
			}, wire.WithParameters(ps))), nil
		case strings.HasPrefix(q, "sentinel"):
			// an application-wide error value (one per server) that handlers return as it is or refine with a
			// detail of their own: refining it for one connection must not change what another one reports
			return wire.Prepared(wire.NewStatement(func(ctx context.Context, dw wire.DataWriter, params []wire.Parameter) error {
				w.ev("sentinel stmt %q", q)
				if who := strings.TrimPrefix(q, "sentinel"); who != "" {
					return psqlerr.WithDetail(sentinel, "refined for"+who)
				}
				return sentinel
			})), nil
		case strings.HasPrefix(q, "static"):
			// a handler that serves a static catalogue: ONE declared parameter list shared by every connection
			return wire.Prepared(wire.NewStatement(func(ctx context.Context, dw wire.DataWriter, params []wire.Parameter) error {
				w.ev("static stmt, %d parameters", len(params))
				return dw.Complete("STATIC")
			}, wire.WithParameters(static))), nil
		case strings.HasPrefix(q, "select"):
			// a statement that echoes its parameters through their own decoder
			return wire.Prepared(wire.NewStatement(func(ctx context.Context, dw wire.DataWriter, params []wire.Parameter) error {
				for _, p := range params {
					v, err := p.Scan(uint32(oid.T_text))
					w.ev("param %q fmt=%d scan=%v err=%v", p.Value(), p.Format(), v, err != nil)
					if w.evCap == 0 || len(w.params) < w.evCap {
						w.params = append(w.params, p.Value())
					}
				}
				return dw.Complete("SELECT 0")
			}, wire.WithParameters(wire.ParseParameters(q)))), nil
		}
		return inner(ctx, q)
	}
}

type c04Session struct {
	Name     string
	NoPrefix bool // not part of the prefix-closure family (whole-session family only)
	Auth     bool
	Segs     [][]byte // logical messages (for naming / boundaries); delivered as one stream
}

func (s c04Session) stream() []byte { return bytes.Join(s.Segs, nil) }

func c04BinaryStream() []byte {
	return pgproto.Cat(pgproto.BinaryCopyHeader(),
		pgproto.BinaryCopyTuple([][]byte{{0, 0, 0, 7}, []byte("seven")}),
		pgproto.BinaryCopyTuple([][]byte{nil, []byte("")}),
		pgproto.BinaryCopyTrailer())
}

func c04Bodies() []struct {
	Name string
	Msgs [][]byte
} {
	bs := c04BinaryStream()
	type B = struct {
		Name string
		Msgs [][]byte
	}
	return []B{
		{"query", [][]byte{pgproto.Query(progRows)}},
		{"multi-statement query", [][]byte{pgproto.Query("2:r,n,c=T|0:c=X")}},
		{"parser error", [][]byte{pgproto.Query("#perr")}},
		{"blank query", [][]byte{pgproto.Query(" ")}},
		{"query with placeholders", [][]byte{pgproto.Query("select $1 $3 ?")}},
		{"extended batch", [][]byte{pgproto.Parse("s", "select $1, $2", 25), pgproto.Describe('S', "s"), pgproto.Bind("p", "s", []int16{0, 1}, [][]byte{[]byte("v1"), nil}, []int16{0}), pgproto.Describe('P', "p"), pgproto.Execute("p", 0), pgproto.Close('P', "p"), pgproto.Close('S', "s"), pgproto.Sync()}},
		{"extended error batch", [][]byte{pgproto.Parse("", "#perr"), pgproto.Bind("", "", nil, nil, nil), pgproto.Execute("", 0), pgproto.Sync()}},
		{"extended unnamed", [][]byte{pgproto.Parse("", progRows), pgproto.Bind("", "", nil, nil, []int16{1}), pgproto.Execute("", 5), pgproto.Flush(), pgproto.Sync()}},
		{"bind unknown", [][]byte{pgproto.Bind("", "nope", nil, nil, nil), pgproto.Execute("zz", 0), pgproto.Sync()}},
		{"failed bind then use of its portal", [][]byte{pgproto.Bind("p", "nope", nil, nil, nil), pgproto.Sync(), pgproto.Describe('P', "p"), pgproto.Execute("p", 0), pgproto.Sync(), pgproto.Bind("", "nope", nil, nil, nil), pgproto.Sync(), pgproto.Execute("", 0), pgproto.Describe('P', ""), pgproto.Sync()}},
		{"copy text", [][]byte{pgproto.Query("copyt"), pgproto.CopyData([]byte("1\tone\n")), pgproto.CopyData([]byte("2\ttwo\n")), pgproto.CopyDone()}},
		{"copy text aborted", [][]byte{pgproto.Query("copyt"), pgproto.CopyData([]byte("1\tone\n")), pgproto.CopyFail("no")}},
		{"copy text + flush/sync", [][]byte{pgproto.Query("copyt"), pgproto.Flush(), pgproto.CopyData([]byte("x")), pgproto.Sync(), pgproto.CopyDone()}},
		{"copy binary one message", [][]byte{pgproto.Query("copyb"), pgproto.CopyData(bs), pgproto.CopyDone()}},
		{"copy binary split", [][]byte{pgproto.Query("copyb"), pgproto.CopyData(bs[:25]), pgproto.CopyData(bs[25:]), pgproto.CopyDone()}},
		{"copy binary in extended", [][]byte{pgproto.Parse("", "copyb"), pgproto.Bind("", "", nil, nil, nil), pgproto.Execute("", 0), pgproto.CopyData(bs), pgproto.CopyDone(), pgproto.Sync()}},
		{"copy interrupted by query", [][]byte{pgproto.Query("copyb"), pgproto.CopyData(bs[:30]), pgproto.Query(progRows)}},
		{"oversized", [][]byte{pgproto.Msg('Q', make([]byte, c04Limit+1))}},
		{"unknown type", [][]byte{pgproto.Msg('z', []byte("abc"))}},
		{"stray copy messages", [][]byte{pgproto.CopyData([]byte("x")), pgproto.CopyDone(), pgproto.CopyFail("f")}},
		{"password in session", [][]byte{pgproto.Password("late")}},
	}
}

// c04BindShape builds a structurally consistent Bind with f format codes, n values and r result codes
// (inadmissible combinations included: the server must survive them).
func c04BindShape(f, n, r int) []byte {
	pf := make([]int16, f)
	for i := range pf {
		pf[i] = int16(i % 2)
	}
	vals := make([][]byte, n)
	for i := range vals {
		vals[i] = []byte(fmt.Sprintf("v%d", i))
	}
	rf := make([]int16, r)
	return pgproto.Bind("p", "s", pf, vals, rf)
}

func c04Sessions() []c04Session {
	var out []c04Session
	// Bind messages with every small combination of (format codes, values, result codes)
	for f := 0; f <= 4; f++ {
		for n := 0; n <= 4; n++ {
			for r := 0; r <= 3; r++ {
				if r > 0 && (f+n)%2 == 0 && r != 3 {
					continue
				}
				out = append(out, c04Session{Name: fmt.Sprintf("bind shape formats=%d values=%d results=%d", f, n, r), NoPrefix: true,
					Segs: [][]byte{pgproto.Startup("user", "u"), pgproto.Parse("s", "select $1, $2, $3"), c04BindShape(f, n, r), pgproto.Describe('P', "p"), pgproto.Execute("p", 0), pgproto.Sync(), pgproto.Query(progRows)}})
			}
		}
	}
	// the number of result-format codes of a Bind against the number of columns of the statement (fewer, as many,
	// more), the portal described and executed, for statements of 0..3 columns
	for cols := 0; cols <= 3; cols++ {
		for r := 0; r <= 5; r++ {
			rf := make([]int16, r)
			for i := range rf {
				rf[i] = int16((i + r) % 2)
			}
			out = append(out, c04Session{Name: fmt.Sprintf("bind with %d result-format codes on a statement of %d columns, described and executed", r, cols), NoPrefix: true,
				Segs: [][]byte{pgproto.Startup("user", "u"), pgproto.Parse("s", fmt.Sprintf("%d:r,c=SELECT 1", cols)), pgproto.Bind("p", "s", nil, nil, rf), pgproto.Describe('P', "p"), pgproto.Execute("p", 0), pgproto.Sync(), pgproto.Query(progRows)}})
		}
	}
	// an oversized message followed by a message whose payload is a run of well-framed queries: if the
	// oversized body is skipped by the wrong amount, the reader resumes inside that payload
	frame := pgproto.Query("smuggled")
	payload := bytes.Repeat(frame, 700)
	for k := 1; k <= 2*len(frame); k++ {
		out = append(out, c04Session{Name: fmt.Sprintf("oversized by %d then a payload of framed queries", k), NoPrefix: true,
			Segs: [][]byte{pgproto.Startup("user", "u"), pgproto.Msg('Q', make([]byte, c04Limit+k)), pgproto.Msg('d', payload[:8000]), pgproto.Msg('d', payload[:8000]), pgproto.Msg('d', payload[:8000]), pgproto.Query(progRows)}})
	}
	// the same while the session discards until Sync: the oversized body is still skipped in full
	for _, k := range []int{1, 7, 13, 24} {
		out = append(out, c04Session{Name: fmt.Sprintf("while discarding: oversized by %d then a payload of framed queries", k), NoPrefix: true,
			Segs: [][]byte{pgproto.Startup("user", "u"), pgproto.Parse("", "#perr"),
				// (the body BEGINS with a framed Sync and framed queries: read as messages they would end the discarding)
				pgproto.Msg('B', append(pgproto.Cat(pgproto.Sync(), payload[:4000]), make([]byte, c04Limit+k-4000-5)...)), pgproto.Msg('d', payload[:8000]), pgproto.Sync(), pgproto.Query(progRows)}})
	}
	// Parse messages declaring k parameter types for statements with fewer / as many / more parameters
	for k := 0; k <= 4; k++ {
		for _, q := range []string{progRows, "select $1", "select $1, $2", "#perr"} {
			types := []uint32{23, 0, 25, 20}[:k]
			out = append(out, c04Session{Name: fmt.Sprintf("parse %q declaring %d parameter types", q, k), NoPrefix: true,
				Segs: [][]byte{pgproto.Startup("user", "u"), pgproto.Parse("s", q, types...), pgproto.Describe('S', "s"), pgproto.Sync(), pgproto.Parse("", q, types...), pgproto.Sync(), pgproto.Query(progRows)}})
		}
	}
	// the byte that selects the target of a Close / Describe message: every value, known or not
	for b := 0; b < 256; b++ {
		for _, t := range []byte{'C', 'D'} {
			out = append(out, c04Session{Name: fmt.Sprintf("%c message with target byte 0x%02x", t, b), NoPrefix: true,
				Segs: [][]byte{pgproto.Startup("user", "u"), pgproto.Parse("s", progRows), pgproto.Msg(t, pgproto.Cat([]byte{byte(b)}, pgproto.CStr("s"))), pgproto.Sync(), pgproto.Query(progRows)}})
		}
	}
	// Bind messages whose count words declare 32767 .. 65535 items, followed by none / two of them
	for field := 0; field < 3; field++ {
		for _, count := range []int{32767, 32768, 40000, 65535} {
			for _, items := range []int{0, 2} {
				out = append(out, c04Session{Name: fmt.Sprintf("bind count word %d declares %d items, %d follow", field, count, items), NoPrefix: true,
					Segs: [][]byte{pgproto.Startup("user", "u"), pgproto.Parse("s", "select $1, $2, $3"), c03WideBind(field, count, items), pgproto.Execute("p", 0), pgproto.Sync(), pgproto.Query(progRows)}})
			}
		}
	}
	bodies := c04Bodies()
	starts := []struct {
		n    string
		auth bool
		segs [][]byte
	}{
		{"plain", false, [][]byte{pgproto.Startup("user", "u", "database", "d")}},
		{"ssl-refused", false, [][]byte{pgproto.SSLRequest(), pgproto.Startup("user", "u")}},
		{"auth", true, [][]byte{pgproto.Startup("user", "u"), pgproto.Password("good")}},
	}
	for si, st := range starts {
		for bi, b := range bodies {
			for _, term := range []bool{false, true} {
				if si > 0 && term {
					continue
				}
				segs := append(append([][]byte(nil), st.segs...), b.Msgs...)
				name := st.n + " / " + b.Name
				if term {
					segs = append(segs, pgproto.Terminate())
					name += " / terminate"
				}
				out = append(out, c04Session{Name: name, Auth: st.auth, Segs: segs})
			}
			// pairs: a body followed by another one
			if si == 0 {
				for d := 1; d <= 5; d++ {
					b2 := bodies[(bi+d*3)%len(bodies)]
					segs := append(append(append([][]byte(nil), st.segs...), b.Msgs...), b2.Msgs...)
					out = append(out, c04Session{Name: st.n + " / " + b.Name + " / " + b2.Name, Segs: segs})
				}
			}
		}
	}
	out = append(out, c04Session{Name: "auth rejected", Auth: true, Segs: [][]byte{pgproto.Startup("user", "u"), pgproto.Password("bad"), pgproto.Query(progRows)}})
	out = append(out, c04Session{Name: "cancel", Segs: [][]byte{pgproto.CancelRequest(1, 2)}})
	return out
}

type c04Feed struct {
	Stream []byte
	Zeros  int64 // virtual zero bytes appended after Stream (for huge declared lengths)
	Faults memnet.Faults
	MaxSeg int
	NoEOF  bool
	// SampleEvery: the heap / stack monitor samples at every n-th read (0 = default); EventCap bounds the recorded callbacks
	SampleEvery int
	EventCap    int
}

type c04Obs struct {
	status   memnet.Status
	events   []string
	params   [][]byte
	out      []byte
	reads    int
	writes   int
	heap     int64
	stack    int64  // growth of goroutine stack memory while the feed was served
	alloc    uint64 // cumulative bytes allocated while the feed was served
	probe    string
	probeErr string
	engine   string
	wedge    string
	flood    bool
}

// c04Run serves one feed on a fresh server, then opens a probe connection on the SAME server.
func c04Run(auth bool, f c04Feed, measureHeap bool) c04Obs {
	return c04RunLimit(auth, f, measureHeap, c04Limit)
}

func c04RunLimit(auth bool, f c04Feed, measureHeap bool, limit int) c04Obs {
	var o c04Obs
	w := &c04World{rec: &script.Rec{Extra: copyHandler, MaxEvs: f.EventCap}, evCap: f.EventCap}
	opts := []wire.OptionFn{wire.MessageBufferSize(limit)}
	if auth {
		opts = append(opts, wire.SessionAuthStrategy(wire.ClearTextPassword(func(ctx context.Context, db, u, pw string) (context.Context, bool, error) {
			return ctx, pw == "good", nil
		})))
	}
	srv, err := harness.NewServer(c04Parse(w), opts...)
	if err != nil {
		o.engine = err.Error()
		return o
	}
	mc := memnet.NewConn("mem:client1")
	mc.F = f.Faults
	mc.MaxSeg = f.MaxSeg
	w.rec.Conn = mc
	mon := &heapMonitor{every: f.SampleEvery}
	var ms0 runtime.MemStats
	if measureHeap {
		mon.start()
		mc.OnRead = mon.onRead
		runtime.ReadMemStats(&ms0)
	}
	if f.Zeros > 0 {
		mc.PushZeros(f.Stream, f.Zeros)
	} else {
		mc.Push(f.Stream)
	}
	mc.EOF()
	srv.ConnectWith(mc)
	o.status = mc.AwaitClose()
	if o.status == memnet.Closed {
		if !harness.Settle() {
			o.status = memnet.Wedged
		}
	}
	if o.status == memnet.Wedged {
		blocked, dump := harness.LibraryBlocked()
		if !blocked {
			o.engine = "watchdog expired but no blocked library goroutine found:\n" + dump
			return o
		}
		o.wedge = dump
	}
	mc.OnRead = nil
	if measureHeap {
		var ms1 runtime.MemStats
		runtime.ReadMemStats(&ms1)
		o.alloc = ms1.TotalAlloc - ms0.TotalAlloc
		mon.sample()
		o.heap = mon.excess()
		o.stack = mon.stackExcess()
	}
	o.events = append([]string(nil), w.events...)
	o.params = w.params
	o.out = mc.Output()
	o.flood = mc.OutOverflow
	o.reads, o.writes, _, _, _, _ = mc.Snapshot()
	// probe: another connection on the same server must be served normally
	w2 := len(w.events)
	pc := srv.Connect()
	out, st := pc.Step(pgproto.Startup("user", "probe"))
	k := harness.Kinds(out)
	if auth {
		if k != "R" {
			o.probeErr = fmt.Sprintf("probe connection: startup answered %q (%s)", k, st)
		} else {
			out, st = pc.Step(pgproto.Password("good"))
			k = harness.Kinds(out)
		}
	}
	if o.probeErr == "" {
		if !strings.HasPrefix(k, "R") || !strings.HasSuffix(k, "Z") || st != memnet.Parked {
			o.probeErr = fmt.Sprintf("probe connection: startup answered %q (%s)", k, st)
		} else if out, _ := pc.Step(pgproto.Query(progRows)); harness.Kinds(out) != "TDCZ" {
			o.probeErr = fmt.Sprintf("probe connection: query answered %q", harness.Kinds(out))
		}
	}
	_ = w2
	if o.status != memnet.Wedged && o.status != memnet.Spinning {
		srv.Stop() // (Close waits for the commands in flight: it would never return)
	}
	return o
}

func c04Common(res *explore.Result, o c04Obs, what string) bool {
	if o.engine != "" {
		res.Engine = o.engine
		return false
	}
	if o.status == memnet.Wedged || o.status == memnet.Spinning {
		res.Poison = true // a goroutine of the library is left behind: later cases need a fresh process
	}
	switch o.status {
	case memnet.Wedged:
		res.Fail("wedged", fmt.Sprintf("%s: the connection's goroutine is still blocked inside the library long after the input ended:\n%s", what, o.wedge))
	case memnet.Spinning:
		res.Fail("livelock", fmt.Sprintf("%s: the server keeps reading after the input ended or the transport failed (more than %d further reads)", what, memnet.SpinLimit))
	case memnet.Closed:
	default:
		res.Fail("not-closed", fmt.Sprintf("%s: connection is %s after the input ended", what, o.status))
	}
	if o.probeErr != "" {
		res.Fail("server-unhealthy-afterwards", what+": "+o.probeErr)
	}
	if o.flood {
		res.Fail("output-flood", fmt.Sprintf("%s: the server wrote more than %d bytes in response", what, memnet.MaxOut))
	}
	return true
}

// isPrefix reports whether a is a prefix of b.
func isPrefix(a, b []string) bool {
	if len(a) > len(b) {
		return false
	}
	for i := range a {
		if a[i] != b[i] {
			return false
		}
	}
	return true
}

var c04WholeCache = map[string]c04Obs{}

func c04Whole(s c04Session) c04Obs {
	if o, ok := c04WholeCache[s.Name]; ok {
		return o
	}
	o := c04Run(s.Auth, c04Feed{Stream: s.stream()}, false)
	c04WholeCache[s.Name] = o
	return o
}

// ---- family 1: prefix closure ---------------------------------------------------

func c04RunPrefix(s c04Session, cut int) explore.Result {
	var res explore.Result
	res.Outcome = "prefix"
	res.Key = fmt.Sprint(s.Name, cut)
	whole := c04Whole(s)
	stream := s.stream()
	o := c04Run(s.Auth, c04Feed{Stream: stream[:cut]}, false)
	what := fmt.Sprintf("session %q cut after %d of %d bytes", s.Name, cut, len(stream))
	if !c04Common(&res, o, what) {
		return res
	}
	if whole.engine == "" && !isPrefix(o.events, whole.events) {
		res.Fail("fabricated-callback", fmt.Sprintf("%s: callbacks\n  %v\nare not a prefix of the callbacks of the complete session\n  %v\n(a truncated message must not reach user code)", what, o.events, whole.events))
	}
	res.Trans = []string{fmt.Sprintf("serving|cut@%s|closed", c04Phase(s, cut))}
	return res
}

func c04Phase(s c04Session, cut int) string {
	off := 0
	for i, seg := range s.Segs {
		if cut < off+len(seg) {
			in := "body"
			if cut-off < 5 {
				in = "header"
			}
			if cut == off {
				in = "boundary"
			}
			return fmt.Sprintf("msg%d/%s", min(i, 4), in)
		}
		off += len(seg)
	}
	return "end"
}

// c04SentQueries lists the query texts the client really sent as Query / Parse messages.
func c04SentQueries(s c04Session) map[string]bool {
	sent := map[string]bool{}
	for _, seg := range s.Segs {
		b := seg
		for len(b) >= 5 {
			l := int(binary.BigEndian.Uint32(b[1:5]))
			if l < 4 || 1+l > len(b) {
				break
			}
			body := b[5 : 1+l]
			switch b[0] {
			case 'Q':
				if i := bytes.IndexByte(body, 0); i >= 0 {
					sent[string(body[:i])] = true
				}
			case 'P':
				if i := bytes.IndexByte(body, 0); i >= 0 {
					rest := body[i+1:]
					if j := bytes.IndexByte(rest, 0); j >= 0 {
						sent[string(rest[:j])] = true
					}
				}
			}
			b = b[1+l:]
		}
	}
	return sent
}

// c04RunWhole serves the complete session: survival, closure, probe, and no callback for a query the client never sent as a message.
func c04RunWhole(s c04Session) explore.Result {
	var res explore.Result
	res.Outcome = "whole-session"
	res.Key = "whole " + s.Name
	o := c04Run(s.Auth, c04Feed{Stream: s.stream()}, false)
	what := fmt.Sprintf("session %q", s.Name)
	if !c04Common(&res, o, what) {
		return res
	}
	sent := c04SentQueries(s)
	for _, e := range o.events {
		if strings.HasPrefix(e, "parse ") {
			var q string
			fmt.Sscanf(e[6:], "%q", &q)
			if !sent[q] {
				res.Fail("fabricated-callback", fmt.Sprintf("%s: the parser was invoked with %q, which the client never sent as a Query / Parse message (bytes of another message's payload were interpreted as a message)", what, q))
				break
			}
		}
	}
	if len(o.params) > 4 {
		res.Fail("fabricated-parameter", fmt.Sprintf("%s: a statement received %d parameters", what, len(o.params)))
	}
	res.Trans = []string{"serving|whole session|closed"}
	return res
}

// ---- family 2: field mutations ---------------------------------------------------

type c04Field struct {
	Name  string
	Off   int // offset inside the message
	Width int // 2 or 4
}

type c04Target struct {
	Name   string
	Auth   bool
	Before [][]byte
	Msg    []byte
	After  [][]byte
	Fields []c04Field
	Kind   string // for outcome classes
}

func c04Targets() []c04Target {
	start := pgproto.Startup("user", "u")
	tail := [][]byte{pgproto.Sync(), pgproto.Query(progRows)}
	lenField := func(off int) c04Field { return c04Field{"message length", off, 4} }
	var ts []c04Target
	// startup packet: length, version
	ts = append(ts, c04Target{Name: "startup packet", Msg: start, After: [][]byte{pgproto.Query(progRows)}, Kind: "startup",
		Fields: []c04Field{lenField(0), {"protocol version", 4, 4}}})
	ts = append(ts, c04Target{Name: "ssl request", Msg: pgproto.SSLRequest(), After: [][]byte{start, pgproto.Query(progRows)}, Kind: "startup",
		Fields: []c04Field{lenField(0)}})
	ts = append(ts, c04Target{Name: "password message", Auth: true, Before: [][]byte{start}, Msg: pgproto.Password("good"), After: [][]byte{pgproto.Query(progRows)}, Kind: "auth",
		Fields: []c04Field{lenField(1)}})
	sess := func(name string, before [][]byte, msg []byte, fields ...c04Field) {
		ts = append(ts, c04Target{Name: name, Before: append([][]byte{start}, before...), Msg: msg, After: tail, Kind: "session",
			Fields: append([]c04Field{lenField(1)}, fields...)})
	}
	sess("Query", nil, pgproto.Query("select $1"))
	parse := pgproto.Parse("s", "select $1, $2", 25, 23)
	sess("Parse", nil, parse, c04Field{"parameter type count", 5 + 2 + len("select $1, $2") + 1, 2}, c04Field{"first parameter oid", 5 + 2 + len("select $1, $2") + 1 + 2, 4})
	bind := pgproto.Bind("p", "s", []int16{0, 1}, [][]byte{[]byte("v1"), []byte("val2")}, []int16{0, 1})
	b0 := 5 + 2 + 2 // after portal "p\0" and statement "s\0"
	sess("Bind", [][]byte{pgproto.Parse("s", "select $1, $2")}, bind,
		c04Field{"parameter format count", b0, 2}, c04Field{"first parameter format", b0 + 2, 2},
		c04Field{"parameter count", b0 + 6, 2}, c04Field{"first parameter length", b0 + 8, 4}, c04Field{"second parameter length", b0 + 8 + 4 + 2, 4},
		c04Field{"result format count", b0 + 8 + 4 + 2 + 4 + 4, 2})
	sess("Describe", [][]byte{pgproto.Parse("s", "select 1")}, pgproto.Describe('S', "s"))
	sess("Execute", [][]byte{pgproto.Parse("", "select 1"), pgproto.Bind("", "", nil, nil, nil)}, pgproto.Execute("", 0), c04Field{"max rows", 5 + 1, 4})
	sess("Close", nil, pgproto.Close('S', "s"))
	sess("Sync", nil, pgproto.Sync())
	sess("Flush", nil, pgproto.Flush())
	sess("Terminate", nil, pgproto.Terminate())
	sess("unknown type", nil, pgproto.Msg('z', []byte("ab")))
	// inside COPY: message lengths and the binary stream's own counts and lengths
	bs := c04BinaryStream()
	h := 5 // CopyData header
	cd := pgproto.CopyData(bs)
	ts = append(ts, c04Target{Name: "CopyData (binary stream)", Before: [][]byte{start, pgproto.Query("copyb")}, Msg: cd, After: [][]byte{pgproto.CopyDone(), pgproto.Query(progRows)}, Kind: "copy",
		Fields: []c04Field{lenField(1), {"header flags", h + 11, 4}, {"header extension length", h + 15, 4},
			{"tuple 1 field count", h + 19, 2}, {"tuple 1 field 1 length", h + 21, 4}, {"tuple 1 field 2 length", h + 29, 4},
			{"tuple 2 field count", h + 38, 2}, {"tuple 2 field 1 length (NULL)", h + 40, 4}, {"tuple 2 field 2 length", h + 44, 4}, {"trailer", h + 48, 2}}})
	// a tuple that carries one well-formed field more than the table has columns (and one fewer)
	wide := pgproto.Cat(pgproto.BinaryCopyHeader(), pgproto.BinaryCopyTuple([][]byte{{0, 0, 0, 7}, []byte("seven"), []byte("x")}), pgproto.BinaryCopyTrailer())
	narrow := pgproto.Cat(pgproto.BinaryCopyHeader(), pgproto.BinaryCopyTuple([][]byte{{0, 0, 0, 7}}), pgproto.BinaryCopyTrailer())
	for _, v := range []struct {
		n string
		b []byte
	}{{"CopyData (tuple with an extra field)", wide}, {"CopyData (tuple lacking a field)", narrow}} {
		ts = append(ts, c04Target{Name: v.n, Before: [][]byte{start, pgproto.Query("copyb")}, Msg: pgproto.CopyData(v.b), After: [][]byte{pgproto.CopyDone(), pgproto.Query(progRows)}, Kind: "copy",
			Fields: []c04Field{{"tuple 1 field count", h + 19, 2}}})
	}
	ts = append(ts, c04Target{Name: "CopyDone", Before: [][]byte{start, pgproto.Query("copyt"), pgproto.CopyData([]byte("x"))}, Msg: pgproto.CopyDone(), After: [][]byte{pgproto.Query(progRows)}, Kind: "copy",
		Fields: []c04Field{lenField(1)}})
	ts = append(ts, c04Target{Name: "CopyFail", Before: [][]byte{start, pgproto.Query("copyt")}, Msg: pgproto.CopyFail("why"), After: [][]byte{pgproto.Query(progRows)}, Kind: "copy",
		Fields: []c04Field{lenField(1)}})
	return ts
}

func c04Values(width int, n uint64) []uint64 {
	if width == 2 {
		return []uint64{0, 1, (n - 1) & 0xffff, (n + 1) & 0xffff, 255, 256, 32767, 32768, 65535}
	}
	return []uint64{0, 1, 3, 4, (n - 1) & 0xffffffff, (n + 1) & 0xffffffff, 1<<31 - 1, 1 << 31, 1<<32 - 2, 1<<32 - 1}
}

func c04RunMutation(t c04Target, f c04Field, v uint64, cutToMatch bool) explore.Result {
	var res explore.Result
	res.Outcome = "mutation-" + t.Kind
	msg := append([]byte(nil), t.Msg...)
	if f.Width == 2 {
		binary.BigEndian.PutUint16(msg[f.Off:], uint16(v))
	} else {
		binary.BigEndian.PutUint32(msg[f.Off:], uint32(v))
	}
	var zeros int64
	if f.Name == "message length" && cutToMatch {
		// keep the stream framed: the body is cut (or zero-extended, virtually) to the declared length
		hdr := f.Off + 4
		declared := int64(v) - 4
		have := int64(len(msg) - hdr)
		if declared >= 0 && declared < have {
			msg = msg[:hdr+int(declared)]
		} else if declared > have {
			zeros = declared - have
		}
	}
	stream := pgproto.Cat(bytes.Join(t.Before, nil), msg)
	after := bytes.Join(t.After, nil)
	what := fmt.Sprintf("%s with %s = %d (body cut/extended to match: %v)", t.Name, f.Name, v, cutToMatch)
	res.Key = what
	measure := v >= 32767 || zeros > 0
	var o c04Obs
	if zeros > 0 {
		// the virtual zero run is followed by nothing (the declared body is never completed by real data) unless it is small
		if zeros <= 1<<16 {
			stream = pgproto.Cat(stream, make([]byte, zeros), after)
			zeros = 0
			o = c04Run(t.Auth, c04Feed{Stream: stream}, measure)
		} else {
			o = c04Run(t.Auth, c04Feed{Stream: stream, Zeros: zeros}, measure)
		}
	} else {
		o = c04Run(t.Auth, c04Feed{Stream: pgproto.Cat(stream, after)}, measure)
	}
	if !c04Common(&res, o, what) {
		return res
	}
	// a short-lived allocation sized by a declared length is freed before any live-heap sample can see it:
	// when no (virtual) body has to be skipped, the cumulative allocation of the whole exchange is bounded too
	if measure && zeros == 0 && o.alloc > 64<<20 {
		res.Fail("memory-balloon", fmt.Sprintf("%s: %d bytes were allocated while serving a %d-byte exchange (limit %d): an allocation is sized by a length / count the client merely declared", what, o.alloc, len(stream)+len(after), c04Limit))
	}
	if measure && o.heap > heapBound(c04Limit) {
		res.Fail("memory-balloon", fmt.Sprintf("%s: live heap grew by %d bytes while serving the message (bound %d for a limit of %d)", what, o.heap, heapBound(c04Limit), c04Limit))
	}
	// no fabricated data: every parameter value handed to a statement is a byte string the client sent
	full := pgproto.Cat(stream, after)
	for _, p := range o.params {
		if len(p) > 0 && !bytes.Contains(full, p) {
			res.Fail("fabricated-parameter", fmt.Sprintf("%s: a statement received the parameter %q which the client never sent", what, p))
		}
	}
	if len(o.params) > 2 {
		res.Fail("fabricated-parameter", fmt.Sprintf("%s: a statement received %d parameters, the client sent 2", what, len(o.params)))
	}
	if strings.HasPrefix(t.Name, "CopyData (") {
		// rows handed to the handler must be a prefix of what an independent decoder reads from the bytes actually sent
		var sent []byte
		if len(msg) > 5 {
			sent = msg[5:]
		}
		want := refDecodeBinaryCopy(sent)
		var got []string
		for _, e := range o.events {
			if strings.HasPrefix(e, "row ") {
				got = append(got, e[4:])
			}
		}
		if !isPrefix(got, want) {
			res.Fail("fabricated-row", fmt.Sprintf("%s: the binary COPY reader delivered rows %v; an independent decoder reads %v from the bytes the client sent", what, got, want))
		}
	}
	res.Trans = []string{fmt.Sprintf("%s|%s|closed", t.Kind, f.Name)}
	return res
}

// refDecodeBinaryCopy is an independent decoder of a PGCOPY stream for the (int4, text) table:
// it returns the rows that are completely and validly encoded before the first defect.
func refDecodeBinaryCopy(b []byte) []string {
	var rows []string
	if len(b) < 19 || !bytes.Equal(b[:11], pgproto.CopySignature) {
		return nil
	}
	ext := binary.BigEndian.Uint32(b[15:19])
	if uint64(19)+uint64(ext) > uint64(len(b)) {
		return nil
	}
	b = b[19+ext:]
	for len(b) >= 2 {
		n := binary.BigEndian.Uint16(b)
		b = b[2:]
		if n != 2 {
			return rows // trailer or a malformed field count
		}
		var cells []string
		for c := 0; c < 2; c++ {
			if len(b) < 4 {
				return rows
			}
			l := binary.BigEndian.Uint32(b)
			b = b[4:]
			if l == 0xFFFFFFFF {
				cells = append(cells, "<nil>")
				continue
			}
			if uint64(l) > uint64(len(b)) || l > 1<<31-1 {
				return rows
			}
			v := b[:l]
			b = b[l:]
			if c == 0 {
				if l != 4 {
					return rows
				}
				cells = append(cells, fmt.Sprint(int32(binary.BigEndian.Uint32(v))))
			} else {
				cells = append(cells, fmt.Sprintf("%q", v))
			}
		}
		rows = append(rows, "["+strings.Join(cells, " ")+"]")
	}
	return rows
}

// ---- family 3: transport faults ---------------------------------------------------

func c04RunFault(s c04Session, f memnet.Faults, name string, maxSeg ...int) explore.Result {
	var res explore.Result
	res.Outcome = "transport-fault"
	res.Key = s.Name + name
	whole := c04Whole(s)
	feed := c04Feed{Stream: s.stream(), Faults: f}
	if len(maxSeg) > 0 {
		feed.MaxSeg = maxSeg[0]
	}
	o := c04Run(s.Auth, feed, false)
	what := fmt.Sprintf("session %q, %s", s.Name, name)
	if !c04Common(&res, o, what) {
		return res
	}
	if whole.engine == "" && !isPrefix(o.events, whole.events) {
		res.Fail("fabricated-callback", fmt.Sprintf("%s: callbacks %v are not a prefix of the fault-free callbacks %v", what, o.events, whole.events))
	}
	res.Trans = []string{fmt.Sprintf("serving|%s|closed", strings.Fields(name)[0])}
	return res
}

// ---- family 4: raw byte strings ------------------------------------------------------

func c04RunRaw(raw []byte, afterStartup bool) explore.Result {
	var res explore.Result
	res.Outcome = "raw-bytes"
	stream := raw
	if afterStartup {
		stream = pgproto.Cat(pgproto.Startup("user", "u"), raw)
	}
	res.Key = fmt.Sprintf("% x %v", raw, afterStartup)
	o := c04Run(false, c04Feed{Stream: stream}, false)
	if !c04Common(&res, o, fmt.Sprintf("raw bytes % x (after startup: %v)", raw, afterStartup)) {
		return res
	}
	if len(o.events) > 0 && !afterStartup {
		res.Fail("fabricated-callback", fmt.Sprintf("raw bytes % x on a fresh connection reached user callbacks: %v", raw, o.events))
	}
	res.Trans = []string{fmt.Sprintf("fresh=%v|raw%d|closed", !afterStartup, len(raw))}
	return res
}

// ---- family 5: repetition ----------------------------------------------------------------
//
// One protocol unit repeated N times on a single connection: whatever a client may send once it may send again
// and again, and neither the live heap nor the goroutine stack may grow with the number of repetitions.

type c04Unit struct {
	Name   string
	Auth   bool
	Before [][]byte // sent once
	Unit   [][]byte // repeated
	After  [][]byte // sent once
}

func c04Units() []c04Unit {
	st := [][]byte{pgproto.Startup("user", "u")}
	tail := [][]byte{pgproto.Sync(), pgproto.Query(progRows)}
	bs := c04BinaryStream()
	row := pgproto.BinaryCopyTuple([][]byte{{0, 0, 0, 7}, []byte("seven")})
	return []c04Unit{
		{Name: "SSLRequest (declined) before the start-up message", Unit: [][]byte{pgproto.SSLRequest()}, After: append(append([][]byte{}, st...), tail...)},
		{Name: "GSSENCRequest before the start-up message", Unit: [][]byte{pgproto.Untyped([]byte{0x04, 0xd2, 0x16, 0x30})}, After: append(append([][]byte{}, st...), tail...)},
		{Name: "Sync", Before: st, Unit: [][]byte{pgproto.Sync()}, After: tail},
		{Name: "Flush", Before: st, Unit: [][]byte{pgproto.Flush()}, After: tail},
		{Name: "empty Query", Before: st, Unit: [][]byte{pgproto.Query("")}, After: tail},
		{Name: "Query", Before: st, Unit: [][]byte{pgproto.Query(progRows)}, After: tail},
		{Name: "failing Query", Before: st, Unit: [][]byte{pgproto.Query("#perr")}, After: tail},
		{Name: "unknown message type", Before: st, Unit: [][]byte{pgproto.Msg('z', []byte("abc"))}, After: tail},
		{Name: "oversized message", Before: st, Unit: [][]byte{pgproto.Msg('Q', make([]byte, c04Limit+1))}, After: tail},
		{Name: "unnamed Parse/Bind/Describe/Execute/Sync", Before: st, Unit: [][]byte{pgproto.Parse("", "select $1", 25), pgproto.Bind("", "", nil, [][]byte{[]byte("v")}, nil), pgproto.Describe('P', ""), pgproto.Execute("", 0), pgproto.Sync()}, After: tail},
		{Name: "named Parse/Bind/Execute/Close/Sync (same names)", Before: st, Unit: [][]byte{pgproto.Parse("s", "select $1", 25), pgproto.Bind("p", "s", nil, [][]byte{[]byte("v")}, nil), pgproto.Execute("p", 0), pgproto.Close('P', "p"), pgproto.Close('S', "s"), pgproto.Sync()}, After: tail},
		{Name: "re-Parse and re-Bind of the same names without Close", Before: st, Unit: [][]byte{pgproto.Parse("s", "select $1", 25), pgproto.Bind("p", "s", nil, [][]byte{[]byte("v")}, nil), pgproto.Sync()}, After: tail},
		{Name: "Execute of one bound portal", Before: append(append([][]byte{}, st...), pgproto.Parse("s", progRows), pgproto.Bind("p", "s", nil, nil, nil)), Unit: [][]byte{pgproto.Execute("p", 0)}, After: tail},
		{Name: "errors inside one extended batch (no Sync)", Before: st, Unit: [][]byte{pgproto.Bind("", "nope", nil, nil, nil)}, After: tail},
		{Name: "error + Sync", Before: st, Unit: [][]byte{pgproto.Execute("nope", 0), pgproto.Sync()}, After: tail},
		{Name: "stray CopyData outside COPY", Before: st, Unit: [][]byte{pgproto.CopyData([]byte("x"))}, After: tail},
		{Name: "text COPY of two chunks", Before: st, Unit: [][]byte{pgproto.Query("copyt"), pgproto.CopyData([]byte("1\tone\n")), pgproto.CopyData([]byte("2\ttwo\n")), pgproto.CopyDone()}, After: tail},
		{Name: "aborted text COPY", Before: st, Unit: [][]byte{pgproto.Query("copyt"), pgproto.CopyData([]byte("1\tone\n")), pgproto.CopyFail("no")}, After: tail},
		{Name: "binary COPY", Before: st, Unit: [][]byte{pgproto.Query("copyb"), pgproto.CopyData(bs), pgproto.CopyDone()}, After: tail},
		{Name: "CopyData chunks inside one text COPY", Before: append(append([][]byte{}, st...), pgproto.Query("copyt*")), Unit: [][]byte{pgproto.CopyData([]byte("1\tone\n"))}, After: append([][]byte{pgproto.CopyDone()}, tail...)},
		{Name: "rows inside one binary COPY (one CopyData each)", Before: append(append([][]byte{}, st...), pgproto.Query("copyb*"), pgproto.CopyData(pgproto.BinaryCopyHeader())), Unit: [][]byte{pgproto.CopyData(row)}, After: append([][]byte{pgproto.CopyData(pgproto.BinaryCopyTrailer()), pgproto.CopyDone()}, tail...)},
		{Name: "Flush / Sync inside COPY", Before: append(append([][]byte{}, st...), pgproto.Query("copyt")), Unit: [][]byte{pgproto.Flush(), pgproto.Sync()}, After: append([][]byte{pgproto.CopyDone()}, tail...)},
		{Name: "password message after authentication", Auth: true, Before: [][]byte{pgproto.Startup("user", "u"), pgproto.Password("good")}, Unit: [][]byte{pgproto.Password("late")}, After: tail},
	}
}

func c04Reps(tier string) []int {
	if tier == "thorough" {
		return []int{2, 3, 50, 1001, 20000, 100000}
	}
	return []int{2, 1001, 20000}
}

const c04StackBound = 256 << 10

func c04RunRepeat(u c04Unit, n int) explore.Result {
	var res explore.Result
	res.Outcome = "repetition"
	res.Key = fmt.Sprint(u.Name, n)
	unit := bytes.Join(u.Unit, nil)
	stream := pgproto.Cat(bytes.Join(u.Before, nil), bytes.Repeat(unit, n), bytes.Join(u.After, nil))
	// small reads so that the monitor sees the connection many times while the repetitions are being served
	o := c04Run(u.Auth, c04Feed{Stream: stream, MaxSeg: 509, SampleEvery: 64, EventCap: 64}, true)
	what := fmt.Sprintf("%q repeated %d times on one connection", u.Name, n)
	if o.flood {
		o.flood = false // answering every repetition is legitimate; the capture is merely capped
	}
	if !c04Common(&res, o, what) {
		return res
	}
	// the capture of the output (<= MaxOut) and of the first callbacks belongs to the harness
	harnessOwned := int64(2*len(o.out)) + 64<<10
	if o.heap > heapBound(c04Limit)+harnessOwned {
		res.Fail("memory-balloon", fmt.Sprintf("%s: live heap grew by %d bytes while the repetitions were served (bound %d for a limit of %d)", what, o.heap, heapBound(c04Limit)+harnessOwned, c04Limit))
	}
	if o.stack > c04StackBound {
		res.Fail("stack-growth", fmt.Sprintf("%s: goroutine stack memory grew by %d bytes while the repetitions were served (bound %d): every repetition leaves a frame behind, a long enough run overflows the stack and kills the process", what, o.stack, c04StackBound))
	}
	res.Trans = []string{fmt.Sprintf("serving|%s x%d|closed", u.Name, n)}
	return res
}

// ---- family 6: a stalled client ------------------------------------------------------------------
//
// A client that stops sending (without closing) in any protocol state holds up nobody: other connections are
// accepted and served while it sits there, and it can still be completed afterwards.

func c04StalledStates() []neighbour {
	st := pgproto.Startup("user", "stalled")
	q := pgproto.Query(progRows)
	bs := c04BinaryStream()
	out := neighbourStates()
	out = append(out,
		neighbour{"half of a start-up packet sent", [][]byte{st[:9]}, st[9:], "*Z"},
		neighbour{"half of a Query message sent", [][]byte{st, q[:7]}, q[7:], "TDCZ"},
		neighbour{"only the type byte of a message sent", [][]byte{st, q[:1]}, q[1:], "TDCZ"},
		neighbour{"inside binary COPY-in, half of a row sent", [][]byte{st, pgproto.Query("copyb"), pgproto.CopyData(bs[:30])}, pgproto.Cat(pgproto.CopyData(bs[30:]), pgproto.CopyDone()), "CZ"},
		neighbour{"inside COPY-in, half of a CopyData message sent", [][]byte{st, pgproto.Query("copyt"), pgproto.CopyData([]byte("abcdef"))[:8]}, pgproto.Cat(pgproto.CopyData([]byte("abcdef"))[8:], pgproto.CopyDone()), "CZ"},
		neighbour{"inside an oversized message that is being skipped", [][]byte{st, pgproto.Msg('Q', make([]byte, c04Limit+100))[:c04Limit/2]}, pgproto.Cat(pgproto.Msg('Q', make([]byte, c04Limit+100))[c04Limit/2:], pgproto.Sync()), "~Z"},
	)
	return out
}

func c04RunStalled(nb neighbour, auth bool) (res explore.Result) {
	res.Outcome = "stalled-client"
	res.Key = fmt.Sprint("stalled", nb.Name, auth)
	w := &c04World{rec: &script.Rec{Extra: copyHandler}}
	opts := []wire.OptionFn{wire.MessageBufferSize(c04Limit)}
	srv, err := harness.NewServer(c04Parse(w), opts...)
	if err != nil {
		res.Engine = err.Error()
		return res
	}
	stalled, problem := startNeighbour(srv, nb)
	if problem != "" {
		res.Engine = problem
		return res
	}
	what := fmt.Sprintf("a client stalled in state %q", nb.Name)
	// two further connections, one after the other, are served completely
	for i := 0; i < 2; i++ {
		pc := srv.Connect()
		out, st := pc.Step(pgproto.Cat(pgproto.Startup("user", "probe"), pgproto.Query(progRows), pgproto.Parse("", progRows), pgproto.Bind("", "", nil, nil, nil), pgproto.Execute("", 0), pgproto.Sync()))
		k := harness.Kinds(out)
		if st == memnet.Wedged {
			blocked, dump := harness.LibraryBlocked()
			res.Poison = true
			if !blocked {
				res.Engine = "watchdog expired but no blocked library goroutine found:\n" + dump
				return res
			}
			res.Fail("other-connection-held-up", fmt.Sprintf("%s: connection %d that arrived meanwhile got %q and then nothing; its goroutine is blocked:\n%s", what, i+1, k, dump))
			return res
		}
		if !strings.HasSuffix(k, "ZTDCZ12DCZ") || st != memnet.Parked {
			res.Fail("other-connection-held-up", fmt.Sprintf("%s: connection %d that arrived meanwhile was answered %q (%s)", what, i+1, k, st))
			return res
		}
		pc.End()
	}
	finishNeighbour(&res, stalled, nb, what)
	res.Trans = []string{fmt.Sprintf("stalled|%s|served", nb.Name)}
	srv.Stop()
	return res
}

func init() {
	explore.Register(&explore.Check{
		ID:          "C04",
		Level:       "fault_enumeration",
		Technique:   "exhaustive enumeration of truncation points, field mutations, raw byte strings and transport fault positions (k-th read, k-th write, n-th byte) over a corpus of canonical sessions, each run on a real server inside crash-isolated worker processes, followed by a probe connection on the same server",
		Rule:        "prefix closure: every byte prefix of ~190 canonical sessions (startup / SSL refusal / auth x simple, extended, COPY text+binary, oversized, unknown, terminate); mutations: every length / count field of every message type x {0,1,n-1,n+1,255,256,32767,32768,65535} or {0,1,3,4,n-1,n+1,2^31-1,2^31,2^32-2,2^32-1}, body as is and cut/extended to match; raw: all strings of length <= 5 (fresh) / <= 3 (after startup) over {00,01,04,08,7F,80,FF,Q,p}; faults: every k-th read fails / is short, every k-th write fails, failure after every n-th byte; stalled client: a connection parked in each of 11 protocol states (half a start-up packet, half a message, inside text / binary COPY, skipping an oversized message, discarding until Sync ...) while two further connections must be served completely; repetition: each of ~23 protocol units (declined SSLRequest, Sync, Query, extended cycles, COPY units, stray / oversized / unknown messages) repeated N times on one connection with live heap and goroutine-stack growth bounded independently of N; non-trivial = the case ends the connection before its natural end or carries a mutated field",
		Assumptions: []string{"which error (if any) is sent for malformed input is not asserted", "wedge detection: a 60 s watchdog whose expiry only counts when a stack dump shows a blocked library goroutine; livelock: more than 64 reads after EOF", "live-heap bound 4*max(L,4096)+8 MiB sampled with forced GC"},
		Enumerate:   c04Enumerate,
		Bounds: func(tier string) map[string]any {
			return map[string]any{"sessions": len(c04Sessions()), "mutation_targets": len(c04Targets()), "raw_length_fresh": c04RawLen(tier), "limit": c04Limit, "repetition_units": len(c04Units()), "repetitions": c04Reps(tier), "stack_bound": c04StackBound}
		},
		RequiredOutcomes: []string{"whole-session", "prefix", "mutation-session", "mutation-copy", "mutation-startup", "mutation-auth", "transport-fault", "raw-bytes", "repetition", "stalled-client", "helper-amplification"},
	})
}

func c04RawLen(tier string) int {
	if tier == "thorough" {
		return 5
	}
	return 4
}

// c04RunCopyOversized: inside a binary COPY a CopyData message larger than the limit arrives in the middle of a row
// (the row began in the message before it and would end in the message after it). Whatever the server does with
// the oversized message, the rows the handler receives are a prefix of the rows an independent decoder reads from
// ALL the bytes the client sent - no row is assembled from the pieces around a message that was thrown away.
func c04RunCopyOversized(over int, cutInside string) explore.Result {
	var res explore.Result
	res.Outcome = "whole-session"
	res.Key = fmt.Sprint("copy-oversized", over, cutInside)
	row1 := pgproto.BinaryCopyTuple([][]byte{{0, 0, 0, 7}, []byte("seven")})
	row2 := pgproto.BinaryCopyTuple([][]byte{{0, 0, 0, 8}, []byte("BBBBBBBB")})
	cut := map[string]int{"the field count": 1, "the first length word": 4, "the int4 value": 8, "the second length word": 12, "the text value": 16}[cutInside]
	first := pgproto.Cat(pgproto.BinaryCopyHeader(), row1, row2[:cut])
	big := append(append([]byte(nil), row2[cut:]...), bytes.Repeat([]byte("D"), c04Limit+over)...)
	last := pgproto.Cat([]byte{0, 2, 0, 0, 0, 4, 0, 0, 0, 9, 0, 0, 0, 2, 'Z', 'Z'}, pgproto.BinaryCopyTrailer())
	stream := pgproto.Cat(pgproto.Startup("user", "u"), pgproto.Query("copyb"), pgproto.CopyData(first), pgproto.CopyData(big), pgproto.CopyData(last), pgproto.CopyDone(), pgproto.Query(progRows))
	o := c04Run(false, c04Feed{Stream: stream}, false)
	if o.engine != "" {
		res.Engine = o.engine
		return res
	}
	want := refDecodeBinaryCopy(pgproto.Cat(first, big, last))
	var got []string
	for _, e := range o.events {
		if strings.HasPrefix(e, "row ") {
			got = append(got, e[4:])
		}
	}
	if !isPrefix(got, want) {
		res.Fail("fabricated-row", fmt.Sprintf("a binary COPY whose second row is cut inside %s by a CopyData message of %d bytes (limit %d): the handler received the rows %.200v; an independent decoder reads %.200v from the bytes the client sent", cutInside, len(big), c04Limit, got, want))
	}
	return res
}

func c04Enumerate(tier string, emit explore.Emit) {
	for _, over := range []int{1, 100, 2000} {
		for _, cutInside := range []string{"the field count", "the first length word", "the int4 value", "the second length word", "the text value"} {
			over, cutInside := over, cutInside
			emit(explore.Case{Family: "whole-session", Size: 2, Desc: func() any {
				return map[string]any{"session": "binary COPY with an oversized CopyData in the middle of a row", "row_cut_inside": cutInside, "oversized_by": over}
			},
				Run: func() explore.Result { return c04RunCopyOversized(over, cutInside) }})
		}
	}
	// the configured limit bounds what a client can make the server buffer on an upgraded (TLS) connection too:
	// C11's sized sessions (Query / Bind bodies around the limit, differential against the plaintext session)
	for _, c := range c11SizedCases([]int{1024, 8192}) {
		c := c
		emit(explore.Case{Family: "whole-session", Size: 1, Desc: func() any { return map[string]any{"session": "over TLS: " + c.String()} },
			Run: func() explore.Result {
				r := c11Run(c)
				r.Outcome = "whole-session"
				for i := range r.Violations {
					r.Violations[i].Clause = "memory-balloon"
					r.Violations[i].Detail = "the message limit is not what it is on a plaintext connection: " + r.Violations[i].Detail
				}
				return r
			}})
	}
	sessions := c04Sessions()
	for _, s := range sessions {
		s := s
		emit(explore.Case{Family: "whole-session", Size: 0, Desc: func() any { return map[string]any{"session": s.Name} },
			Run: func() explore.Result { return c04RunWhole(s) }})
	}
	// 1. prefix closure
	for si, s := range sessions {
		s := s
		if s.NoPrefix {
			continue
		}
		n := len(s.stream())
		for cut := 0; cut < n; cut++ {
			if tier != "thorough" && si%2 == 1 && cut%3 != 0 {
				continue
			}
			cut := cut
			emit(explore.Case{Family: "prefix-closure", Size: cut,
				Desc: func() any { return map[string]any{"session": s.Name, "cut_after_bytes": cut, "of": n} },
				Run:  func() explore.Result { return c04RunPrefix(s, cut) }})
		}
	}
	// 2. field mutations
	for _, t := range c04Targets() {
		for _, f := range t.Fields {
			var cur uint64
			if f.Width == 2 {
				cur = uint64(binary.BigEndian.Uint16(t.Msg[f.Off:]))
			} else {
				cur = uint64(binary.BigEndian.Uint32(t.Msg[f.Off:]))
			}
			for _, v := range c04Values(f.Width, cur) {
				for _, cutToMatch := range []bool{false, true} {
					if cutToMatch && f.Name != "message length" {
						continue
					}
					t, f, v, cutToMatch := t, f, v, cutToMatch
					emit(explore.Case{Family: "field-mutation", Size: 1,
						Desc: func() any {
							return map[string]any{"message": t.Name, "field": f.Name, "value": v, "original": cur, "body_cut_to_match": cutToMatch}
						},
						Run: func() explore.Result { return c04RunMutation(t, f, v, cutToMatch) }})
				}
			}
		}
	}
	// 3. transport faults
	for si, s := range sessions {
		if (tier != "thorough" && si%3 != 0) || s.NoPrefix {
			continue
		}
		s := s
		// (nothing is executed while enumerating: a crash must be attributed to a case, not to the enumeration;
		// fault positions beyond the session's actual number of reads / writes are skipped inside the case)
		add := func(f memnet.Faults, name string) {
			emit(explore.Case{Family: "transport-fault", Size: 1,
				Desc: func() any { return map[string]any{"session": s.Name, "fault": name} },
				Run: func() explore.Result {
					whole := c04Whole(s)
					if f.ReadErrAt > whole.reads+1 || f.ReadShortAt > whole.reads+1 || f.WriteErrAt > whole.writes {
						return explore.Result{Outcome: "fault-position-beyond-session"}
					}
					return c04RunFault(s, f, name)
				}})
		}
		for k := 1; k <= 12; k++ {
			add(memnet.Faults{ReadErrAt: k}, fmt.Sprintf("read %d fails", k))
			add(memnet.Faults{ReadShortAt: k}, fmt.Sprintf("read %d is short", k))
		}
		for k := 1; k <= 48; k++ {
			add(memnet.Faults{WriteErrAt: k}, fmt.Sprintf("write %d fails", k))
			add(memnet.Faults{WriteErrAt: k, WriteShort: true}, fmt.Sprintf("write %d is short then fails", k))
		}
		n := len(s.stream())
		step := 3
		if tier == "thorough" {
			step = 1
		}
		for b := 1; b < n; b += step {
			add(memnet.Faults{FailAfterRead: b}, fmt.Sprintf("after %d bytes everything fails", b))
		}
		// the same with the input arriving byte by byte: the server cannot read ahead, so the failure strikes exactly
		// when it has consumed b bytes (delivered in one piece, the whole session is read before the first reply and
		// every position degenerates into "the first write fails")
		addSlow := func(f memnet.Faults, name string) {
			emit(explore.Case{Family: "transport-fault", Size: 2,
				Desc: func() any { return map[string]any{"session": s.Name, "fault": name, "delivery": "byte by byte"} },
				Run:  func() explore.Result { return c04RunFault(s, f, name+" (input arriving byte by byte)", 1) }})
		}
		for b := 1; b <= n; b += step {
			addSlow(memnet.Faults{ReadErrAt: b + 1, Timeout: true}, fmt.Sprintf("after %d bytes reads fail with a timeout error (an expired deadline: every later read fails the same way)", b))
			addSlow(memnet.Faults{FailAfterRead: b}, fmt.Sprintf("after %d bytes reads and writes fail", b))
			addSlow(memnet.Faults{ReadErrAt: b + 1}, fmt.Sprintf("after %d bytes reads fail (writes still succeed)", b))
		}
	}
	// 7. the documented helpers on client-controlled text: a short query naming a huge positional index
	for _, idx := range []string{"$65536", "$70000", "$1000000", "$20000000", "$99999999", "$4294967296", "$9223372036854775807", "$99999999999999999999"} {
		for _, via := range []string{"Query", "Parse"} {
			idx, via := idx, via
			emit(explore.Case{Family: "helper-amplification", Size: 2, Desc: func() any { return map[string]any{"query": "select $1 " + idx, "via": via} },
				Run: func() explore.Result {
					var res explore.Result
					res.Outcome = "helper-amplification"
					res.Key = "amplify " + idx + via
					q := "select $1 " + idx
					msgs := pgproto.Query(q)
					if via == "Parse" {
						msgs = pgproto.Cat(pgproto.Parse("s", q), pgproto.Describe('S', "s"), pgproto.Sync())
					}
					o := c04Run(false, c04Feed{Stream: pgproto.Cat(pgproto.Startup("user", "u"), msgs, pgproto.Query(progRows))}, true)
					what := fmt.Sprintf("%s %q (the handler calls ParseParameters on it as documented)", via, q)
					if !c04Common(&res, o, what) {
						return res
					}
					if o.alloc > 64<<20 {
						res.Fail("memory-balloon", fmt.Sprintf("%s: %d bytes were allocated while serving a %d-byte message: an allocation is sized by a number the client merely named", what, o.alloc, len(msgs)))
					}
					res.Trans = []string{"serving|" + via + " with a huge index|closed"}
					return res
				}})
		}
	}
	// 6. a stalled client
	for _, nb := range c04StalledStates() {
		nb := nb
		emit(explore.Case{Family: "stalled-client", Size: 4, Desc: func() any { return map[string]any{"stalled_in_state": nb.Name} },
			Run: func() explore.Result { return c04RunStalled(nb, false) }})
	}
	// 5. repetition
	for _, u := range c04Units() {
		for _, n := range c04Reps(tier) {
			u, n := u, n
			emit(explore.Case{Family: "repetition", Size: n, Desc: func() any { return map[string]any{"unit": u.Name, "times": n} },
				Run: func() explore.Result { return c04RunRepeat(u, n) }})
		}
	}
	// 4. raw byte strings
	alphabet := []byte{0x00, 0x01, 0x04, 0x08, 0x7F, 0x80, 0xFF, 'Q', 'p'}
	forShapes(len(alphabet), c04RawLen(tier), func(sh []int) {
		raw := make([]byte, len(sh))
		for i, s := range sh {
			raw[i] = alphabet[s]
		}
		emit(explore.Case{Family: "raw-bytes", Size: len(raw), Desc: func() any { return fmt.Sprintf("fresh connection: % x", raw) },
			Run: func() explore.Result { return c04RunRaw(raw, false) }})
		if len(raw) <= c04RawLen(tier)-1 && len(raw) > 0 {
			emit(explore.Case{Family: "raw-bytes", Size: len(raw), Desc: func() any { return fmt.Sprintf("after startup: % x", raw) },
				Run: func() explore.Result { return c04RunRaw(raw, true) }})
		}
	})
}
