package props

import (
	"errors"
	"fmt"
	"strconv"
	"strings"

	"github.com/jeroenrinzema/psql-wire/codes"
	psqlerr "github.com/jeroenrinzema/psql-wire/errors"
)

// decorator letters used by C17 / C02: each is applied to the error built so
// far, so the LAST letter of a shape is the outermost decoration.
type decorator struct {
	name  string
	kind  byte // c s h d f n w
	apply func(error) error
	// expected field values (reference model, independent of errors.Flatten)
	val                  string
	file, line, function string
	emptyOK              bool // an empty part may be sent as an empty field or omitted
}

var srcLines = []int32{0, 1, 42, 2147483647, -1}

func decorators() []decorator {
	ds := []decorator{
		{name: "code(23505)", kind: 'c', val: "23505", apply: func(e error) error { return psqlerr.WithCode(e, codes.UniqueViolation) }},
		{name: "code(XX000)", kind: 'c', val: "XX000", apply: func(e error) error { return psqlerr.WithCode(e, codes.Internal) }},
		{name: "sev(FATAL)", kind: 's', val: "FATAL", apply: func(e error) error { return psqlerr.WithSeverity(e, psqlerr.LevelFatal) }},
		{name: "sev(WARNING)", kind: 's', val: "WARNING", apply: func(e error) error { return psqlerr.WithSeverity(e, psqlerr.LevelWarning) }},
		{name: "hint(h1)", kind: 'h', val: "h1", apply: func(e error) error { return psqlerr.WithHint(e, "h1") }},
		{name: "hint(h2 é)", kind: 'h', val: "h2 é", apply: func(e error) error { return psqlerr.WithHint(e, "h2 é") }},
		{name: "detail(d1)", kind: 'd', val: "d1", apply: func(e error) error { return psqlerr.WithDetail(e, "d1") }},
		{name: "detail(d2)", kind: 'd', val: "d2", apply: func(e error) error { return psqlerr.WithDetail(e, "d2") }},
		{name: "constraint(k1)", kind: 'n', val: "k1", apply: func(e error) error { return psqlerr.WithConstraintName(e, "k1") }},
		{name: "constraint(k2)", kind: 'n', val: "k2", apply: func(e error) error { return psqlerr.WithConstraintName(e, "k2") }},
		{name: "wrap", kind: 'w', apply: func(e error) error { return fmt.Errorf("ctx: %w", e) }},
	}
	for i, l := range srcLines {
		l := l
		file, fn := fmt.Sprintf("f%d.go", i), fmt.Sprintf("fn%d", i)
		ds = append(ds, decorator{name: fmt.Sprintf("source(%s,%d,%s)", file, l, fn), kind: 'f',
			file: file, line: strconv.Itoa(int(l)), function: fn,
			apply: func(e error) error { return psqlerr.WithSource(e, file, l, fn) }})
	}
	// decorations whose value equals the default / is empty: the OUTERMOST decoration still wins
	// (an outer ERROR over an inner FATAL is ERROR; an outer "uncategorised" over an inner code is uncategorised;
	// an outer empty hint / detail / constraint hides the inner one: absent or empty, never the inner value)
	ds = append(ds,
		decorator{name: "sev(ERROR)", kind: 's', val: "ERROR", apply: func(e error) error { return psqlerr.WithSeverity(e, psqlerr.LevelError) }},
		decorator{name: "code(XXUUU)", kind: 'c', val: string(codes.Uncategorized), apply: func(e error) error { return psqlerr.WithCode(e, codes.Uncategorized) }},
		decorator{name: "hint(\"\")", kind: 'h', val: optionalEmpty, apply: func(e error) error { return psqlerr.WithHint(e, "") }},
		decorator{name: "detail(\"\")", kind: 'd', val: optionalEmpty, apply: func(e error) error { return psqlerr.WithDetail(e, "") }},
	)
	// text that would mean something to a formatter, and a second function at a (file, line) used before
	ds = append(ds,
		decorator{name: "hint(97% full %s)", kind: 'h', val: "97% full %s", apply: func(e error) error { return psqlerr.WithHint(e, "97% full %s") }},
		decorator{name: "detail(like '%d_%' 100%)", kind: 'd', val: "like '%d_%' 100%", apply: func(e error) error { return psqlerr.WithDetail(e, "like '%d_%' 100%") }},
		decorator{name: fmt.Sprintf("source(f0.go,%d,otherFn)", srcLines[0]), kind: 'f', file: "f0.go", line: strconv.Itoa(int(srcLines[0])), function: "otherFn",
			apply: func(e error) error { return psqlerr.WithSource(e, "f0.go", srcLines[0], "otherFn") }},
	)
	// decorations with an empty part: whether an empty value counts as "set" is not asserted
	// (tolerant expectations), but the message must stay well-formed
	ds = append(ds,
		decorator{name: "source(f.go,7,\"\")", kind: 'f', file: "f.go", line: "7", function: "", emptyOK: true,
			apply: func(e error) error { return psqlerr.WithSource(e, "f.go", 7, "") }},
		decorator{name: "source(\"\",7,fn)", kind: 'f', file: "", line: "7", function: "fn", emptyOK: true,
			apply: func(e error) error { return psqlerr.WithSource(e, "", 7, "fn") }},
		// a location whose three parts are all zero: nothing else (an inner location, a location made up by the
		// library) may be reported in its place
		decorator{name: "source(\"\",0,\"\")", kind: 'f', file: "", line: optionalZero, function: "", emptyOK: true,
			apply: func(e error) error { return psqlerr.WithSource(e, "", 0, "") }})
	return ds
}

var errBases = []string{"boom", "é x", strings.Repeat("long message ", 16), "", "100% %s %d %!v(MISSING)", "line one\nline two\n\tthird"}

// buildErr applies the shape (indices into decorators()) to a base error.
func buildErr(ds []decorator, base string, shape []int) error {
	err := errors.New(base)
	for _, i := range shape {
		err = ds[i].apply(err)
	}
	return err
}

// expectFields is the reference model: walk the shape outermost-first, the
// first decoration of each kind wins; wraps only change the message.
func expectFields(ds []decorator, base string, shape []int) map[byte]string {
	f := map[byte]string{'S': "ERROR", 'C': string(codes.Uncategorized)}
	seen := map[byte]bool{}
	wraps := 0
	for i := len(shape) - 1; i >= 0; i-- {
		d := ds[shape[i]]
		if d.kind == 'w' {
			wraps++
			continue
		}
		if seen[d.kind] {
			continue
		}
		seen[d.kind] = true
		switch d.kind {
		case 'c':
			f['C'] = d.val
		case 's':
			f['S'] = d.val
		case 'h':
			f['H'] = d.val
		case 'd':
			f['D'] = d.val
		case 'n':
			f['n'] = d.val
		case 'f':
			f['F'], f['L'], f['R'] = d.file, d.line, d.function
			if d.emptyOK {
				if d.file == "" {
					f['F'] = optionalEmpty
				}
				if d.function == "" {
					f['R'] = optionalEmpty
				}
			}
		}
	}
	f['M'] = strings.Repeat("ctx: ", wraps) + base
	return f
}

// optionalEmpty marks a field whose value is empty: present-and-empty or absent are both accepted.
const optionalEmpty = "\x00optional-empty"

// optionalZero marks a line field that is absent, empty or "0".
const optionalZero = "\x00optional-zero"

func shapeNames(ds []decorator, shape []int) []string {
	out := make([]string, len(shape))
	for i, s := range shape {
		out[i] = ds[s].name
	}
	return out
}

// forShapes enumerates all shapes of length 0..depth over n letters.
func forShapes(n, depth int, f func(shape []int)) {
	var rec func(cur []int)
	rec = func(cur []int) {
		f(cur)
		if len(cur) == depth {
			return
		}
		for i := 0; i < n; i++ {
			rec(append(cur, i))
		}
	}
	rec(make([]int, 0, depth))
}

func diffFields(want, got map[byte]string) string {
	var out []string
	for _, k := range []byte("SCMHDFLRn") {
		w, hw := want[k]
		g, hg := got[k]
		if w == optionalZero {
			if hg && g != "" && g != "0" {
				out = append(out, fmt.Sprintf("field %c: expected 0, empty or absent, got %q", k, g))
			}
			continue
		}
		if w == optionalEmpty {
			if hg && g != "" {
				out = append(out, fmt.Sprintf("field %c: expected empty or absent, got %q", k, g))
			}
			continue
		}
		switch {
		case hw && !hg:
			out = append(out, fmt.Sprintf("field %c: expected %q, absent", k, w))
		case !hw && hg:
			out = append(out, fmt.Sprintf("field %c: expected absent, got %q", k, g))
		case hw && hg && w != g:
			out = append(out, fmt.Sprintf("field %c: expected %q, got %q", k, w, g))
		}
	}
	for k := range got {
		if !strings.ContainsRune("SCMHDFLRn", rune(k)) {
			out = append(out, fmt.Sprintf("unexpected field %c=%q", k, got[k]))
		}
	}
	return strings.Join(out, "; ")
}
