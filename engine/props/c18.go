package props

import (
	"bytes"
	"context"
	"crypto/tls"
	"errors"
	"fmt"
	"io"
	"sort"
	"strings"
	"time"

	wire "github.com/jeroenrinzema/psql-wire"
	"verif/engine/explore"
	"verif/engine/harness"
	"verif/engine/memnet"
	"verif/engine/pgproto"
)

// C18 — Data handed to callbacks is never overwritten by later traffic.

const c18Limit = 8192

type c18Letter struct {
	Name  string
	Bytes []byte
}

func filler(n int, seed byte) []byte {
	b := make([]byte, n)
	for i := range b {
		b[i] = 'A' + (seed+byte(i))%23
	}
	return b
}

// queryOfBody builds a Query message whose BODY is exactly n bytes (text + NUL).
func queryOfBody(n int, seed byte) []byte {
	if n == 0 {
		return pgproto.Sync() // the only well-formed message with an empty body
	}
	return pgproto.Msg('Q', append(filler(n-1, seed), 0))
}

// c18Letters: the later traffic for a given message limit. Sizes sit around the 4 KiB allocation
// granule and around the limit; with a limit below the granule an oversized message can be
// discarded into the spare capacity of the live chunk, which is its own hazard.
func c18Letters(limit int) []c18Letter {
	var ls []c18Letter
	sizes := []int{0, 1, 100, 4090, 4095, 4096, 4097, 8191, 8192}
	over := []int{8193, 20000}
	copyA, copyB := []int{4096, 8192, 1}, []int{100, 9000, 4000}
	bindA, bindB := []int{4096}, []int{8000, 100}
	if limit == 1024 {
		sizes = []int{0, 1, 100, 1000, 1023, 1024}
		over = []int{1025, 1500, 3000, 6000}
		copyA, copyB = []int{1024, 512, 1}, []int{100, 1500, 1000}
		bindA, bindB = []int{900}, []int{500, 100}
	}
	for i, n := range sizes {
		name := fmt.Sprintf("Query(body=%d)", n)
		if n == 0 {
			name = "Sync(body=0)"
		}
		ls = append(ls, c18Letter{name, queryOfBody(n, byte(i))})
	}
	for i, n := range over {
		ls = append(ls, c18Letter{fmt.Sprintf("Oversized(body=%d)", n), pgproto.Msg('Q', filler(n, byte(40+i)))})
	}
	burst := func(sz []int, seed byte) []byte {
		b := pgproto.Query("cp")
		for i, n := range sz {
			b = append(b, pgproto.CopyData(filler(n, seed+byte(i)))...)
		}
		return append(b, pgproto.CopyDone()...)
	}
	batch := func(sz []int, seed byte) []byte {
		var vals [][]byte
		for i, n := range sz {
			vals = append(vals, filler(n, seed+byte(i)))
		}
		return pgproto.Cat(pgproto.Parse("t", "later"), pgproto.Bind("t", "t", nil, vals, nil), pgproto.Execute("t", 0), pgproto.Sync())
	}
	ls = append(ls,
		c18Letter{"a prepared statement whose first execution fails, bound and executed again with other values", pgproto.Cat(pgproto.Parse("g", "later-fail once"), pgproto.Bind("g1", "g", nil, [][]byte{filler(30, 61), filler(9, 62)}, nil), pgproto.Execute("g1", 0), pgproto.Sync(),
			pgproto.Bind("g2", "g", nil, [][]byte{filler(30, 63), filler(9, 64)}, nil), pgproto.Execute("g2", 0), pgproto.Sync(), pgproto.Bind("g3", "g", nil, [][]byte{filler(12, 65)}, nil), pgproto.Execute("g3", 0), pgproto.Sync())},
		c18Letter{"failing Execute, then discarded Flush/Close/Flush, Sync", pgproto.Cat(pgproto.Parse("f", "later-fail A"), pgproto.Bind("f", "f", nil, [][]byte{filler(40, 60)}, nil), pgproto.Execute("f", 0), pgproto.Flush(), pgproto.Close('P', "nothing"), pgproto.Flush(), pgproto.Sync())},
		c18Letter{"failing COPY query, pipelined CopyDone + stray Sync", pgproto.Cat(pgproto.Query("cp-fail"), pgproto.CopyDone(), pgproto.Sync(), pgproto.CopyDone())},
		c18Letter{fmt.Sprintf("COPY%v", copyA), burst(copyA, 50)},
		c18Letter{fmt.Sprintf("COPY%v", copyB), burst(copyB, 53)},
		c18Letter{fmt.Sprintf("Parse+Bind%v+Execute+Sync", bindA), batch(bindA, 56)},
		c18Letter{fmt.Sprintf("Parse+Bind%v+Execute+Sync", bindB), batch(bindB, 57)},
		// a Parse the parser refuses (its text is retained all the same), followed by discarded messages
		c18Letter{"rejected Parse+Describe+Bind+Execute+Sync", pgproto.Cat(pgproto.Parse("r", "reject this text, keep it "+string(filler(40, 65))), pgproto.Describe('S', "r"), pgproto.Bind("", "r", nil, [][]byte{filler(30, 66)}, nil), pgproto.Execute("", 0), pgproto.Sync())},
		// the unnamed statement / portal bound again and again (1 or 2 values)
		c18Letter{"unnamed Parse+Bind[20]+Execute+Sync", pgproto.Cat(pgproto.Parse("", "later"), pgproto.Bind("", "", nil, [][]byte{filler(20, 62)}, nil), pgproto.Execute("", 0), pgproto.Sync())},
		c18Letter{"unnamed Parse+Bind[30 10]+Execute+Sync", pgproto.Cat(pgproto.Parse("", "later"), pgproto.Bind("", "", nil, [][]byte{filler(30, 63), filler(10, 64)}, nil), pgproto.Execute("", 0), pgproto.Sync())},
		// the names whose values were retained are released / replaced: what was handed out stays untouched
		c18Letter{"Close(portal keep)+Sync", pgproto.Cat(pgproto.Close('P', "keep"), pgproto.Sync())},
		c18Letter{"Close(statement keep)+Sync", pgproto.Cat(pgproto.Close('S', "keep"), pgproto.Sync())},
		c18Letter{"Close(portal t)+Close(statement t)+Sync", pgproto.Cat(pgproto.Close('P', "t"), pgproto.Close('S', "t"), pgproto.Sync())},
		c18Letter{"Parse+Bind replacing statement / portal keep", pgproto.Cat(pgproto.Parse("keep", "later"), pgproto.Bind("keep", "keep", nil, [][]byte{filler(24, 61)}, nil), pgproto.Sync())},
	)
	return ls
}

type c18Kept struct {
	what    string
	s       *string
	b       []byte
	m       wire.Parameters
	ps      []wire.Parameter // the parameter list itself as handed to a statement function
	clonePs [][]byte
	cloneS  string
	cloneB  []byte
	cloneM  [][2]string
}

type c18State struct {
	kept       []*c18Kept
	failedOnce bool
}

func (st *c18State) keepString(what string, s string) {
	p := new(string)
	*p = s // shares the bytes with the library's buffer (no copy)
	st.kept = append(st.kept, &c18Kept{what: what, s: p, cloneS: strings.Clone(s)})
}

func (st *c18State) keepBytes(what string, b []byte) {
	st.kept = append(st.kept, &c18Kept{what: what, b: b, cloneB: bytes.Clone(b)})
}

func (st *c18State) keepParams(what string, ps []wire.Parameter) {
	k := &c18Kept{what: what, ps: ps}
	for _, p := range ps {
		k.clonePs = append(k.clonePs, bytes.Clone(p.Value()))
	}
	st.kept = append(st.kept, k)
}

func (st *c18State) keepMap(what string, m wire.Parameters) {
	k := &c18Kept{what: what, m: m}
	for key, v := range m {
		k.cloneM = append(k.cloneM, [2]string{strings.Clone(string(key)), strings.Clone(v)})
	}
	sort.Slice(k.cloneM, func(i, j int) bool { return k.cloneM[i][0] < k.cloneM[j][0] })
	st.kept = append(st.kept, k)
}

func (st *c18State) check() string {
	for _, k := range st.kept {
		switch {
		case k.ps != nil:
			for i, p := range k.ps {
				if !bytes.Equal(p.Value(), k.clonePs[i]) {
					return fmt.Sprintf("%s: entry %d of the parameter list changed from %q to %q", k.what, i, clip(string(k.clonePs[i])), clip(string(p.Value())))
				}
			}
		case k.s != nil:
			if *k.s != k.cloneS {
				return fmt.Sprintf("%s changed from %q to %q", k.what, clip(k.cloneS), clip(*k.s))
			}
		case k.m != nil:
			var now [][2]string
			for key, v := range k.m {
				now = append(now, [2]string{string(key), v})
			}
			sort.Slice(now, func(i, j int) bool { return now[i][0] < now[j][0] })
			if fmt.Sprint(now) != fmt.Sprint(k.cloneM) {
				return fmt.Sprintf("%s changed from %v to %v", k.what, k.cloneM, now)
			}
		default:
			if !bytes.Equal(k.b, k.cloneB) {
				return fmt.Sprintf("%s changed from %q to %q", k.what, clip(string(k.cloneB)), clip(string(k.b)))
			}
		}
	}
	return ""
}

func clip(s string) string {
	if len(s) > 48 {
		return s[:48] + "…"
	}
	return s
}

func c18Run(limit int, hist []c18Letter) explore.Result {
	var res explore.Result
	st := &c18State{}
	var reexec []string
	parse := func(ctx context.Context, q string) (wire.PreparedStatements, error) {
		if q == "cp" {
			return wire.Prepared(wire.NewStatement(func(ctx context.Context, w wire.DataWriter, p []wire.Parameter) error {
				cr, err := w.CopyIn(wire.TextFormat)
				if err != nil {
					return err
				}
				for {
					err := cr.Read()
					if err == io.EOF {
						return w.Complete("COPY")
					}
					if err != nil {
						return err
					}
				}
			}, wire.WithColumns(wire.Columns{{Name: "a", Oid: 25}}))), nil
		}
		// everything handed to callbacks is retained: the first phase and the later traffic alike
		keep := true
		st.keepString("query text "+clip(q), q)
		if strings.HasPrefix(q, "first-") {
			st.keepMap("client parameters (parser)", wire.ClientParameters(ctx))
		}
		if strings.HasPrefix(q, "reject") {
			// the parser refuses the text but keeps it (audit log, negative parse cache): retained like any other
			return nil, errors.New("parser refuses this text")
		}
		if q == "cp-fail" {
			st.keepString("query text cp-fail", q)
			return wire.Prepared(wire.NewStatement(func(ctx context.Context, w wire.DataWriter, p []wire.Parameter) error {
				return errors.New("the COPY statement fails before it starts copying")
			}, wire.WithColumns(wire.Columns{{Name: "a", Oid: 25}}))), nil
		}
		return wire.Prepared(wire.NewStatement(func(ctx context.Context, w wire.DataWriter, params []wire.Parameter) error {
			if strings.HasPrefix(q, "later-fail") {
				for i, p := range params {
					st.keepBytes(fmt.Sprintf("bind parameter %d of %s", i, clip(q)), p.Value())
				}
				if len(params) > 0 {
					st.keepParams("parameter list of the failed "+clip(q), params)
				}
				if strings.HasSuffix(q, "once") && !st.failedOnce {
					st.failedOnce = true
				} else if strings.HasSuffix(q, "once") {
					return w.Complete("OK") // (the same prepared statement succeeds when it is bound and executed again)
				}
				return errors.New("statement fails inside the callback")
			}
			if keep && q == "first-parse" {
				reexec = reexec[:0]
				for _, p := range params {
					reexec = append(reexec, string(p.Value()))
				}
			}
			for i, p := range params {
				st.keepBytes(fmt.Sprintf("bind parameter %d of %s", i, clip(q)), p.Value())
			}
			if len(params) > 0 {
				st.keepParams("parameter list of "+clip(q), params)
			}
			return w.Complete("OK")
		})), nil
	}
	validate := func(ctx context.Context, db, user, pw string) (context.Context, bool, error) {
		st.keepString("password", pw)
		st.keepString("username", user)
		st.keepString("database", db)
		st.keepMap("client parameters (validator)", wire.ClientParameters(ctx))
		return ctx, true, nil
	}
	one, err := harness.StartOne(parse, wire.MessageBufferSize(limit), wire.SessionAuthStrategy(wire.ClearTextPassword(validate)))
	if err != nil {
		res.Engine = err.Error()
		return res
	}
	defer one.Stop()
	p1, p2 := []byte("param-one-value"), filler(300, 9)
	one.Step(pgproto.Startup("user", "alice", "database", "db1", "application_name", "retention-check"))
	out, _ := one.Step(pgproto.Password("s3cret-password"))
	if !strings.HasSuffix(harness.Kinds(out), "Z") {
		res.Engine = "startup failed: " + harness.Kinds(out)
		return res
	}
	out, _ = one.Step(pgproto.Query("first-query"))
	out2, _ := one.Step(pgproto.Cat(pgproto.Parse("keep", "first-parse"), pgproto.Bind("keep", "keep", nil, [][]byte{p1, p2}, nil), pgproto.Execute("keep", 0), pgproto.Sync()))
	if harness.Kinds(out) != "CZ" || harness.Kinds(out2) != "12CZ" {
		res.Engine = "first phase failed: " + harness.Kinds(out) + " / " + harness.Kinds(out2)
		return res
	}
	nKept := len(st.kept)
	if nKept < 9 {
		res.Engine = fmt.Sprintf("first phase retained only %d values", nKept)
		return res
	}
	if d := st.check(); d != "" {
		res.Fail("retained-data-overwritten", "already after the first phase: "+d)
		return res
	}
	for i, l := range hist {
		_, s := one.Step(l.Bytes)
		if s != memnet.Parked {
			res.Fail("connection-dropped", fmt.Sprintf("step %d %s: connection %s", i, l.Name, s))
			return res
		}
		if d := st.check(); d != "" {
			res.Fail("retained-data-overwritten", fmt.Sprintf("after step %d %s of %v: %s", i, l.Name, c18Names(hist), d))
			return res
		}
	}
	// parameters held inside the portal: re-execute it
	out, _ = one.Step(pgproto.Cat(pgproto.Execute("keep", 0), pgproto.Sync()))
	if k := harness.Kinds(out); k == "CZ" {
		if len(reexec) != 2 || reexec[0] != string(p1) || reexec[1] != string(p2) {
			res.Fail("portal-parameters-overwritten", fmt.Sprintf("re-executing the portal after %v delivered parameters %q", c18Names(hist), reexec))
		}
	} else if k != "EZ" { // portals may be dropped at cycle end (not asserted)
		res.Fail("portal-reexecute", "re-executing the portal answered "+k)
	}
	if d := st.check(); d != "" {
		res.Fail("retained-data-overwritten", "at the end: "+d)
	}
	// "for as long as the holder retains them": also after the connection has gone and another client is served
	if len(res.Violations) == 0 {
		nKeptNow := len(st.kept)
		one.End()
		if d := st.check(); d != "" {
			res.Fail("retained-data-overwritten", "after the connection ended: "+d)
		}
		c2 := one.Server.Connect()
		c2.Step(pgproto.Startup("user", "bob", "database", "db2", "application_name", "another-client", "extra", "x"))
		c2.Step(pgproto.Password("another-password"))
		c2.Step(pgproto.Query("first-query"))
		c2.Step(pgproto.Cat(pgproto.Parse("keep", "first-parse"), pgproto.Bind("keep", "keep", nil, [][]byte{[]byte("other-param-value"), filler(300, 33)}, nil), pgproto.Execute("keep", 0), pgproto.Sync()))
		kept := st.kept
		st.kept = kept[:nKeptNow] // (judge what the FIRST connection handed out)
		if d := st.check(); d != "" && len(res.Violations) == 0 {
			res.Fail("retained-data-overwritten", "after the connection ended and another client was served by the same server: "+d)
		}
		st.kept = kept
	}
	res.Outcome = "retained"
	res.Key = fmt.Sprint(limit, c18Names(hist))
	state := fmt.Sprintf("first-phase/L=%d", limit)
	for _, l := range hist {
		cls := strings.SplitN(l.Name, "(", 2)[0]
		res.Trans = append(res.Trans, state+"|"+l.Name+"|after-"+cls)
		state = "after-" + cls
	}
	return res
}

// c18RunRejected: what a validator was handed for logins it REJECTED (and for connections that broke off during the
// start-up) is retained like everything else; then further connections arrive on the same server.
func c18RunRejected(first []string, later int) explore.Result {
	var res explore.Result
	res.Outcome = "retained"
	res.Key = fmt.Sprint("rejected", first, later)
	st := &c18State{}
	parse := func(ctx context.Context, q string) (wire.PreparedStatements, error) {
		return wire.Prepared(wire.NewStatement(func(ctx context.Context, w wire.DataWriter, params []wire.Parameter) error { return w.Complete("OK") })), nil
	}
	mine := 0
	validate := func(ctx context.Context, db, user, pw string) (context.Context, bool, error) {
		if strings.HasPrefix(user, "first-") {
			st.keepString("password of "+user, pw)
			st.keepString("username "+user, user)
			st.keepString("database of "+user, db)
			st.keepMap("client parameters of "+user, wire.ClientParameters(ctx))
			mine++
		}
		return ctx, pw == "the-good-password-0123456789", nil
	}
	srv, err := harness.NewServer(parse, wire.SessionAuthStrategy(wire.ClearTextPassword(validate)))
	if err != nil {
		res.Engine = err.Error()
		return res
	}
	defer srv.Stop()
	for i, how := range first {
		c := srv.Connect()
		user := fmt.Sprintf("first-%d-mallory-the-intruder", i)
		c.Step(pgproto.Startup("user", user, "database", "database-of-the-first-connection", "application_name", "retention-check"))
		switch how {
		case "rejected":
			c.Step(pgproto.Password("guessed-password-0001"))
		case "accepted, then a query":
			c.Step(pgproto.Password("the-good-password-0123456789"))
			c.Step(pgproto.Query("select 1"))
		case "rejected with a pipelined query":
			c.Step(pgproto.Cat(pgproto.Password("guessed-password-0002"), pgproto.Query("select 2")))
		}
		c.End()
		if d := st.check(); d != "" {
			res.Fail("retained-data-overwritten", fmt.Sprintf("connection %d (%s) has ended: %s", i+1, how, d))
			return res
		}
	}
	for i := 0; i < later; i++ {
		c := srv.Connect()
		c.Step(pgproto.Startup("user", "alice", "database", "postgres", "application_name", strings.Repeat("z", 20+7*i)))
		c.Step(pgproto.Password("correct-horse-battery-staple"))
		c.Step(pgproto.Password("the-good-password-0123456789"))
		c.Step(pgproto.Query("SELECT " + strings.Repeat("q", 30+11*i)))
		if d := st.check(); d != "" {
			res.Fail("retained-data-overwritten", fmt.Sprintf("logins %v (what the validator was handed is retained), then connection %d of %d later ones: %s", first, i+1, later, d))
			return res
		}
		if i%2 == 0 {
			c.End()
		}
	}
	res.Trans = []string{"validator retains|later connections|unchanged"}
	return res
}

// c18RunAfterTLS: a server with certificates; `upgrades` clients upgrade to TLS (handshake completed) and leave, then
// plaintext connections follow one after the other, all still connected: what the parser of each was handed (query
// text, client parameters) is retained and compared after every later connection's traffic.
func c18RunAfterTLS(upgrades, later int) explore.Result {
	var res explore.Result
	res.Outcome = "retained"
	res.Key = fmt.Sprint("after-tls", upgrades, later)
	st := &c18State{}
	parse := func(ctx context.Context, q string) (wire.PreparedStatements, error) {
		st.keepString("query text "+clip(q), q)
		st.keepMap("client parameters seen by the parser of "+clip(q), wire.ClientParameters(ctx))
		return wire.Prepared(wire.NewStatement(func(ctx context.Context, w wire.DataWriter, params []wire.Parameter) error { return w.Complete("OK") })), nil
	}
	srv, err := harness.NewServer(parse, wire.TLSConfig(&tls.Config{Certificates: []tls.Certificate{c11Certificate()}}))
	if err != nil {
		res.Engine = err.Error()
		return res
	}
	defer srv.Stop()
	for i := 0; i < upgrades; i++ {
		c := srv.Connect()
		if out, _ := c.Step(pgproto.SSLRequest()); string(out) != "S" {
			res.Engine = fmt.Sprintf("SSLRequest answered % x", out)
			return res
		}
		ce := memnet.NewClientEnd(c.C)
		tc := tls.Client(ce, &tls.Config{InsecureSkipVerify: true, ServerName: "verif"})
		hs := make(chan error, 1)
		go func() { hs <- tc.Handshake() }()
		select {
		case err := <-hs:
			if err != nil {
				res.Engine = "TLS handshake failed: " + err.Error()
				return res
			}
		case <-time.After(memnet.Watchdog):
			res.Poison = true
			res.Engine = "TLS handshake stalled"
			return res
		}
		ce.Close()
	}
	for i := 0; i < later; i++ {
		c := srv.Connect()
		fill := string(bytes.Repeat([]byte{byte('a' + i)}, 20+13*i))
		out, _ := c.Step(pgproto.Startup("user", "user-"+fill, "database", "db-"+fill, "application_name", "app-"+fill))
		if !strings.HasSuffix(harness.Kinds(out), "Z") {
			res.Fail("not-served", fmt.Sprintf("plaintext connection %d after %d TLS upgrades: start-up answered %q", i+1, upgrades, harness.Kinds(out)))
			return res
		}
		c.Step(pgproto.Query("SELECT '" + fill + "' -- connection " + fmt.Sprint(i)))
		c.Step(pgproto.Query("SELECT 2 -- " + fill))
		if d := st.check(); d != "" {
			res.Fail("retained-data-overwritten", fmt.Sprintf("%d TLS upgrades, then plaintext connection %d of %d (all still connected): %s", upgrades, i+1, later, d))
			return res
		}
	}
	res.Trans = []string{"tls upgrades|plaintext connections|unchanged"}
	return res
}

// c18RunBetweenOversized: under a small message limit an oversized message is skipped, ordinary queries follow (their
// texts are retained), a second and third oversized message are skipped: wherever in the reader's 4 KiB block all of
// this falls (a filler query of `fill` bytes comes first), the retained texts keep their content.
func c18RunBetweenOversized(limit, fill, between int) explore.Result {
	var res explore.Result
	res.Outcome = "retained"
	res.Key = fmt.Sprint("between-oversized", limit, fill, between)
	st := &c18State{}
	parse := func(ctx context.Context, q string) (wire.PreparedStatements, error) {
		st.keepString("query text "+clip(q), q)
		return wire.Prepared(wire.NewStatement(func(ctx context.Context, w wire.DataWriter, params []wire.Parameter) error { return w.Complete("OK") })), nil
	}
	one, err := harness.StartOne(parse, wire.MessageBufferSize(limit))
	if err != nil {
		res.Engine = err.Error()
		return res
	}
	defer one.Stop()
	one.Step(pgproto.Startup("user", "u"))
	for n := fill; n > 0; n -= limit - 40 {
		one.Step(pgproto.Query("filler " + strings.Repeat("f", min(n, limit-40))))
	}
	over := pgproto.Query("SELECT '" + strings.Repeat("#", limit+90) + "'")
	for round := 0; round < 3; round++ {
		one.Step(over)
		for i := 0; i < between; i++ {
			// (texts of about the limit's size and of three fifths of it: together more than the limit)
			one.Step(pgproto.Query(fmt.Sprintf("retained text %d of round %d %s", i, round, strings.Repeat("r", []int{limit - 70, limit * 3 / 5, 20}[i%3]))))
		}
		if d := st.check(); d != "" {
			res.Fail("retained-data-overwritten", fmt.Sprintf("limit %d, %d bytes of earlier queries, then rounds of (an oversized message, %d queries): in round %d %s", limit, fill, between, round+1, d))
			return res
		}
	}
	return res
}

// c18RunUnterminated: a Query whose text lacks its terminator. If the server hands such a text to the parser at all,
// the text is retained like any other while the following messages arrive.
func c18RunUnterminated(n int, followers int) explore.Result {
	var res explore.Result
	res.Outcome = "retained"
	res.Key = fmt.Sprint("unterminated", n, followers)
	st := &c18State{}
	parse := func(ctx context.Context, q string) (wire.PreparedStatements, error) {
		st.keepString("query text "+clip(q), q)
		return wire.Prepared(wire.NewStatement(func(ctx context.Context, w wire.DataWriter, params []wire.Parameter) error { return w.Complete("OK") })), nil
	}
	one, err := harness.StartOne(parse)
	if err != nil {
		res.Engine = err.Error()
		return res
	}
	defer one.Stop()
	one.Step(pgproto.Startup("user", "u"))
	one.Step(pgproto.Query("terminated text " + strings.Repeat("t", n)))
	_, stt := one.Step(pgproto.Msg('Q', []byte("INSERT unterminated text "+strings.Repeat("u", n))))
	for i := 0; i < followers && stt == memnet.Parked; i++ {
		_, stt = one.Step(pgproto.Query(fmt.Sprintf("SELECT later message %d %s", i, strings.Repeat("s", 9*i))))
		if d := st.check(); d != "" {
			res.Fail("retained-data-overwritten", fmt.Sprintf("a Query of %d bytes without its terminator, then %d further queries: %s", n+25, i+1, d))
			return res
		}
	}
	return res
}

// c18LongLetters: queries of 8 ... 70000 bytes under a 128 KiB limit: histories of these cross every allocation
// boundary a reader may use (4 KiB blocks, 64 KiB slabs), with small messages in between and behind.
func c18LongLetters() []c18Letter {
	var ls []c18Letter
	for i, n := range []int{8, 500, 3000, 4096, 30000, 70000} {
		ls = append(ls, c18Letter{fmt.Sprintf("Query(body=%d)", n), queryOfBody(n, byte(70+i))})
	}
	return ls
}

func c18Names(h []c18Letter) []string {
	out := make([]string, len(h))
	for i, l := range h {
		out[i] = l.Name
	}
	return out
}

func init() {
	explore.Register(&explore.Check{
		ID:          "C18",
		Level:       "model_checking",
		Technique:   "exhaustive enumeration of later-traffic histories over message sizes around the 4 KiB allocation granule and the message limit, on a real server whose callbacks retain (without copying) everything they were handed next to a private clone; invariant checked after every message",
		Rule:        "first phase retains startup parameters (validator + parser), database / user / password, a Query text, a Parse text and two Bind values; then every history of length <= d over 24 (limit 8192) / 23 (limit 1024, below the 4 KiB allocation granule) letters: Query bodies around the granule and the limit, oversized-and-skipped messages of several sizes, two COPY bursts (incl. an oversized CopyData), two Bind batches, two batches on the unnamed statement / portal (the parameter LIST handed to the statement function is retained as well), Close of the portals / statements whose values were retained, re-definition of those names; a third configuration (limit 128 KiB): all histories of 3-5 queries of 8 ... 70000 bytes; at the end the connection is closed and another client is served: everything retained is checked again",
		Assumptions: []string{"CopyData payload views are not retained: the statement lists query texts, parameter values, client parameters and passwords"},
		Enumerate:   c18Enumerate,
		Bounds: func(tier string) map[string]any {
			return map[string]any{"history_depth": c18Depth(tier), "letters": []int{17, 16}, "limits": []int{c18Limit, 1024}}
		},
		RequiredOutcomes: []string{"retained"},
	})
}

func c18Depth(tier string) int {
	if tier == "thorough" {
		return 5
	}
	return 3
}

func c18Enumerate(tier string, emit explore.Emit) {
	for upgrades := 0; upgrades <= 3; upgrades++ {
		for _, later := range []int{2, 3, 6} {
			upgrades, later := upgrades, later
			emit(explore.Case{Family: "retention/logins", Size: 6, Desc: func() any {
				return map[string]any{"tls_upgrades_before": upgrades, "plaintext_connections_after (all still connected)": later}
			},
				Run: func() explore.Result { return c18RunAfterTLS(upgrades, later) }})
		}
	}
	hows := []string{"rejected", "accepted, then a query", "rejected with a pipelined query"}
	forShapes(len(hows), 2, func(sh []int) {
		if len(sh) == 0 {
			return
		}
		var first []string
		for _, s := range sh {
			first = append(first, hows[s])
		}
		for _, later := range []int{1, 3, 9} {
			later := later
			emit(explore.Case{Family: "retention/logins", Size: 5, Desc: func() any { return map[string]any{"first_connections": first, "later_connections": later} },
				Run: func() explore.Result { return c18RunRejected(first, later) }})
		}
	})
	for _, limit := range []int{512, 1024, 2048} {
		for fill := 0; fill <= 4200; fill += 300 {
			for _, between := range []int{2, 3} {
				limit, fill, between := limit, fill, between
				emit(explore.Case{Family: fmt.Sprintf("retention/limit=%d", min(limit, 1024)), Size: 7, Desc: func() any {
					return map[string]any{"message_limit": limit, "bytes_of_earlier_queries": fill, "rounds_of": fmt.Sprintf("an oversized message, then %d retained queries", between)}
				},
					Run: func() explore.Result { return c18RunBetweenOversized(limit, fill, between) }})
			}
		}
	}
	for _, n := range []int{0, 40, 1000, 4000} {
		for _, f := range []int{1, 3, 8} {
			n, f := n, f
			emit(explore.Case{Family: "retention/limit=8192", Size: 6, Desc: func() any { return map[string]any{"query_without_terminator_bytes": n + 25, "queries_behind_it": f} },
				Run: func() explore.Result { return c18RunUnterminated(n, f) }})
		}
	}
	{
		letters := c18LongLetters()
		depth := 5
		if tier == "thorough" {
			depth = 6
		}
		forShapes(len(letters), depth, func(sh []int) {
			if len(sh) < 3 {
				return
			}
			hist := make([]c18Letter, len(sh))
			for i, s := range sh {
				hist[i] = letters[s]
			}
			emit(explore.Case{Family: "retention/limit=131072", Size: 10 + len(hist),
				Desc: func() any { return map[string]any{"message_limit": 1 << 17, "later_traffic": c18Names(hist)} },
				Run:  func() explore.Result { return c18Run(1<<17, hist) }})
		})
	}
	for _, limit := range []int{c18Limit, 1024} {
		limit := limit
		letters := c18Letters(limit)
		forShapes(len(letters), c18Depth(tier), func(sh []int) {
			hist := make([]c18Letter, len(sh))
			for i, s := range sh {
				hist[i] = letters[s]
			}
			emit(explore.Case{Family: fmt.Sprintf("retention/limit=%d", limit), Size: len(hist),
				Desc: func() any { return map[string]any{"message_limit": limit, "later_traffic": c18Names(hist)} },
				Run:  func() explore.Result { return c18Run(limit, hist) }})
		})
	}
}
