package props

import (
	"bytes"
	"context"
	"fmt"
	"io"
	"sort"
	"strings"

	wire "github.com/jeroenrinzema/psql-wire"
	"verif/engine/explore"
	"verif/engine/harness"
	"verif/engine/memnet"
	"verif/engine/pgproto"
)

// C18 — Data handed to callbacks is never overwritten by later traffic.

const c18Limit = 8192

type c18Letter struct {
	Name  string
	Bytes []byte
}

func filler(n int, seed byte) []byte {
	b := make([]byte, n)
	for i := range b {
		b[i] = 'A' + (seed+byte(i))%23
	}
	return b
}

// queryOfBody builds a Query message whose BODY is exactly n bytes (text + NUL).
func queryOfBody(n int, seed byte) []byte {
	if n == 0 {
		return pgproto.Sync() // the only well-formed message with an empty body
	}
	return pgproto.Msg('Q', append(filler(n-1, seed), 0))
}

func c18Letters() []c18Letter {
	var ls []c18Letter
	for i, n := range []int{0, 1, 100, 4090, 4095, 4096, 4097, 8191, 8192} {
		name := fmt.Sprintf("Query(body=%d)", n)
		if n == 0 {
			name = "Sync(body=0)"
		}
		ls = append(ls, c18Letter{name, queryOfBody(n, byte(i))})
	}
	for i, n := range []int{8193, 20000} {
		ls = append(ls, c18Letter{fmt.Sprintf("Oversized(body=%d)", n), pgproto.Msg('Q', filler(n, byte(40+i)))})
	}
	ls = append(ls,
		c18Letter{"COPY(4096,8192,1)", pgproto.Cat(pgproto.Query("cp"), pgproto.CopyData(filler(4096, 50)), pgproto.CopyData(filler(8192, 51)), pgproto.CopyData(filler(1, 52)), pgproto.CopyDone())},
		c18Letter{"COPY(100,oversized 9000,4000)", pgproto.Cat(pgproto.Query("cp"), pgproto.CopyData(filler(100, 53)), pgproto.CopyData(filler(9000, 54)), pgproto.CopyData(filler(4000, 55)), pgproto.CopyDone())},
		c18Letter{"Parse+Bind(4096)+Execute+Sync", pgproto.Cat(pgproto.Parse("t", "later"), pgproto.Bind("t", "t", nil, [][]byte{filler(4096, 56)}, nil), pgproto.Execute("t", 0), pgproto.Sync())},
		c18Letter{"Parse+Bind(8000,100)+Execute+Sync", pgproto.Cat(pgproto.Parse("t", "later"), pgproto.Bind("t", "t", nil, [][]byte{filler(8000, 57), filler(100, 58)}, nil), pgproto.Execute("t", 0), pgproto.Sync())},
	)
	return ls
}

type c18Kept struct {
	what   string
	s      *string
	b      []byte
	m      wire.Parameters
	cloneS string
	cloneB []byte
	cloneM [][2]string
}

type c18State struct {
	kept []*c18Kept
}

func (st *c18State) keepString(what string, s string) {
	p := new(string)
	*p = s // shares the bytes with the library's buffer (no copy)
	st.kept = append(st.kept, &c18Kept{what: what, s: p, cloneS: strings.Clone(s)})
}

func (st *c18State) keepBytes(what string, b []byte) {
	st.kept = append(st.kept, &c18Kept{what: what, b: b, cloneB: bytes.Clone(b)})
}

func (st *c18State) keepMap(what string, m wire.Parameters) {
	k := &c18Kept{what: what, m: m}
	for key, v := range m {
		k.cloneM = append(k.cloneM, [2]string{strings.Clone(string(key)), strings.Clone(v)})
	}
	sort.Slice(k.cloneM, func(i, j int) bool { return k.cloneM[i][0] < k.cloneM[j][0] })
	st.kept = append(st.kept, k)
}

func (st *c18State) check() string {
	for _, k := range st.kept {
		switch {
		case k.s != nil:
			if *k.s != k.cloneS {
				return fmt.Sprintf("%s changed from %q to %q", k.what, clip(k.cloneS), clip(*k.s))
			}
		case k.m != nil:
			var now [][2]string
			for key, v := range k.m {
				now = append(now, [2]string{string(key), v})
			}
			sort.Slice(now, func(i, j int) bool { return now[i][0] < now[j][0] })
			if fmt.Sprint(now) != fmt.Sprint(k.cloneM) {
				return fmt.Sprintf("%s changed from %v to %v", k.what, k.cloneM, now)
			}
		default:
			if !bytes.Equal(k.b, k.cloneB) {
				return fmt.Sprintf("%s changed from %q to %q", k.what, clip(string(k.cloneB)), clip(string(k.b)))
			}
		}
	}
	return ""
}

func clip(s string) string {
	if len(s) > 48 {
		return s[:48] + "…"
	}
	return s
}

func c18Run(hist []c18Letter) explore.Result {
	var res explore.Result
	st := &c18State{}
	var reexec []string
	parse := func(ctx context.Context, q string) (wire.PreparedStatements, error) {
		if q == "cp" {
			return wire.Prepared(wire.NewStatement(func(ctx context.Context, w wire.DataWriter, p []wire.Parameter) error {
				cr, err := w.CopyIn(wire.TextFormat)
				if err != nil {
					return err
				}
				for {
					err := cr.Read()
					if err == io.EOF {
						return w.Complete("COPY")
					}
					if err != nil {
						return err
					}
				}
			}, wire.WithColumns(wire.Columns{{Name: "a", Oid: 25}}))), nil
		}
		keep := strings.HasPrefix(q, "first-") // the later traffic is not retained, only the first phase
		if keep {
			st.keepString("query text "+clip(q), q)
			st.keepMap("client parameters (parser)", wire.ClientParameters(ctx))
		}
		return wire.Prepared(wire.NewStatement(func(ctx context.Context, w wire.DataWriter, params []wire.Parameter) error {
			if keep && q == "first-parse" {
				reexec = reexec[:0]
				for i, p := range params {
					st.keepBytes(fmt.Sprintf("bind parameter %d", i), p.Value())
					reexec = append(reexec, string(p.Value()))
				}
			}
			return w.Complete("OK")
		})), nil
	}
	validate := func(ctx context.Context, db, user, pw string) (context.Context, bool, error) {
		st.keepString("password", pw)
		st.keepString("username", user)
		st.keepString("database", db)
		st.keepMap("client parameters (validator)", wire.ClientParameters(ctx))
		return ctx, true, nil
	}
	one, err := harness.StartOne(parse, wire.MessageBufferSize(c18Limit), wire.SessionAuthStrategy(wire.ClearTextPassword(validate)))
	if err != nil {
		res.Engine = err.Error()
		return res
	}
	defer one.Stop()
	p1, p2 := []byte("param-one-value"), filler(300, 9)
	one.Step(pgproto.Startup("user", "alice", "database", "db1", "application_name", "retention-check"))
	out, _ := one.Step(pgproto.Password("s3cret-password"))
	if !strings.HasSuffix(harness.Kinds(out), "Z") {
		res.Engine = "startup failed: " + harness.Kinds(out)
		return res
	}
	out, _ = one.Step(pgproto.Query("first-query"))
	out2, _ := one.Step(pgproto.Cat(pgproto.Parse("keep", "first-parse"), pgproto.Bind("keep", "keep", nil, [][]byte{p1, p2}, nil), pgproto.Execute("keep", 0), pgproto.Sync()))
	if harness.Kinds(out) != "CZ" || harness.Kinds(out2) != "12CZ" {
		res.Engine = "first phase failed: " + harness.Kinds(out) + " / " + harness.Kinds(out2)
		return res
	}
	nKept := len(st.kept)
	if nKept < 9 {
		res.Engine = fmt.Sprintf("first phase retained only %d values", nKept)
		return res
	}
	if d := st.check(); d != "" {
		res.Fail("retained-data-overwritten", "already after the first phase: "+d)
		return res
	}
	for i, l := range hist {
		_, s := one.Step(l.Bytes)
		if s != memnet.Parked {
			res.Fail("connection-dropped", fmt.Sprintf("step %d %s: connection %s", i, l.Name, s))
			return res
		}
		if d := st.check(); d != "" {
			res.Fail("retained-data-overwritten", fmt.Sprintf("after step %d %s of %v: %s", i, l.Name, c18Names(hist), d))
			return res
		}
	}
	// parameters held inside the portal: re-execute it
	out, _ = one.Step(pgproto.Cat(pgproto.Execute("keep", 0), pgproto.Sync()))
	if k := harness.Kinds(out); k == "CZ" {
		if len(reexec) != 2 || reexec[0] != string(p1) || reexec[1] != string(p2) {
			res.Fail("portal-parameters-overwritten", fmt.Sprintf("re-executing the portal after %v delivered parameters %q", c18Names(hist), reexec))
		}
	} else if k != "EZ" { // portals may be dropped at cycle end (not asserted)
		res.Fail("portal-reexecute", "re-executing the portal answered "+k)
	}
	if d := st.check(); d != "" {
		res.Fail("retained-data-overwritten", "at the end: "+d)
	}
	res.Outcome = "retained"
	res.Key = strings.Join(c18Names(hist), ",")
	state := "first-phase"
	for _, l := range hist {
		cls := strings.SplitN(l.Name, "(", 2)[0]
		res.Trans = append(res.Trans, state+"|"+l.Name+"|after-"+cls)
		state = "after-" + cls
	}
	return res
}

func c18Names(h []c18Letter) []string {
	out := make([]string, len(h))
	for i, l := range h {
		out[i] = l.Name
	}
	return out
}

func init() {
	explore.Register(&explore.Check{
		ID:        "C18",
		Level:     "model_checking",
		Technique: "exhaustive enumeration of later-traffic histories over message sizes around the 4 KiB allocation granule and the message limit, on a real server whose callbacks retain (without copying) everything they were handed next to a private clone; invariant checked after every message",
		Rule:      "first phase retains startup parameters (validator + parser), database / user / password, a Query text, a Parse text and two Bind values; then every history of length <= d over 15 letters: Query bodies of 0,1,100,4090,4095,4096,4097,8191,8192 bytes, oversized 8193 / 20000, two COPY bursts (incl. an oversized CopyData), two Bind batches with 4096 / 8000+100 byte values; limit 8192",
		Assumptions: []string{"CopyData payload views are not retained: the statement lists query texts, parameter values, client parameters and passwords"},
		Enumerate:   c18Enumerate,
		Bounds:      func(tier string) map[string]any { return map[string]any{"history_depth": c18Depth(tier), "letters": 15, "limit": c18Limit} },
		RequiredOutcomes: []string{"retained"},
	})
}

func c18Depth(tier string) int {
	if tier == "thorough" {
		return 4
	}
	return 3
}

func c18Enumerate(tier string, emit explore.Emit) {
	letters := c18Letters()
	forShapes(len(letters), c18Depth(tier), func(sh []int) {
		hist := make([]c18Letter, len(sh))
		for i, s := range sh {
			hist[i] = letters[s]
		}
		emit(explore.Case{Family: "retention", Size: len(hist),
			Desc: func() any { return map[string]any{"later_traffic": c18Names(hist)} },
			Run:  func() explore.Result { return c18Run(hist) }})
	})
}
