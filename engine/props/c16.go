package props

import "verif/engine/explore"

// C16 — Close is graceful, final, idempotent and concurrency-safe.
// The scenarios live in verif/engine/sched (built with -tags verif against the
// instrumented copy of the current /repo sources); this registration only
// wires the scheduled runner into the common driver.

func init() {
	explore.Register(&explore.Check{
		ID:        "C16",
		Level:     "model_checking",
		Build:     "sched",
		Technique: "stateless model checking of the real code under a cooperative scheduler: every sync/atomic/channel/go operation of the current sources (rewritten at check time by an AST instrumenter) and every transport operation is a scheduling point; depth-first enumeration of all schedules up to a preemption bound with happens-before state caching",
		Rule:      "scenarios X1-X5, X7-X20 (X6 thorough): connections that are idle / mid-message / about to start a handler / inside a handler (handlers carry yield points) x 1-2 concurrent Close callers (+ a later second Close); all schedules with <= 2 preemptions (quick); thorough: ALL schedules (unbounded, made finite by the happens-before state cache) for X1, X2, X3, X5, X6 and <= 4 preemptions for X4, X7; an execution is one schedule run to completion; distinct = distinct happens-before states",
		Assumptions: []string{
			"the exploration is exhaustive up to the preemption bound for data-race-free code (race freedom is C15's oracle)",
			"state caching merges schedules with equal happens-before keys (per object, the ordered sequence of (thread, op index)); the oracle's own events are operations on a shared log object, so their order is part of the key",
			"WaitGroup contract misuse (Add from zero racing Wait) is recorded as a note, not a violation",
			"every Close call is judged on its own: none may return while a handler runs, and no handler may start after any Close returned",
		},
		Custom: explore.SchedCustom("C16", false),
	})
}
