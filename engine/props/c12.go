package props

import (
	"context"
	"fmt"
	"maps"
	"sort"
	"strings"

	wire "github.com/jeroenrinzema/psql-wire"
	"verif/engine/explore"
	"verif/engine/harness"
	"verif/engine/memnet"
	"verif/engine/pgproto"
)

// C12 — Startup negotiation delivers parameters both ways, once, in order (sequential part).

type c12Config struct {
	Name    string
	Global  wire.Parameters
	Version string
	Auth    bool
	// Earlier, when set, is another user-supplied map handed to a GlobalParameters option that PRECEDES the
	// one carrying Global (an application composing option lists): neither map may ever be modified
	Earlier wire.Parameters
}

func c12Configs() []c12Config {
	globals := []struct {
		n string
		g wire.Parameters
	}{
		{"nil", nil},
		{"{}", wire.Parameters{}},
		{"{a:1}", wire.Parameters{"a": "1"}},
		{"{server_encoding:LATIN1,a:1}", wire.Parameters{"server_encoding": "LATIN1", "a": "1"}},
		{"{server_version:9,b:é}", wire.Parameters{"server_version": "9", "b": "é"}},
	}
	var out []c12Config
	for _, g := range globals {
		for _, v := range []string{"", "15.0"} {
			for _, a := range []bool{false, true} {
				out = append(out, c12Config{Name: fmt.Sprintf("global=%s version=%q auth=%v", g.n, v, a), Global: g.g, Version: v, Auth: a})
			}
		}
		for _, e := range []wire.Parameters{{}, {"TimeZone": "UTC", "a": "0"}} {
			out = append(out, c12Config{Name: fmt.Sprintf("global=%s preceded by an option with %v", g.n, e), Global: g.g, Earlier: e})
		}
	}
	return out
}

var c12Keys = []string{"user", "database", "application_name", "x"}
var c12Vals = []string{"v", "", "é"}

type c12Seen struct {
	sessions int
	calls    int
	client   wire.Parameters
	server   wire.Parameters
	user     string
	earlier  wire.Parameters // the map handed to the preceding GlobalParameters option
	hooks    int             // invocations of the CloseConn / TerminateConn callbacks
}

func c12Server(cfg c12Config, seen *c12Seen) (*harness.One, wire.Parameters, error) {
	parse := func(ctx context.Context, q string) (wire.PreparedStatements, error) {
		return wire.Prepared(wire.NewStatement(func(ctx context.Context, w wire.DataWriter, p []wire.Parameter) error {
			seen.calls++
			seen.client = maps.Clone(wire.ClientParameters(ctx))
			seen.server = maps.Clone(wire.ServerParameters(ctx))
			seen.user = wire.AuthenticatedUsername(ctx)
			return w.Complete("OK")
		})), nil
	}
	var global wire.Parameters
	if cfg.Global != nil {
		global = maps.Clone(cfg.Global)
	}
	var opts []wire.OptionFn
	if cfg.Earlier != nil {
		seen.earlier = maps.Clone(cfg.Earlier)
		opts = append(opts, wire.GlobalParameters(seen.earlier))
	}
	opts = append(opts, wire.GlobalParameters(global), wire.SessionMiddleware(func(ctx context.Context) (context.Context, error) {
		seen.sessions++
		return ctx, nil
	}))
	opts = append(opts, wire.CloseConn(func(ctx context.Context) error { seen.hooks++; return nil }),
		wire.TerminateConn(func(ctx context.Context) error { seen.hooks++; return nil }))
	if cfg.Version != "" {
		opts = append(opts, wire.Version(cfg.Version))
	}
	if cfg.Auth {
		opts = append(opts, wire.SessionAuthStrategy(wire.ClearTextPassword(func(ctx context.Context, db, user, pw string) (context.Context, bool, error) {
			return ctx, pw == "good", nil
		})))
	}
	one, err := harness.StartOne(parse, opts...)
	return one, global, err
}

func c12Run(cfg c12Config, kv []string, behindSSL ...bool) explore.Result {
	var res explore.Result
	seen := &c12Seen{}
	one, global, err := c12Server(cfg, seen)
	if err != nil {
		res.Engine = err.Error()
		return res
	}
	defer one.Stop()
	var out []byte
	var st memnet.Status
	if len(behindSSL) > 0 && behindSSL[0] {
		// the start-up packet arrives in the same segment as an SSLRequest the server refuses
		out, st = one.Step(pgproto.Cat(pgproto.SSLRequest(), pgproto.Startup(kv...)))
		if len(out) == 0 || out[0] != 'N' {
			res.Fail("ssl-refusal", fmt.Sprintf("SSLRequest without certificates answered % x, expected N first", out))
			return res
		}
		out = out[1:]
	} else {
		out, st = one.Step(pgproto.Startup(kv...))
	}
	if cfg.Auth {
		if k := harness.Kinds(out); k != "R" {
			res.Fail("auth-exchange", fmt.Sprintf("expected the password request, got %q", k))
			return res
		}
		var o2 []byte
		o2, st = one.Step(pgproto.Password("good"))
		out = append(out, o2...)
	}
	ms, perr := pgproto.ParseBackend(out)
	if perr != nil {
		res.Fail("reply-grammar", perr.Error())
		return res
	}
	if st != memnet.Parked {
		res.Fail("startup-not-completed", fmt.Sprintf("connection %s after a well-formed startup; reply %v", st, pgproto.Strings(ms)))
		return res
	}
	// sent parameters: key -> set of values
	sent := map[string]map[string]bool{}
	for i := 0; i+1 < len(kv); i += 2 {
		if sent[kv[i]] == nil {
			sent[kv[i]] = map[string]bool{}
		}
		sent[kv[i]][kv[i+1]] = true
	}
	// expected shape: R(3)? R(0) S* Z(I)
	i := 0
	if cfg.Auth {
		if len(ms) < 2 || ms[0].Type != 'R' || ms[0].Auth != 3 || ms[1].Type != 'R' || ms[1].Auth != 0 {
			res.Fail("auth-exchange", fmt.Sprintf("expected R(3) R(0) first, got %v", pgproto.Strings(ms)))
			return res
		}
		i = 2
	} else {
		if len(ms) < 1 || ms[0].Type != 'R' || ms[0].Auth != 0 {
			res.Fail("auth-exchange", fmt.Sprintf("expected AuthenticationOk first, got %v", pgproto.Strings(ms)))
			return res
		}
		i = 1
	}
	block := map[string][]string{}
	for i < len(ms) && ms[i].Type == 'S' {
		block[ms[i].Key] = append(block[ms[i].Key], ms[i].Val)
		i++
	}
	if i != len(ms)-1 || ms[i].Type != 'Z' || ms[i].Status != 'I' {
		res.Fail("ready-for-query", fmt.Sprintf("after the ParameterStatus block exactly one ReadyForQuery(idle) must end the startup, got %v", pgproto.Strings(ms)))
		return res
	}
	// expected key set
	want := map[string][]string{} // key -> admissible values
	for k, v := range cfg.Global {
		want[string(k)] = []string{v}
	}
	builtin := map[string]string{"server_encoding": "UTF8", "client_encoding": "UTF8", "is_superuser": "off"}
	for k, v := range builtin {
		want[k] = append(want[k], v)
	}
	optional := map[string]bool{}
	for k, v := range cfg.Earlier {
		// whether an earlier option is replaced by or combined with a later one is not asserted
		if _, has := want[string(k)]; !has {
			optional[string(k)] = true
		}
		want[string(k)] = append(want[string(k)], v)
	}
	var users []string
	for u := range sent["user"] {
		users = append(users, u)
	}
	if len(users) == 0 {
		users = []string{""}
	}
	want["session_authorization"] = append(want["session_authorization"], users...)
	if cfg.Version != "" {
		want["server_version"] = append(want["server_version"], cfg.Version)
	}
	for k, vals := range block {
		if len(vals) != 1 {
			res.Fail("parameter-status-duplicate", fmt.Sprintf("ParameterStatus %q sent %d times: %v", k, len(vals), vals))
		}
		adm, ok := want[k]
		if !ok {
			res.Fail("parameter-status-unexpected", fmt.Sprintf("ParameterStatus %q=%q was neither configured nor one of the standard parameters", k, vals[0]))
			continue
		}
		if !containsStr(adm, vals[0]) {
			res.Fail("parameter-status-value", fmt.Sprintf("ParameterStatus %q=%q, expected one of %q", k, vals[0], adm))
		}
	}
	for k := range want {
		if _, ok := block[k]; !ok && !optional[k] {
			res.Fail("parameter-status-missing", fmt.Sprintf("no ParameterStatus for %q; block %v", k, block))
		}
	}
	// the configured map is never modified
	if !maps.Equal(global, cfg.Global) {
		res.Fail("global-map-modified", fmt.Sprintf("configured %v, after serving %v", cfg.Global, global))
	}
	if cfg.Earlier != nil && !maps.Equal(seen.earlier, cfg.Earlier) {
		res.Fail("global-map-modified", fmt.Sprintf("the map handed to an earlier GlobalParameters option was %v, it now is %v", cfg.Earlier, seen.earlier))
	}
	// what handlers see
	out, _ = one.Step(pgproto.Query("q"))
	if k := harness.Kinds(out); k != "CZ" || seen.calls != 1 {
		res.Fail("first-command", fmt.Sprintf("first query answered %q, handler calls %d", k, seen.calls))
		return res
	}
	for k, v := range seen.client {
		if !sent[string(k)][v] {
			res.Fail("client-parameters", fmt.Sprintf("handler sees client parameter %q=%q which the client did not send (sent %v)", k, v, kv))
		}
	}
	for k := range sent {
		if _, ok := seen.client[wire.ParameterStatus(k)]; !ok {
			res.Fail("client-parameters", fmt.Sprintf("client parameter %q was sent but is not visible to handlers (%v)", k, seen.client))
		}
	}
	sp := map[string]string{}
	for k, v := range seen.server {
		sp[string(k)] = v
	}
	bl := map[string]string{}
	for k, v := range block {
		bl[k] = v[0]
	}
	if !maps.Equal(sp, bl) {
		res.Fail("server-parameters", fmt.Sprintf("ServerParameters(ctx) = %v but the client was told %v", sp, bl))
	}
	if u := string(seen.client["user"]); seen.user != u {
		res.Fail("authenticated-username", fmt.Sprintf("AuthenticatedUsername = %q, client parameter user = %q", seen.user, u))
	}
	if sa, ok := bl["session_authorization"]; ok && sa != seen.user {
		res.Fail("session-authorization", fmt.Sprintf("session_authorization = %q but the connecting user is %q", sa, seen.user))
	}
	// ... and they stay that way: after more than a buffer granule of later traffic the handler still sees them
	for _, n := range []int{3000, 2000, 3000, 1500} {
		one.Step(pgproto.Query(strings.Repeat("x", n)))
	}
	if !cfg.Auth {
		// ... and other clients come and go meanwhile (their start-up packets are read by the same server)
		for i := 0; i < 3; i++ {
			oc := one.Server.Connect()
			oc.Step(pgproto.Startup("user", "somebody-else-entirely", "database", "another-database", "application_name", strings.Repeat("o", 40)))
			oc.Step(pgproto.Terminate())
			oc.End()
		}
	}
	late := &c12Seen{}
	*late = *seen
	out, _ = one.Step(pgproto.Query("q"))
	if harness.Kinds(out) == "CZ" {
		for k, v := range seen.client {
			if !sent[string(k)][v] {
				res.Fail("client-parameters", fmt.Sprintf("after 9 KB of later traffic and three other clients the handler sees client parameter %q=%q which the client did not send (sent %v)", k, v, kv))
			}
		}
		if len(seen.client) != len(sent) {
			res.Fail("client-parameters", fmt.Sprintf("after 9 KB of later traffic and three other clients the handler sees %d client parameters, %d were sent: %v", len(seen.client), len(sent), seen.client))
		}
		if u := string(seen.client["user"]); seen.user != u || (len(users) > 0 && !containsStr(users, seen.user)) {
			res.Fail("authenticated-username", fmt.Sprintf("after later traffic AuthenticatedUsername = %q (sent users %v)", seen.user, users))
		}
	}
	res.Outcome = "negotiated"
	res.Key = cfg.Name + strings.Join(kv, "\x00")
	state := fmt.Sprintf("auth=%v", cfg.Auth)
	res.Trans = []string{"startup/" + state + "|packet|authenticated", "authenticated|parameter-status|ready", "ready|query|ready"}
	return res
}

// c12RunWriteOnce: exactly one write fails (a transient fault) while the start-up reply is being sent. Either the
// connection is given up, or - if the client is told ReadyForQuery - it has been told every parameter exactly once.
func c12RunWriteOnce(cfg c12Config, k int) explore.Result {
	var res explore.Result
	res.Outcome = "negotiated"
	res.Key = fmt.Sprint("write-once", cfg.Name, k)
	seen := &c12Seen{}
	one, _, err := c12Server(cfg, seen)
	if err != nil {
		res.Engine = err.Error()
		return res
	}
	defer one.Stop()
	one.C.SetFaults(memnet.Faults{WriteErrOnceAt: k})
	out, _ := one.Step(pgproto.Startup("user", "alice"))
	ms, perr := pgproto.ParseBackend(out)
	if perr != nil {
		res.Fail("reply-grammar", perr.Error())
		return res
	}
	kinds := pgproto.Kinds(ms)
	if !strings.Contains(kinds, "Z") {
		return res // the start-up was given up: nothing was promised
	}
	want := map[string]bool{"server_encoding": true, "client_encoding": true, "is_superuser": true, "session_authorization": true}
	for k := range cfg.Global {
		want[string(k)] = true
	}
	if cfg.Version != "" {
		want["server_version"] = true
	}
	got := map[string]int{}
	for _, m := range ms {
		if m.Type == 'S' {
			got[m.Key]++
		}
	}
	for name := range want {
		if got[name] != 1 {
			res.Fail("parameter-status-missing", fmt.Sprintf("write %d of the start-up reply failed once: the client was told ReadyForQuery (reply %q) but ParameterStatus %q arrived %d times", k, kinds, name, got[name]))
			break
		}
	}
	res.Trans = []string{"startup|one failed write|ready or closed"}
	return res
}

func containsStr(s []string, v string) bool {
	for _, x := range s {
		if x == v {
			return true
		}
	}
	return false
}

type c12Bad struct {
	Name  string
	Bytes []byte
	// Pre is sent first and must be answered by exactly PreReply
	Pre      []byte
	PreReply string
	Silent   bool // no protocol bytes at all may follow
	// Inline: Pre is delivered in the SAME segment as the packet (a client that does not wait for the SSL answer)
	Inline bool
}

func c12BadPackets() []c12Bad {
	ver := pgproto.Be32(pgproto.Version30)
	return []c12Bad{
		{Name: "missing final terminator", Bytes: pgproto.Untyped(pgproto.Cat(ver, []byte("user\x00alice\x00")))},
		{Name: "key without value", Bytes: pgproto.Untyped(pgproto.Cat(ver, []byte("user\x00")))},
		{Name: "no NUL at all", Bytes: pgproto.Untyped(pgproto.Cat(ver, []byte("useralice")))},
		{Name: "value not terminated", Bytes: pgproto.Untyped(pgproto.Cat(ver, []byte("user\x00alice")))},
		{Name: "version only", Bytes: pgproto.Untyped(ver)},
		{Name: "two complete pairs, third key without value", Bytes: pgproto.Untyped(pgproto.Cat(ver, []byte("user\x00alice\x00database\x00prod\x00x")))},
		{Name: "one complete pair then a truncated value", Bytes: pgproto.Untyped(pgproto.Cat(ver, []byte("user\x00alice\x00database\x00pr")))},
		{Name: "CancelRequest as first packet", Bytes: pgproto.CancelRequest(1, 2), Silent: true},
		{Name: "CancelRequest after SSLRequest->N", Pre: pgproto.SSLRequest(), PreReply: "N", Bytes: pgproto.CancelRequest(1, 2), Silent: true},
		{Name: "CancelRequest in the same segment as a refused SSLRequest", Pre: pgproto.SSLRequest(), PreReply: "N", Inline: true, Bytes: pgproto.CancelRequest(1, 2), Silent: true},
		{Name: "startup without terminator in the same segment as a refused SSLRequest", Pre: pgproto.SSLRequest(), PreReply: "N", Inline: true, Bytes: pgproto.Untyped(pgproto.Cat(ver, []byte("user\x00alice\x00")))},
		{Name: "CancelRequest with short body", Bytes: pgproto.Untyped(pgproto.Be32(pgproto.CancelCode)), Silent: true},
	}
}

func c12RunBad(cfg c12Config, b c12Bad) explore.Result {
	var res explore.Result
	seen := &c12Seen{}
	one, _, err := c12Server(cfg, seen)
	if err != nil {
		res.Engine = err.Error()
		return res
	}
	defer one.Stop()
	if b.Pre != nil && !b.Inline {
		out, st := one.Step(b.Pre)
		if string(out) != b.PreReply || st != memnet.Parked {
			res.Fail("ssl-refusal", fmt.Sprintf("SSLRequest without certificates answered %q (%s), expected the single byte N", out, st))
			return res
		}
	}
	// followed by a pipelined query which must never run
	var out []byte
	var st memnet.Status
	if b.Inline {
		out, st = one.Step(pgproto.Cat(b.Pre, b.Bytes, pgproto.Query("q")))
		if !strings.HasPrefix(string(out), b.PreReply) {
			res.Fail("ssl-refusal", fmt.Sprintf("%s: answered % x, expected it to start with %q", b.Name, out, b.PreReply))
			return res
		}
		out = out[len(b.PreReply):]
	} else {
		out, st = one.Step(pgproto.Cat(b.Bytes, pgproto.Query("q")))
	}
	if st != memnet.Closed {
		res.Fail("not-closed", fmt.Sprintf("%s: connection is %s, expected it to be closed", b.Name, st))
	}
	if !b.Silent {
		seen.hooks = 0 // (a close hook for a connection that sent a malformed start-up packet is not excluded by the statement; for a CancelRequest it is)
	}
	if seen.calls != 0 || seen.sessions != 0 || seen.hooks != 0 {
		res.Fail("callback-ran", fmt.Sprintf("%s: callbacks ran (handler %d, session middleware %d, close / terminate hooks %d)", b.Name, seen.calls, seen.sessions, seen.hooks))
	}
	if b.Silent && len(out) != 0 {
		res.Fail("cancel-answered", fmt.Sprintf("%s: a CancelRequest must not be answered, got % x", b.Name, out))
	}
	if !b.Silent {
		if k := harness.Kinds(out); k != "" && k != "E" {
			res.Fail("malformed-startup-reply", fmt.Sprintf("%s: reply %q (only silence or a single ErrorResponse is acceptable)", b.Name, k))
		}
	}
	// the next connection of the same server is served with exactly what IT sends (nothing of the rejected packet)
	if len(res.Violations) == 0 {
		c2 := one.Server.Connect()
		out2, st2 := c2.Step(pgproto.Startup("application_name", "next-client"))
		if cfg.Auth && harness.Kinds(out2) == "R" {
			out2, st2 = c2.Step(pgproto.Password("good"))
		}
		if st2 == memnet.Parked && strings.HasSuffix(harness.Kinds(out2), "Z") {
			seen.calls = 0
			c2.Step(pgproto.Query("q"))
			if seen.calls == 1 {
				if len(seen.client) != 1 || seen.client["application_name"] != "next-client" || seen.user != "" || seen.server["session_authorization"] != "" {
					res.Fail("client-parameters", fmt.Sprintf("%s, then a connection that sent only application_name: handlers see client parameters %v, user %q, session_authorization %q", b.Name, seen.client, seen.user, seen.server["session_authorization"]))
				}
			}
		} else {
			res.Fail("server-unhealthy-afterwards", fmt.Sprintf("%s: the next connection's start-up was answered %q (%s)", b.Name, harness.Kinds(out2), st2))
		}
	}
	res.Outcome = "rejected"
	if b.Silent {
		res.Outcome = "cancel"
	}
	res.Key = cfg.Name + b.Name
	res.Trans = []string{"startup|" + b.Name + "|closed"}
	return res
}

func init() {
	explore.Register(&explore.Check{
		ID:          "C12",
		Level:       "model_checking",
		Technique:   "exhaustive enumeration of startup packets x server configurations on a real server (sequential part) and of all schedules of concurrently connecting users under a cooperative scheduler up to a preemption bound (schedule part, run by the C15 engine), against a reference description of the negotiation",
		Rule:        "all startup key/value lists of <= n pairs over 4 keys x 3 values (duplicates included) x 30 server configurations (5 global maps x 2 versions x auth on/off, and 5 global maps preceded by a second GlobalParameters option with an empty / a two-entry map); lists of <= 2 pairs also delivered in the same segment as a refused SSLRequest; 10 malformed / cancel packets (two of them in the same segment as a refused SSLRequest) x 30 configurations; distinct = distinct (configuration, packet)",
		Assumptions: []string{"not asserted: order inside the ParameterStatus block; which duplicate of a repeated startup key wins; the value sent when a configured key collides with a standard parameter (either is accepted, exactly once)"},
		Enumerate:   c12Enumerate,
		Bounds: func(tier string) map[string]any {
			return map[string]any{"max_pairs": c12Pairs(tier), "keys": c12Keys, "values": c12Vals, "configurations": len(c12Configs())}
		},
		RequiredOutcomes: []string{"negotiated", "rejected", "cancel"},
		// schedule part: two users connecting concurrently to a server with configured global parameters
		// (scenario S-C of verif/engine/sched/c15.go), all schedules up to the preemption bound, race monitor on
		After: explore.MergeSched("C12", true),
	})
}

func c12Pairs(tier string) int {
	if tier == "thorough" {
		return 4
	}
	return 3
}

func c12Enumerate(tier string, emit explore.Emit) {
	// the negotiation over an upgraded (TLS) connection: the authentication exchange, the ParameterStatus block and
	// ReadyForQuery arrive inside the session exactly as they arrive in plaintext (C11's runner)
	for _, auth := range []string{"", "good", "bad"} {
		c := c11Case{Cfg: "certs", Behave: "session", Auth: auth, Hist: []c11Letter{{"Query(ok)", pgproto.Query(progRows)}}}
		emit(explore.Case{Family: "startup", Size: 6, Desc: func() any { return map[string]any{"config": "certificates configured", "negotiation": c.String()} },
			Run: func() explore.Result {
				r := c11Run(c)
				r.Outcome = "negotiated"
				for i := range r.Violations {
					r.Violations[i].Clause = "reply-grammar"
				}
				return r
			}})
	}
	// start-up keys that are spelled like the server's own parameters: what the client asks for is one thing, what the
	// server announces (client_encoding UTF8, session_authorization = the connecting user ...) another
	for _, auth := range []bool{false, true} {
		for _, pair := range [][2]string{{"client_encoding", "LATIN1"}, {"client_encoding", "SQL_ASCII"}, {"client_encoding", "UTF8"}, {"client_encoding", ""}, {"server_encoding", "LATIN1"},
			{"is_superuser", "on"}, {"session_authorization", "mallory"}, {"server_version", "0.1"}} {
			kv := []string{"user", "alice", pair[0], pair[1]}
			cfg := c12Config{Name: fmt.Sprintf("global=nil version=\"\" auth=%v", auth), Auth: auth}
			emit(explore.Case{Family: "startup", Size: 5,
				Desc: func() any { return map[string]any{"config": cfg.Name, "startup_pairs": kv} },
				Run:  func() explore.Result { return c12Run(cfg, kv) }})
		}
	}
	// long values: start-up values of 63 ... 1200 bytes (user, database, another key) and configured parameters /
	// version strings of 1000 ... 5000 bytes (around 1 KiB and 4 KiB buffers)
	for _, auth := range []bool{false, true} {
		for _, n := range []int{63, 64, 65, 72, 128, 300, 1200} {
			for _, key := range []string{"user", "database", "application_name"} {
				kv := []string{"user", "alice", key, strings.Repeat("n", n-1) + "Z"}
				if key == "user" {
					kv = kv[2:]
				}
				cfg := c12Config{Name: fmt.Sprintf("global=nil version=\"\" auth=%v", auth), Auth: auth}
				emit(explore.Case{Family: "startup", Size: 5,
					Desc: func() any { return map[string]any{"config": cfg.Name, "startup_key": key, "value_bytes": n} },
					Run:  func() explore.Result { return c12Run(cfg, kv) }})
			}
		}
		for _, n := range []int{1000, 1008, 1011, 1012, 1017, 1018, 1024, 1100, 4090, 5000} {
			for _, where := range []string{"global", "version"} {
				cfg := c12Config{Name: fmt.Sprintf("a configured %s value of %d bytes, auth=%v", where, n, auth), Auth: auth}
				if where == "global" {
					cfg.Global = wire.Parameters{"a": "1", "long_parameter": strings.Repeat("g", n), "z": "26"}
				} else {
					cfg.Version = strings.Repeat("9", n)
				}
				emit(explore.Case{Family: "startup", Size: 5,
					Desc: func() any { return map[string]any{"config": cfg.Name, "startup_pairs": []string{"user", "alice"}} },
					Run:  func() explore.Result { return c12Run(cfg, []string{"user", "alice"}) }})
			}
		}
	}
	cfgs := c12Configs()
	npairs := len(c12Keys) * len(c12Vals)
	for _, cfg := range cfgs {
		cfg := cfg
		forShapes(npairs, c12Pairs(tier), func(sh []int) {
			var kv []string
			for _, s := range sh {
				kv = append(kv, c12Keys[s/len(c12Vals)], c12Vals[s%len(c12Vals)])
			}
			emit(explore.Case{Family: "startup", Size: len(sh),
				Desc: func() any { return map[string]any{"config": cfg.Name, "startup_pairs": kv} },
				Run:  func() explore.Result { return c12Run(cfg, kv) }})
			if len(sh) <= 2 {
				emit(explore.Case{Family: "startup", Size: len(sh) + 1,
					Desc: func() any {
						return map[string]any{"config": cfg.Name, "startup_pairs": kv, "delivery": "in the same segment as a refused SSLRequest"}
					},
					Run: func() explore.Result {
						r := c12Run(cfg, kv, true)
						r.Key += " behind-ssl"
						return r
					}})
			}
		})
		for _, b := range c12BadPackets() {
			b := b
			emit(explore.Case{Family: "malformed-or-cancel", Size: 1,
				Desc: func() any { return map[string]any{"config": cfg.Name, "packet": b.Name} },
				Run:  func() explore.Result { return c12RunBad(cfg, b) }})
		}
	}
	for _, cfg := range cfgs {
		if cfg.Auth || cfg.Earlier != nil {
			continue
		}
		for k := 1; k <= 12; k++ {
			cfg, k := cfg, k
			emit(explore.Case{Family: "transient-write-fault", Size: 3, Desc: func() any { return map[string]any{"config": cfg.Name, "write_that_fails_once": k} },
				Run: func() explore.Result { return c12RunWriteOnce(cfg, k) }})
		}
	}
	// CancelRequest after a completed TLS upgrade (real crypto/tls client over the tapped transport, see C11)
	for _, cfg := range []string{"certs", "empty", "nil"} {
		cfg := cfg
		emit(explore.Case{Family: "malformed-or-cancel", Size: 1,
			Desc: func() any { return map[string]any{"tls": cfg, "packet": "CancelRequest after the SSL negotiation"} },
			Run: func() explore.Result {
				r := c11Run(c11Case{Cfg: cfg, Behave: "cancel-after", Hist: nil})
				r.Outcome = "cancel"
				r.Key = "c12-cancel-after-ssl-" + cfg
				r.Trans = []string{"startup|CancelRequest after SSL negotiation (" + cfg + ")|closed"}
				return r
			}})
	}
	_ = sort.Strings
}
