package props

import (
	"context"
	"fmt"
	"sort"
	"strings"

	wire "github.com/jeroenrinzema/psql-wire"
	"github.com/lib/pq/oid"
	"verif/engine/explore"
	"verif/engine/harness"
	"verif/engine/memnet"
	"verif/engine/pgproto"
	"verif/engine/script"
)

// C07 — Statement and portal names resolve to the latest definition, per connection.

const (
	c07Q1 = "2:p,c=Q1" // two columns, one declared parameter
	c07Q2 = "3:p,c=Q2" // three columns, two declared parameters
)

// c07Big is a syntactically valid 4100-byte program: parsing it under an unused name pushes the
// connection's message buffer across its 4 KiB allocation granule.
var c07Big = "0:c=" + strings.Repeat("x", 4096)

type nletter struct {
	Name  string
	Kind  string // parse bind exec descS descP closeS closeP sync
	A, B  string
	Val   string
	PF    int // parameter format
	RF    int // result format (-1 = no codes)
	Bytes []byte
}

func c07Alphabet() []nletter {
	var out []nletter
	stn := []string{"", "a"}
	ptn := []string{"", "x"}
	for _, n := range stn {
		for qi, q := range []string{c07Q1, c07Q2} {
			out = append(out, nletter{Name: fmt.Sprintf("Parse(%q,q%d)", n, qi+1), Kind: "parse", A: n, B: q, Bytes: pgproto.Parse(n, q)})
		}
	}
	for _, p := range ptn {
		for _, n := range stn {
			out = append(out, nletter{Name: fmt.Sprintf("Bind(%q<-%q,v1/text)", p, n), Kind: "bind", A: p, B: n, Val: "v1", PF: 0, RF: 0,
				Bytes: pgproto.Bind(p, n, []int16{0}, [][]byte{[]byte("v1")}, []int16{0})})
			out = append(out, nletter{Name: fmt.Sprintf("Bind(%q<-%q,v2/binary)", p, n), Kind: "bind", A: p, B: n, Val: "v2", PF: 1, RF: 1,
				Bytes: pgproto.Bind(p, n, []int16{1}, [][]byte{[]byte("v2")}, []int16{1})})
		}
	}
	for _, p := range ptn {
		out = append(out, nletter{Name: fmt.Sprintf("Execute(%q)", p), Kind: "exec", A: p, Bytes: pgproto.Execute(p, 0)})
	}
	for _, n := range stn {
		out = append(out, nletter{Name: fmt.Sprintf("Describe(S %q)", n), Kind: "descS", A: n, Bytes: pgproto.Describe('S', n)})
	}
	for _, p := range ptn {
		out = append(out, nletter{Name: fmt.Sprintf("Describe(P %q)", p), Kind: "descP", A: p, Bytes: pgproto.Describe('P', p)})
	}
	for _, n := range stn {
		out = append(out, nletter{Name: fmt.Sprintf("Close(S %q)", n), Kind: "closeS", A: n, Bytes: pgproto.Close('S', n)})
	}
	for _, p := range ptn {
		out = append(out, nletter{Name: fmt.Sprintf("Close(P %q)", p), Kind: "closeP", A: p, Bytes: pgproto.Close('P', p)})
	}
	out = append(out, nletter{Name: "Sync", Kind: "sync", Bytes: pgproto.Sync()})
	out = append(out, nletter{Name: "Parse(z, 4100-byte query)", Kind: "filler", B: c07Big, Bytes: pgproto.Parse("z", c07Big)})
	return out
}

type nportal struct {
	prog string
	val  string
	pf   int
	rf   int
}

type nstate struct {
	stmt   [2]string
	portal [2]nportal
	skip   bool
}

func (s nstate) key() string {
	pl := func(p nportal) string {
		if p.prog == "" {
			return "-"
		}
		return fmt.Sprintf("%s(%s,pf%d,rf%d)", c07Label(p.prog), p.val, p.pf, p.rf)
	}
	return fmt.Sprintf("S[%s,%s] P[%s,%s] skip=%v", c07Label(s.stmt[0]), c07Label(s.stmt[1]), pl(s.portal[0]), pl(s.portal[1]), s.skip)
}

func c07Label(p string) string {
	switch p {
	case "":
		return "-"
	case c07Q1:
		return "q1"
	case c07Q2:
		return "q2"
	}
	return p
}

func nIdx(n string) int {
	if n == "" {
		return 0
	}
	return 1
}

type nbranch struct {
	reply []string
	cbs   []string
	next  nstate
}

func c07Cols(prog string) int {
	if prog == c07Q1 {
		return 2
	}
	return 3
}

func c07RowDesc(prog string, rf int) string {
	f := 0
	if rf == 1 {
		f = 1
	}
	var cs []string
	for i := 0; i < c07Cols(prog); i++ {
		cs = append(cs, fmt.Sprintf("%c:25:%d", 'a'+i, f))
	}
	return "T(" + strings.Join(cs, ",") + ")"
}

func c07ParamDesc(prog string) string {
	if prog == c07Q1 {
		return "t[0]"
	}
	return "t[0 0]"
}

func c07Exec(p nportal) ([]string, []string) {
	row := []string{`"1"`, fmt.Sprintf("%q", fmt.Sprintf("%s:%d", p.val, p.pf))}
	if c07Cols(p.prog) == 3 {
		row = append(row, `"-"`)
	}
	tag := "Q1"
	if p.prog == c07Q2 {
		tag = "Q2"
	}
	return []string{"D(" + strings.Join(row, ",") + ")", "C(" + tag + ")"},
		[]string{fmt.Sprintf("stmt:%s params=[%q] fmts=[%d]", p.prog, p.val, p.pf)}
}

// errBranches: the error-cycle discipline belongs to C06, so after an error
// this model forks on skipping / not skipping and on an optional ReadyForQuery.
func errBranches(s nstate, cbs []string) []nbranch {
	a, b := s, s
	a.skip = true
	b.skip = false
	return []nbranch{{reply: []string{"E"}, cbs: cbs, next: a}, {reply: []string{"E"}, cbs: cbs, next: b},
		{reply: []string{"E", "Z(I)"}, cbs: cbs, next: a}, {reply: []string{"E", "Z(I)"}, cbs: cbs, next: b}}
}

func (s nstate) step(l nletter) []nbranch {
	var out []nbranch
	if s.skip {
		if l.Kind == "sync" {
			n := s
			n.skip = false
			out = []nbranch{{reply: []string{"Z(I)"}, next: n}}
			return forkDropPortals(out)
		}
		out = append(out, nbranch{next: s}) // discarded
		// (the non-skipping interpretation is covered by the sibling model state with skip=false)
		return out
	}
	switch l.Kind {
	case "parse":
		n := s
		n.stmt[nIdx(l.A)] = l.B
		return []nbranch{{reply: []string{"1"}, cbs: []string{"parse:" + l.B}, next: n}}
	case "bind":
		prog := s.stmt[nIdx(l.B)]
		if prog == "" {
			return errBranches(s, nil)
		}
		n := s
		n.portal[nIdx(l.A)] = nportal{prog: prog, val: l.Val, pf: l.PF, rf: l.RF}
		return []nbranch{{reply: []string{"2"}, next: n}}
	case "exec":
		p := s.portal[nIdx(l.A)]
		if p.prog == "" {
			return errBranches(s, nil)
		}
		r, c := c07Exec(p)
		return []nbranch{{reply: r, cbs: c, next: s}}
	case "descS":
		prog := s.stmt[nIdx(l.A)]
		if prog == "" {
			return errBranches(s, nil)
		}
		return []nbranch{{reply: []string{c07ParamDesc(prog), c07RowDesc(prog, -1)}, next: s}}
	case "descP":
		p := s.portal[nIdx(l.A)]
		if p.prog == "" {
			return errBranches(s, nil)
		}
		return []nbranch{{reply: []string{c07RowDesc(p.prog, p.rf)}, next: s}}
	case "closeS":
		n := s
		closed := n.stmt[nIdx(l.A)]
		n.stmt[nIdx(l.A)] = ""
		out = []nbranch{{reply: []string{"3"}, next: n}}
		// "Close makes the name unresolvable" - the closed name. A portal bound to the statement earlier was not
		// closed: "a later Execute or Describe of that portal uses that statement". (An earlier revision admitted
		// portals that vanish with their statement; the statement of the property does not.)
		if closed != "" && c07TolerateCascade {
			for mask := 1; mask < 4; mask++ {
				m := n
				changed := false
				for pi := 0; pi < 2; pi++ {
					if mask&(1<<pi) != 0 && m.portal[pi].prog == closed {
						m.portal[pi] = nportal{}
						changed = true
					}
				}
				if changed {
					out = append(out, nbranch{reply: []string{"3"}, next: m})
				}
			}
		}
		return out
	case "closeP":
		n := s
		n.portal[nIdx(l.A)] = nportal{}
		return []nbranch{{reply: []string{"3"}, next: n}}
	case "sync":
		return forkDropPortals([]nbranch{{reply: []string{"Z(I)"}, next: s}})
	case "filler":
		return []nbranch{{reply: []string{"1"}, cbs: []string{"parse:" + l.B}, next: s}}
	}
	panic("c07 step: " + l.Name)
}

// c07TolerateCascade: admit portals that vanish when their statement is closed / when a cycle ends (PostgreSQL's
// behaviour). Off: the property's statement lets a portal live until it is closed or its name is bound again.
const c07TolerateCascade = false

func forkDropPortals(in []nbranch) []nbranch {
	if !c07TolerateCascade {
		return in
	}
	out := in
	for _, b := range in {
		if b.next.portal[0].prog != "" || b.next.portal[1].prog != "" {
			n := b.next
			n.portal = [2]nportal{}
			out = append(out, nbranch{reply: b.reply, cbs: b.cbs, next: n})
		}
	}
	return out
}

type nset map[nstate]bool

func (x nset) keys() []string {
	var ks []string
	for s := range x {
		ks = append(ks, s.key())
	}
	sort.Strings(ks)
	return ks
}

func (x nset) advance(l nletter, reply, cbs []string) (nset, []string, string) {
	next := nset{}
	var trans, allowed []string
	for s := range x {
		for _, b := range s.step(l) {
			if sameStrings(b.reply, reply) && sameStrings(b.cbs, cbs) {
				next[b.next] = true
				trans = append(trans, s.key()+"|"+l.Name+"|"+b.next.key())
			} else {
				allowed = append(allowed, fmt.Sprintf("from {%s}: reply %v callbacks %v", s.key(), b.reply, b.cbs))
			}
		}
	}
	if len(next) == 0 {
		sort.Strings(allowed)
		return next, nil, strings.Join(allowed, "\n")
	}
	return next, trans, ""
}

// c07Observe renders a reply and the callbacks of one step.
func c07Observe(out []byte, evs []script.Ev) (reply, cbs []string, err error) {
	ms, err := pgproto.ParseBackend(out)
	if err != nil {
		return nil, nil, err
	}
	for _, m := range ms {
		if m.Type == 'E' {
			reply = append(reply, "E")
		} else {
			reply = append(reply, m.String())
		}
	}
	for _, e := range evs {
		switch e.Kind {
		case "parse":
			cbs = append(cbs, "parse:"+e.Query)
		case "stmt":
			cbs = append(cbs, fmt.Sprintf("stmt:%s params=%v fmts=%v", e.Query, e.Params, e.Formats))
		}
	}
	return
}

func init() {
	explore.Register(&explore.Check{
		ID:        "C07",
		Level:     "model_checking",
		Technique: "exhaustive enumeration of Parse/Bind/Describe/Execute/Close/Sync histories over a pool of colliding names on a real server (single connection: vs. a set-valued name-resolution model; two connections: differential against each connection's projection served alone)",
		Rule:      "single: all histories of length <= d over 23 letters (names \"\"/a, portals \"\"/x, two distinguishable statements, two parameter/format variants); statement re-definition with blank and non-blank texts (differential against a connection that only saw the second definition); portal re-binding (earlier portals are described before they are replaced): every ordered pair of ~50 Bind shapes (statement of 1 / 2 columns, 0-3 parameters, 0 / 1 / per-item parameter codes, 0 / 1 / per-column result codes) on the unnamed and a named portal, differential against a connection where only the second Bind happened; two connections: all interleaved histories of length <= d2 over 2 x 6 letters using the same names; distinct = distinct histories",
		Assumptions: []string{
			"not asserted: fate of a portal whose statement was closed (old statement or error, never a different one); whether portals survive Sync; the error-cycle discipline after an error (owned by C06: model forks on skipping and optional ReadyForQuery)",
			"finer-than-message interleavings of two connections are explored by the C15 scheduler scenarios",
		},
		Enumerate: c07Enumerate,
		Bounds: func(tier string) map[string]any {
			a, b := c07Depth(tier)
			return map[string]any{"single_connection_depth": a, "two_connection_depth": b, "letters": 23}
		},
		RequiredOutcomes: []string{"rebind-after-reparse", "closed-name-unresolvable", "plain", "two-conn", "portal-rebound", "statement-redefined"},
	})
}

func c07Depth(tier string) (int, int) {
	if tier == "thorough" {
		return 5, 6
	}
	return 4, 4
}

func c07Run(hist []nletter) explore.Result {
	var res explore.Result
	rec := &script.Rec{}
	one, err := harness.StartOne(rec.ParseFn())
	if err != nil {
		res.Engine = err.Error()
		return res
	}
	rec.Conn = one.C
	defer one.Stop()
	one.Step(pgproto.Startup("user", "u"))
	set := nset{nstate{}: true}
	res.Outcome = "plain"
	closedThenUse, reparsed := false, false
	var lastClosed = map[string]bool{}
	var boundFrom = map[string]string{}
	for i, l := range hist {
		n := len(rec.Evs)
		out, st := one.Step(l.Bytes)
		reply, cbs, perr := c07Observe(out, rec.Evs[n:])
		if perr != nil {
			res.Fail("reply-grammar", fmt.Sprintf("step %d %s: %v", i, l.Name, perr))
			return res
		}
		if st != memnet.Parked {
			res.Fail("connection-dropped", fmt.Sprintf("step %d %s: connection %s (reply %v)", i, l.Name, st, reply))
			return res
		}
		next, trans, allowed := set.advance(l, reply, cbs)
		if len(next) == 0 {
			clause := "wrong-resolution"
			if l.Kind == "bind" && lastClosed["S"+l.B] || l.Kind == "descS" && lastClosed["S"+l.A] ||
				(l.Kind == "exec" || l.Kind == "descP") && lastClosed["P"+l.A] {
				clause = "closed-name-still-resolvable"
			}
			res.Fail(clause, fmt.Sprintf("step %d %s: reply %v callbacks %v\nmodel states before: %v\nallowed:\n%s", i, l.Name, reply, cbs, set.keys(), allowed))
			return res
		}
		switch l.Kind {
		case "closeS":
			lastClosed["S"+l.A] = true
		case "closeP":
			lastClosed["P"+l.A] = true
		case "parse":
			delete(lastClosed, "S"+l.A)
			for p, s := range boundFrom {
				if s == l.A {
					reparsed = true
					_ = p
				}
			}
		case "bind":
			if lastClosed["S"+l.B] {
				closedThenUse = true
			}
			if len(reply) == 1 && reply[0] == "2" {
				delete(lastClosed, "P"+l.A)
				boundFrom[l.A] = l.B
			}
		case "descS":
			if lastClosed["S"+l.A] {
				closedThenUse = true
			}
		case "exec", "descP":
			if lastClosed["P"+l.A] {
				closedThenUse = true
			}
			if reparsed && len(reply) > 0 && reply[0] != "E" {
				res.Outcome = "rebind-after-reparse"
			}
		}
		res.Trans = append(res.Trans, trans...)
		set = next
	}
	if closedThenUse {
		res.Outcome = "closed-name-unresolvable"
	}
	var names []string
	for _, l := range hist {
		names = append(names, l.Name)
	}
	res.Key = strings.Join(names, " ")
	return res
}

// ---- two connections, message granularity --------------------------------

type twoStep struct {
	conn int
	l    nletter
}

func c07TwoAlphabet() []nletter {
	return []nletter{
		{Name: "Parse(a,q1)", Kind: "parse", A: "a", B: c07Q1, Bytes: pgproto.Parse("a", c07Q1)},
		{Name: "Parse(a,q2)", Kind: "parse", A: "a", B: c07Q2, Bytes: pgproto.Parse("a", c07Q2)},
		{Name: "Bind(x<-a)", Kind: "bind", A: "x", B: "a", Bytes: nil},
		{Name: "Execute(x)", Kind: "exec", A: "x", Bytes: pgproto.Execute("x", 0)},
		{Name: "Describe(S a)", Kind: "descS", A: "a", Bytes: pgproto.Describe('S', "a")},
		{Name: "Close(S a)", Kind: "closeS", A: "a", Bytes: pgproto.Close('S', "a")},
	}
}

func c07TwoBytes(conn int, l nletter) []byte {
	if l.Kind == "bind" {
		return pgproto.Bind("x", "a", nil, [][]byte{[]byte(fmt.Sprintf("val-of-conn%d", conn))}, nil)
	}
	return l.Bytes
}

// runScripts serves the given per-connection steps on ONE server in the given
// global order and returns the per-step observations per connection.
// c07Shared: the application's ParseFn hands out, for one query text, statements that all share ONE parameter-type
// slice (a statement cache of its own) — what the library stores under a name must not be altered through it by a
// later definition on any connection.
var c07Shared bool

func c07ServeTwo(order []twoStep) (obs [2][]string, engine string) {
	recs := [2]*script.Rec{{}, {}}
	if c07Shared {
		cache := map[string][]oid.Oid{}
		opts := func(q string) []wire.PreparedOptionFn {
			if _, ok := cache[q]; !ok {
				n := 0
				if len(q) > 0 && q[0] >= '1' && q[0] <= '9' {
					n = int(q[0]-'0') - 1
				}
				ts := make([]oid.Oid, n)
				for i := range ts {
					ts[i] = oid.T_text
				}
				cache[q] = ts
			}
			return []wire.PreparedOptionFn{wire.WithParameters(cache[q])}
		}
		recs[0].StmtOpts, recs[1].StmtOpts = opts, opts
	}
	multi := &script.Multi{M: map[string]*script.Rec{}}
	srv, err := harness.NewServer(multi.ParseFn())
	if err != nil {
		return obs, err.Error()
	}
	defer srv.Stop()
	var conns [2]*harness.Conn
	used := [2]bool{}
	for _, s := range order {
		used[s.conn] = true
	}
	for i := 0; i < 2; i++ {
		if !used[i] {
			continue
		}
		mc := memnet.NewConn(fmt.Sprintf("mem:c%d", i))
		recs[i].Conn = mc
		multi.M[mc.Remote.String()] = recs[i]
		conns[i] = srv.ConnectWith(mc)
		conns[i].Step(pgproto.Startup("user", fmt.Sprintf("u%d", i)))
	}
	for _, s := range order {
		n := len(recs[s.conn].Evs)
		out, st := conns[s.conn].Step(c07TwoBytes(s.conn, s.l))
		reply, cbs, perr := c07Observe(out, recs[s.conn].Evs[n:])
		o := fmt.Sprintf("%s -> %v cb=%v st=%s", s.l.Name, reply, cbs, st)
		if perr != nil {
			o += " GRAMMAR:" + perr.Error()
		}
		obs[s.conn] = append(obs[s.conn], o)
	}
	return obs, ""
}

func c07RunTwo(order []twoStep) explore.Result {
	var res explore.Result
	res.Outcome = "two-conn"
	together, eng := c07ServeTwo(order)
	if eng != "" {
		res.Engine = eng
		return res
	}
	for c := 0; c < 2; c++ {
		var proj []twoStep
		for _, s := range order {
			if s.conn == c {
				proj = append(proj, s)
			}
		}
		if len(proj) == 0 {
			continue
		}
		alone, eng := c07ServeTwo(proj)
		if eng != "" {
			res.Engine = eng
			return res
		}
		if !sameStrings(alone[c], together[c]) {
			res.Fail("cross-connection-visibility", fmt.Sprintf("connection %d observed\n  %s\nwhen interleaved with the other connection, but\n  %s\nwhen its own messages are served alone", c,
				strings.Join(together[c], "\n  "), strings.Join(alone[c], "\n  ")))
		}
	}
	var names []string
	for _, s := range order {
		names = append(names, fmt.Sprintf("c%d:%s", s.conn, s.l.Name))
	}
	res.Key = strings.Join(names, " ")
	res.States = []string{"two-conn/" + fmt.Sprint(len(order))}
	return res
}

// c07RunTwoTyped: like c07RunTwo (each connection against its own messages served alone), and additionally, on ONE
// connection too, a Describe(S a) not preceded by a new definition of "a" answers what the previous Describe(S a) of
// that connection answered ("the statement currently stored under the name").
func c07RunTwoTyped(order []twoStep) explore.Result {
	res := c07RunTwo(order)
	if len(res.Violations) > 0 || res.Engine != "" {
		return res
	}
	together, _ := c07ServeTwo(order)
	idx := [2]int{}
	last := [2]string{}
	for _, s := range order {
		o := together[s.conn][idx[s.conn]]
		idx[s.conn]++
		switch {
		case s.l.Kind == "parse" && s.l.A == "a":
			last[s.conn] = ""
		case s.l.Kind == "descS" && strings.Contains(o, "t["): // (an unanswered or refused Describe says nothing)
			if last[s.conn] != "" && last[s.conn] != o {
				res.Fail("stored-statement-altered", fmt.Sprintf("connection %d: statement \"a\" was not defined again, yet\n  %s\nafter it had been described as\n  %s", s.conn, o, last[s.conn]))
			}
			last[s.conn] = o
		}
	}
	return res
}

// ---- re-binding a portal name with a differently shaped Bind -----------------------------------
//
// "Re-using a portal name replaces the earlier definition": whatever was bound to the name before (more
// parameters, more format codes, another statement), the outcome of Bind B + Describe + Execute is the outcome
// on a connection where the earlier Bind never happened.

type c07Shape struct {
	Stmt   string // "s1" (2 columns) or "s2" (1 column)
	Params int
	PF     int // number of parameter format codes: 0, 1 or Params (all binary)
	RF     int // number of result format codes: 0, 1 or one per column (all binary)
}

func (b c07Shape) String() string {
	return fmt.Sprintf("%s params=%d param_codes=%d result_codes=%d", b.Stmt, b.Params, b.PF, b.RF)
}

func (b c07Shape) bind(portal string, tag string) []byte {
	vals := make([][]byte, b.Params)
	for i := range vals {
		vals[i] = []byte(fmt.Sprintf("%s%d", tag, i))
	}
	pf := make([]int16, b.PF)
	for i := range pf {
		pf[i] = 1
	}
	rf := make([]int16, b.RF)
	for i := range rf {
		rf[i] = 1
	}
	return pgproto.Bind(portal, b.Stmt, pf, vals, rf)
}

func c07Shapes() []c07Shape {
	var out []c07Shape
	for _, st := range []string{"s1", "s2"} {
		cols := map[string]int{"s1": 2, "s2": 1}[st]
		for params := 0; params <= 3; params++ {
			for _, pf := range []int{0, 1, params} {
				if pf > params && pf != 1 || (pf == params && params <= 1 && pf != 0 && pf != 1) {
					continue
				}
				for _, rf := range []int{0, 1, cols} {
					out = append(out, c07Shape{st, params, pf, rf})
				}
			}
		}
	}
	// de-duplicate (pf == 1 == params, rf == 1 == cols)
	seen := map[c07Shape]bool{}
	var uniq []c07Shape
	for _, b := range out {
		if !seen[b] {
			seen[b] = true
			uniq = append(uniq, b)
		}
	}
	return uniq
}

func c07ServeRebind(portal string, binds []c07Shape) (string, string) {
	var trace []string
	parse := func(ctx context.Context, q string) (wire.PreparedStatements, error) {
		cols := wire.Columns{{Name: "a", Oid: oid.T_int4}, {Name: "b", Oid: oid.T_int4}}
		if q == "one" {
			cols = cols[:1]
		}
		return wire.Prepared(wire.NewStatement(func(ctx context.Context, w wire.DataWriter, params []wire.Parameter) error {
			var ps []string
			for _, p := range params {
				ps = append(ps, fmt.Sprintf("%q/%d", p.Value(), p.Format()))
			}
			trace = append(trace, fmt.Sprintf("stmt %s params=%v", q, ps))
			row := []any{int32(258), int32(259)}
			if err := w.Row(row[:len(cols)]); err != nil {
				return err
			}
			return w.Complete("SELECT 1")
		}, wire.WithColumns(cols))), nil
	}
	one, err := harness.StartOne(parse)
	if err != nil {
		return "", "engine: " + err.Error()
	}
	defer one.Stop()
	one.Step(pgproto.Startup("user", "u"))
	one.Step(pgproto.Cat(pgproto.Parse("s1", "two"), pgproto.Parse("s2", "one"), pgproto.Sync()))
	for i, b := range binds[:len(binds)-1] {
		one.Step(pgproto.Cat(b.bind(portal, fmt.Sprintf("old%d-", i)), pgproto.Describe('P', portal), pgproto.Sync()))
	}
	trace = nil
	out, _ := one.Step(pgproto.Cat(binds[len(binds)-1].bind(portal, "new-"), pgproto.Describe('P', portal), pgproto.Execute(portal, 0), pgproto.Sync()))
	t, _ := harness.CanonTranscript(out)
	return strings.Join(t, " "), strings.Join(trace, "; ")
}

func c07RunRebind(portal string, earlier []c07Shape, last c07Shape) explore.Result {
	var res explore.Result
	res.Outcome = "portal-rebound"
	res.Key = fmt.Sprint("rebind", portal, earlier, last)
	gotT, gotC := c07ServeRebind(portal, append(append([]c07Shape(nil), earlier...), last))
	wantT, wantC := c07ServeRebind(portal, []c07Shape{last})
	if strings.HasPrefix(gotC, "engine:") || strings.HasPrefix(wantC, "engine:") {
		res.Engine = gotC + wantC
		return res
	}
	if gotT != wantT || gotC != wantC {
		res.Fail("portal-rebind-keeps-earlier-definition", fmt.Sprintf("portal %q bound with %v, then with [%s]: Describe + Execute gave\n  %s | %s\nbut on a connection where only the last Bind happened\n  %s | %s", portal, earlier, last, gotT, gotC, wantT, wantC))
	}
	res.Trans = []string{fmt.Sprintf("bound(%d params)|rebind(%d params)|bound", earlier[len(earlier)-1].Params, last.Params)}
	return res
}

// c07RunRejected: a Parse / Bind that the server REJECTS defines nothing: the names keep resolving to what they
// resolved to before it (or stay unknown). The same history is served twice - with the rejected message (followed by
// the Sync that ends its cycle) and with that Sync alone - and everything the client sends afterwards is answered
// identically. (Whether portals survive a Sync is the same question in both runs, so it is not prejudged.)
func c07RunRejected(sn, pn string, defined bool, rejected string) explore.Result {
	var res explore.Result
	res.Outcome = "plain"
	res.Key = fmt.Sprint("rejected", sn, pn, defined, rejected)
	var rej []byte
	switch rejected {
	case "Bind to an unknown statement":
		rej = pgproto.Bind(pn, "nosuch", nil, [][]byte{[]byte("zz")}, nil)
	case "Parse of two statements":
		rej = pgproto.Parse(sn, "other|other")
	case "Parse the parser refuses":
		rej = pgproto.Parse(sn, "#perr")
	case "Parse of zero statements":
		rej = pgproto.Parse(sn, "#zero")
	}
	serve := func(with bool) (string, string) {
		var trace []string
		parse := func(ctx context.Context, q string) (wire.PreparedStatements, error) {
			switch q {
			case "#perr":
				return nil, fmt.Errorf("refused")
			case "#zero":
				return wire.Prepared(), nil
			}
			var list []*wire.PreparedStatement
			for _, part := range strings.Split(q, "|") {
				part := part
				list = append(list, wire.NewStatement(func(ctx context.Context, w wire.DataWriter, params []wire.Parameter) error {
					var ps []string
					for _, p := range params {
						ps = append(ps, fmt.Sprintf("%q", p.Value()))
					}
					trace = append(trace, fmt.Sprintf("stmt %s params=%v", part, ps))
					if err := w.Row([]any{int32(258)}); err != nil {
						return err
					}
					return w.Complete("SELECT 1")
				}, wire.WithColumns(wire.Columns{{Name: part, Oid: oid.T_int4}}), wire.WithParameters(wire.ParseParameters(part))))
			}
			return wire.Prepared(list...), nil
		}
		one, err := harness.StartOne(parse)
		if err != nil {
			return "", "engine: " + err.Error()
		}
		defer one.Stop()
		one.Step(pgproto.Startup("user", "u"))
		if defined {
			one.Step(pgproto.Cat(pgproto.Parse(sn, "original $1"), pgproto.Bind(pn, sn, nil, [][]byte{[]byte("v1")}, nil), pgproto.Sync()))
		}
		if with {
			one.Step(rej)
		}
		one.Step(pgproto.Sync())
		trace = nil
		out, _ := one.Step(pgproto.Cat(pgproto.Describe('S', sn), pgproto.Sync(), pgproto.Describe('P', pn), pgproto.Sync(), pgproto.Execute(pn, 0), pgproto.Sync(),
			pgproto.Bind("other", sn, nil, [][]byte{[]byte("v2")}, nil), pgproto.Execute("other", 0), pgproto.Sync()))
		t, _ := harness.CanonTranscript(out)
		return strings.Join(t, " "), strings.Join(trace, "; ")
	}
	gotT, gotC := serve(true)
	wantT, wantC := serve(false)
	if strings.HasPrefix(gotC, "engine:") || strings.HasPrefix(wantC, "engine:") {
		res.Engine = gotC + wantC
		return res
	}
	if gotT != wantT || gotC != wantC {
		res.Fail("wrong-resolution", fmt.Sprintf("statement %q / portal %q (defined before: %v), then a rejected message (%s) + Sync: Describe(S), Describe(P), Execute, Bind + Execute of another portal gave\n  %s | %s\nwithout the rejected message\n  %s | %s", sn, pn, defined, rejected, gotT, gotC, wantT, wantC))
	}
	res.Trans = []string{"defined|rejected definition|unchanged"}
	return res
}

// c07RunRedefine: a statement name defined again with another (possibly blank) text: Bind / Describe / Execute
// afterwards see the later definition, exactly as on a connection where only that definition was sent.
func c07RunRedefine(name, q1, q2 string, portalBetween bool) explore.Result {
	var res explore.Result
	res.Outcome = "statement-redefined"
	res.Key = fmt.Sprint("redefine", name, q1, q2, portalBetween)
	serve := func(withEarlier bool) (string, string) {
		var trace []string
		parse := func(ctx context.Context, q string) (wire.PreparedStatements, error) {
			trace = append(trace, fmt.Sprintf("parse %q", q))
			cols := wire.Columns{{Name: "a", Oid: oid.T_int4}, {Name: "b", Oid: oid.T_int4}}
			if strings.TrimSpace(q) != "two" {
				cols = cols[:1]
			}
			return wire.Prepared(wire.NewStatement(func(ctx context.Context, w wire.DataWriter, params []wire.Parameter) error {
				trace = append(trace, fmt.Sprintf("stmt %q", q))
				row := []any{int32(258), int32(259)}
				if err := w.Row(row[:len(cols)]); err != nil {
					return err
				}
				return w.Complete("SELECT 1")
			}, wire.WithColumns(cols))), nil
		}
		one, err := harness.StartOne(parse)
		if err != nil {
			return "", "engine: " + err.Error()
		}
		defer one.Stop()
		one.Step(pgproto.Startup("user", "u"))
		if withEarlier {
			pre := pgproto.Parse(name, q1)
			if portalBetween {
				pre = pgproto.Cat(pre, pgproto.Bind("p", name, nil, nil, nil), pgproto.Describe('P', "p"), pgproto.Execute("p", 0))
			}
			one.Step(pgproto.Cat(pre, pgproto.Sync()))
		}
		trace = nil
		out, _ := one.Step(pgproto.Cat(pgproto.Parse(name, q2), pgproto.Describe('S', name), pgproto.Bind("p", name, nil, nil, nil), pgproto.Describe('P', "p"), pgproto.Execute("p", 0), pgproto.Sync()))
		t, _ := harness.CanonTranscript(out)
		return strings.Join(t, " "), strings.Join(trace, "; ")
	}
	gotT, gotC := serve(true)
	wantT, wantC := serve(false)
	if strings.HasPrefix(gotC, "engine:") || strings.HasPrefix(wantC, "engine:") {
		res.Engine = gotC + wantC
		return res
	}
	if gotT != wantT || gotC != wantC {
		res.Fail("redefinition-keeps-earlier-definition", fmt.Sprintf("statement %q defined as %q, then as %q: Describe / Bind / Execute gave\n  %s | %s\nbut on a connection where only the second definition was sent\n  %s | %s", name, q1, q2, gotT, gotC, wantT, wantC))
	}
	res.Trans = []string{"defined|parse again|defined"}
	return res
}

// c07RunNames: two statements and two portals whose names share a long prefix (or one is a prefix of the other):
// each name is its own name. Bind / Execute resolve to the statement parsed under exactly that name, closing one
// name leaves the other resolvable.
func c07RunNames(a, b string) explore.Result {
	var res explore.Result
	res.Outcome = "plain"
	res.Key = fmt.Sprint("names", len(a), len(b), a[len(a)-1:], b[len(b)-1:])
	var trace []string
	parse := func(ctx context.Context, q string) (wire.PreparedStatements, error) {
		return wire.Prepared(wire.NewStatement(func(ctx context.Context, w wire.DataWriter, params []wire.Parameter) error {
			trace = append(trace, "ran "+q)
			return w.Complete(q)
		})), nil
	}
	one, err := harness.StartOne(parse, wire.MessageBufferSize(1<<16))
	if err != nil {
		res.Engine = err.Error()
		return res
	}
	defer one.Stop()
	one.Step(pgproto.Startup("user", "u"))
	what := fmt.Sprintf("names of %d and %d bytes that agree in their first %d bytes", len(a), len(b), commonPrefix(a, b))
	step := func(label string, msgs []byte, wantKinds string, wantTrace ...string) bool {
		trace = nil
		out, _ := one.Step(pgproto.Cat(msgs, pgproto.Sync()))
		if k := harness.Kinds(out); k != wantKinds || !sameStrings(trace, wantTrace) {
			res.Fail("wrong-resolution", fmt.Sprintf("%s: %s answered %q and ran %v, expected %q and %v", what, label, k, trace, wantKinds, wantTrace))
			return false
		}
		return true
	}
	ok := step("Parse both statements", pgproto.Cat(pgproto.Parse(a, "alpha"), pgproto.Parse(b, "beta")), "11Z") &&
		step("Bind a portal to each (portal names = statement names)", pgproto.Cat(pgproto.Bind(a, a, nil, nil, nil), pgproto.Bind(b, b, nil, nil, nil)), "22Z") &&
		step("Execute the first portal", pgproto.Execute(a, 0), "CZ", "ran alpha") &&
		step("Execute the second portal", pgproto.Execute(b, 0), "CZ", "ran beta") &&
		step("Close the first portal, execute the second", pgproto.Cat(pgproto.Close('P', a), pgproto.Execute(b, 0)), "3CZ", "ran beta") &&
		step("Close the first statement, bind and execute the second", pgproto.Cat(pgproto.Close('S', a), pgproto.Bind("", b, nil, nil, nil), pgproto.Execute("", 0)), "32CZ", "ran beta")
	if ok {
		trace = nil
		out, _ := one.Step(pgproto.Cat(pgproto.Bind("", a, nil, nil, nil), pgproto.Sync()))
		if k := harness.Kinds(out); k != "EZ" {
			res.Fail("closed-name-still-resolvable", fmt.Sprintf("%s: Bind to the closed first name answered %q", what, k))
		}
	}
	res.Trans = []string{"two long names|use|resolved"}
	return res
}

func commonPrefix(a, b string) int {
	n := 0
	for n < len(a) && n < len(b) && a[n] == b[n] {
		n++
	}
	return n
}

// c07RunRecycled: a statement is closed while a portal still points at it; whatever is parsed afterwards (any
// name, this or another connection), executing that portal runs the OLD statement or fails - never another one.
func c07RunRecycled(parsesAfter int, otherConn bool) explore.Result {
	var res explore.Result
	res.Outcome = "plain"
	res.Key = fmt.Sprint("recycled", parsesAfter, otherConn)
	ran := map[string][]string{}
	parse := func(ctx context.Context, q string) (wire.PreparedStatements, error) {
		who := wire.RemoteAddress(ctx).String()
		return wire.Prepared(wire.NewStatement(func(ctx context.Context, w wire.DataWriter, params []wire.Parameter) error {
			ran[who] = append(ran[who], q)
			return w.Complete(q)
		})), nil
	}
	srv, err := harness.NewServer(parse)
	if err != nil {
		res.Engine = err.Error()
		return res
	}
	defer srv.Stop()
	c1 := srv.Connect()
	c1.Step(pgproto.Startup("user", "u1"))
	c1.Step(pgproto.Cat(pgproto.Parse("s", "old statement"), pgproto.Bind("p", "s", nil, nil, nil), pgproto.Close('S', "s"), pgproto.Sync()))
	c2 := c1
	if otherConn {
		c2 = srv.Connect()
		c2.Step(pgproto.Startup("user", "u2"))
	}
	for i := 0; i < parsesAfter; i++ {
		c2.Step(pgproto.Cat(pgproto.Parse(fmt.Sprintf("n%d", i%3), fmt.Sprintf("later statement %d", i)), pgproto.Sync()))
	}
	before := len(ran[c1.C.Remote.String()])
	out, _ := c1.Step(pgproto.Cat(pgproto.Execute("p", 0), pgproto.Sync()))
	got := ran[c1.C.Remote.String()][before:]
	k := harness.Kinds(out)
	what := fmt.Sprintf("Parse s, Bind p<-s, Close(S s), then %d further Parse messages (other connection: %v), then Execute p", parsesAfter, otherConn)
	switch {
	case k == "CZ" && len(got) == 1 && got[0] == "old statement":
	case k == "EZ" && len(got) == 0:
	default:
		res.Fail("wrong-resolution", fmt.Sprintf("%s: answered %q and ran %v (the portal may keep the old statement or be gone, never run another one)", what, k, got))
	}
	res.Trans = []string{"portal of a closed statement|execute|old statement or error"}
	return res
}

func c07Enumerate(tier string, emit explore.Emit) {
	// a statement and a portal are defined, then 4.5 ... 9 KB of other messages arrive on the connection and / or
	// other connections come and go, then the portal is executed: the names still resolve (C03's retention runner)
	for _, r := range [][3]int{{3, 1500, 0}, {40, 200, 0}, {100, 60, 0}, {0, 0, 40}, {100, 60, 40}} {
		r := r
		emit(explore.Case{Family: "long-names", Size: 47,
			Desc: func() any {
				return map[string]any{"between_bind_and_execute": fmt.Sprintf("%d Parse messages of %d bytes, %d other connections", r[0], r[1], r[2])}
			},
			Run: func() explore.Result {
				res := c03RunRetention(r[0], r[1], r[2])
				res.Outcome = "plain"
				for i := range res.Violations {
					res.Violations[i].Clause = "wrong-resolution"
				}
				return res
			}})
	}
	for _, sn := range []string{"", "a"} {
		for _, pn := range []string{"", "x"} {
			for _, defined := range []bool{true, false} {
				for _, rejected := range []string{"Bind to an unknown statement", "Parse of two statements", "Parse the parser refuses", "Parse of zero statements"} {
					sn, pn, defined, rejected := sn, pn, defined, rejected
					emit(explore.Case{Family: "rejected-definition", Size: 44,
						Desc: func() any {
							return map[string]any{"statement": sn, "portal": pn, "defined_before": defined, "rejected_message": rejected}
						},
						Run: func() explore.Result { return c07RunRejected(sn, pn, defined, rejected) }})
				}
			}
		}
	}
	for _, n := range []int{1, 31, 62, 63, 64, 65, 127, 128, 255, 256, 1000} {
		base := strings.Repeat("n", n)
		for vi, pair := range [][2]string{{base + "a", base + "b"}, {base, base + "x"}, {base + "x", base}} {
			pair := pair
			emit(explore.Case{Family: "long-names", Size: 45,
				Desc: func() any {
					return map[string]any{"shared_prefix_bytes": n, "variant": vi, "name_lengths": []int{len(pair[0]), len(pair[1])}}
				},
				Run: func() explore.Result { return c07RunNames(pair[0], pair[1]) }})
		}
	}
	for _, k := range []int{0, 1, 2, 3, 8, 70} {
		for _, other := range []bool{false, true} {
			k, other := k, other
			emit(explore.Case{Family: "closed-statement-portal", Size: 46,
				Desc: func() any { return map[string]any{"parses_after_the_close": k, "on_another_connection": other} },
				Run:  func() explore.Result { return c07RunRecycled(k, other) }})
		}
	}
	for _, name := range []string{"", "s"} {
		for _, q1 := range []string{"two", "one"} {
			for _, q2 := range []string{"", " ", "\t\n", "one", "two", " two "} {
				for _, between := range []bool{false, true} {
					name, q1, q2, between := name, q1, q2, between
					emit(explore.Case{Family: "statement-redefine", Size: 40,
						Desc: func() any {
							return map[string]any{"statement": name, "first_text": q1, "second_text": q2, "portal_bound_and_executed_between": between}
						},
						Run: func() explore.Result { return c07RunRedefine(name, q1, q2, between) }})
				}
			}
		}
	}
	shapes := c07Shapes()
	for _, portal := range []string{"", "x"} {
		for _, a := range shapes {
			for _, b := range shapes {
				portal, a, b := portal, a, b
				emit(explore.Case{Family: "portal-rebind", Size: 50,
					Desc: func() any {
						return map[string]any{"portal": portal, "first_bind": a.String(), "second_bind": b.String()}
					},
					Run: func() explore.Result { return c07RunRebind(portal, []c07Shape{a}, b) }})
			}
		}
	}
	alpha := c07Alphabet()
	d1, d2 := c07Depth(tier)
	forShapes(len(alpha), d1, func(sh []int) {
		hist := make([]nletter, len(sh))
		names := make([]string, len(sh))
		for i, s := range sh {
			hist[i] = alpha[s]
			names[i] = alpha[s].Name
		}
		emit(explore.Case{Family: "single-connection", Size: len(hist),
			Desc: func() any { return map[string]any{"history": names} },
			Run:  func() explore.Result { return c07Run(hist) }})
	})
	// definitions that pre-declare parameter types, on statements whose type slice the application shares
	typed := []nletter{
		{Name: "Parse(a,q1)", Kind: "parse", A: "a", B: c07Q1, Bytes: pgproto.Parse("a", c07Q1)},
		{Name: "Parse(a,q1,types=[int4])", Kind: "parse", A: "a", B: c07Q1, Bytes: pgproto.Parse("a", c07Q1, 23)},
		{Name: "Parse(b,q1,types=[int8])", Kind: "parse", A: "b", B: c07Q1, Bytes: pgproto.Parse("b", c07Q1, 20)},
		{Name: "Describe(S a)", Kind: "descS", A: "a", Bytes: pgproto.Describe('S', "a")},
	}
	forShapes(2*len(typed), 4, func(sh []int) {
		if len(sh) < 2 {
			return
		}
		order := make([]twoStep, len(sh))
		names := make([]string, len(sh))
		for i, s := range sh {
			order[i] = twoStep{conn: s / len(typed), l: typed[s%len(typed)]}
			names[i] = fmt.Sprintf("c%d:%s", order[i].conn, order[i].l.Name)
		}
		if order[0].conn != 0 {
			return
		}
		emit(explore.Case{Family: "two-connections", Size: 120 + len(order),
			Desc: func() any {
				return map[string]any{"interleaved_history": names, "application_shares_one_type_slice_per_query": true}
			},
			Run: func() explore.Result {
				c07Shared = true
				defer func() { c07Shared = false }()
				return c07RunTwoTyped(order)
			}})
	})
	two := c07TwoAlphabet()
	forShapes(2*len(two), d2, func(sh []int) {
		if len(sh) < 2 {
			return
		}
		order := make([]twoStep, len(sh))
		names := make([]string, len(sh))
		both := [2]bool{}
		for i, s := range sh {
			order[i] = twoStep{conn: s / len(two), l: two[s%len(two)]}
			both[order[i].conn] = true
			names[i] = fmt.Sprintf("c%d:%s", order[i].conn, order[i].l.Name)
		}
		if !both[0] || !both[1] || order[0].conn != 0 {
			return // single-connection orders are covered above; conn 0 moves first (symmetry)
		}
		emit(explore.Case{Family: "two-connections", Size: 100 + len(order),
			Desc: func() any { return map[string]any{"interleaved_history": names} },
			Run:  func() explore.Result { return c07RunTwo(order) }})
	})
}
