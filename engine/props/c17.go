package props

import (
	"bytes"
	"context"
	"errors"
	"fmt"
	"io"
	"net"
	"os"
	"strconv"
	"strings"
	"verif/engine/memnet"

	"github.com/jeroenrinzema/psql-wire/codes"
	psqlerr "github.com/jeroenrinzema/psql-wire/errors"

	wire "github.com/jeroenrinzema/psql-wire"
	"github.com/jeroenrinzema/psql-wire/pkg/buffer"
	"verif/engine/explore"
	"verif/engine/harness"
	"verif/engine/pgproto"
)

// C17 — Error decorations reach the client field for field.

func init() {
	explore.Register(&explore.Check{
		ID:        "C17",
		Level:     "exploration",
		Technique: "exhaustive enumeration of all decorator nestings up to a depth bound, each executed on the real ErrorCode / live session and compared with an independent outermost-first reference walk",
		Rule: "every sequence (innermost first) of length <= depth over 26 decorator letters {2 codes, 2 severities, 3 hints, 3 details (one each with % verbs), 2 constraint names, 5 source locations + 1 sharing file and line with another + 2 with an empty file / function + 1 whose three parts are all zero, 4 default- or empty-valued decorations, fmt %w wrap} x 5 base texts (incl. the empty text and one with % verbs), plus the nil error; consecutive: every 1-letter error followed by every error of <= 2 letters, the second one checked; text-length: each of message / hint / detail / constraint / source file / source function at every length 1..130 and around 256, 1024, 4096; " +
			"a case is non-trivial when it carries at least one decoration; distinct = distinct (base, shape)",
		Assumptions: []string{"decoration values are non-empty and NUL-free", "a ReadyForQuery after the ErrorResponse written by ErrorCode is tolerated, not required"},
		Enumerate:   c17Enumerate,
		Bounds: func(tier string) map[string]any {
			d, sd := c17Depth(tier)
			return map[string]any{"nesting_depth_direct": d, "nesting_depth_session": sd, "letters": len(decorators()), "bases": len(errBases)}
		},
		RequiredOutcomes: []string{"plain", "decorated", "nil-error"},
	})
}

func c17Depth(tier string) (direct, session int) {
	if tier == "thorough" {
		return 5, 3
	}
	return 4, 2
}

// failingWriter / shortWriter: transports on which writing fails (completely / after half of the bytes).
type failingWriter struct{}

func (failingWriter) Write(p []byte) (int, error) { return 0, errors.New("transport failed") }

type shortWriter struct{}

func (*shortWriter) Write(p []byte) (int, error) {
	return len(p) / 2, errors.New("transport failed half-way")
}

func c17Check(res *explore.Result, raw []byte, want map[byte]string) {
	ms, err := pgproto.ParseBackend(raw)
	if err != nil {
		res.Fail("error-response-grammar", fmt.Sprintf("%v; raw % x", err, raw))
		return
	}
	for len(ms) > 0 && (ms[0].Type == 'C' || ms[0].Type == 'T' || ms[0].Type == 'D') {
		ms = ms[1:] // (results of statements that preceded the failing one inside the same query)
	}
	if len(ms) == 0 || ms[0].Type != 'E' {
		res.Fail("error-response-missing", "expected an ErrorResponse first, got "+pgproto.Kinds(ms))
		return
	}
	got := map[byte]string{}
	for k, v := range ms[0].Fields {
		if k == 'V' && v == ms[0].Fields['S'] {
			continue
		}
		got[k] = v
	}
	if d := diffFields(want, got); d != "" {
		res.Fail("field-mismatch", d+" | got "+ms[0].String())
	}
}

func c17Enumerate(tier string, emit explore.Emit) {
	ds := decorators()
	depth, sdepth := c17Depth(tier)
	// nil error
	emit(explore.Case{Family: "direct", Desc: func() any { return "nil error" }, Run: func() explore.Result {
		var res explore.Result
		res.Outcome, res.Key = "nil-error", "nil"
		var sink bytes.Buffer
		wire.ErrorCode(buffer.NewWriter(harness.Quiet, &sink), nil)
		ms, err := pgproto.ParseBackend(sink.Bytes())
		if err != nil || len(ms) == 0 || ms[0].Type != 'E' {
			res.Fail("nil-error", fmt.Sprintf("no well-formed ErrorResponse: %v", err))
			return res
		}
		f := ms[0].Fields
		if f['S'] != "FATAL" || !strings.HasPrefix(f['C'], "XX") || f['M'] == "" {
			res.Fail("nil-error", "nil error must be reported as internal fatal error with a message, got "+ms[0].String())
		}
		return res
	}})
	for bi, base := range errBases {
		d := depth
		if bi > 0 && d > 3 {
			d-- // the extra bases repeat the structure one level shallower
		}
		forShapes(len(ds), d, func(sh []int) {
			shape := append([]int(nil), sh...)
			emit(explore.Case{Family: "direct", Size: len(shape),
				Desc: func() any { return map[string]any{"base": base, "shape_innermost_first": shapeNames(ds, shape)} },
				Run: func() explore.Result {
					var res explore.Result
					res.Outcome = "decorated"
					if len(shape) == 0 {
						res.Outcome = "plain"
					} else {
						res.Key = fmt.Sprint(bi, shape)
					}
					var sink bytes.Buffer
					ret := wire.ErrorCode(buffer.NewWriter(harness.Quiet, &sink), buildErr(ds, base, shape))
					if ret != nil {
						res.Fail("errorcode-return", fmt.Sprintf("ErrorCode into a healthy sink returned %v", ret))
					}
					c17Check(&res, sink.Bytes(), expectFields(ds, base, shape))
					return res
				}})
		})
	}
	// decorating an error must not change the error that was decorated (values may be shared between connections)
	forShapes(len(ds), 2, func(sh []int) {
		if len(sh) == 0 {
			return
		}
		shape := append([]int(nil), sh...)
		for di := range ds {
			di := di
			emit(explore.Case{Family: "purity", Size: len(shape) + 1,
				Desc: func() any {
					return map[string]any{"base": "boom", "shape_innermost_first": shapeNames(ds, shape), "then_decorated_again_with": ds[di].name, "reported": "the ORIGINAL value, afterwards"}
				},
				Run: func() explore.Result {
					var res explore.Result
					res.Outcome = "decorated"
					res.Key = fmt.Sprint("purity", shape, di)
					orig := buildErr(ds, "boom", shape)
					_ = ds[di].apply(orig) // the derived error is dropped; orig must be unaffected
					var sink bytes.Buffer
					wire.ErrorCode(buffer.NewWriter(harness.Quiet, &sink), orig)
					before := len(res.Violations)
					c17Check(&res, sink.Bytes(), expectFields(ds, "boom", shape))
					if len(res.Violations) > before {
						res.Violations[before].Clause = "decorating-mutated-the-original"
					}
					return res
				}})
		}
	})
	// two errors reported one after the other: what was reported first must not show in the second
	forShapes(len(ds), 1, func(first []int) {
		forShapes(len(ds), 2, func(second []int) {
			if len(first) == 0 || len(second) == 0 {
				return
			}
			first, second := append([]int(nil), first...), append([]int(nil), second...)
			emit(explore.Case{Family: "consecutive", Size: 10 + len(second),
				Desc: func() any {
					return map[string]any{"first_error": shapeNames(ds, first), "then_reported": shapeNames(ds, second), "base": "boom"}
				},
				Run: func() explore.Result {
					var res explore.Result
					res.Outcome = "decorated"
					res.Key = fmt.Sprint("consecutive", first, second)
					var sink bytes.Buffer
					wire.ErrorCode(buffer.NewWriter(harness.Quiet, &sink), buildErr(ds, "first", first))
					sink.Reset()
					// ... and once more to a connection whose transport fails while the report is written
					wire.ErrorCode(buffer.NewWriter(harness.Quiet, failingWriter{}), buildErr(ds, "first (not delivered)", first))
					wire.ErrorCode(buffer.NewWriter(harness.Quiet, &shortWriter{}), buildErr(ds, "first (half delivered)", first))
					wire.ErrorCode(buffer.NewWriter(harness.Quiet, &sink), buildErr(ds, "boom", second))
					before := len(res.Violations)
					c17Check(&res, sink.Bytes(), expectFields(ds, "boom", second))
					if len(res.Violations) > before {
						res.Violations[before].Clause = "earlier-error-shows-in-later-one"
					}
					return res
				}})
		})
	})
	// deep chains: all six kinds of decoration under / between / over up to 12 ordinary wrappers
	{
		kinds := []int{0, 2, 4, 6, 8, 11} // code, severity, hint, detail, constraint, source (indices into decorators())
		wrap := -1
		for i, d := range ds {
			if d.kind == 'w' {
				wrap = i
			}
		}
		for wrapsBelow := 0; wrapsBelow <= 12; wrapsBelow += 2 {
			for wrapsBetween := 0; wrapsBetween <= 2; wrapsBetween++ {
				for wrapsAbove := 0; wrapsAbove <= 12; wrapsAbove += 3 {
					var shape []int
					for i := 0; i < wrapsBelow; i++ {
						shape = append(shape, wrap)
					}
					for _, k := range kinds {
						shape = append(shape, k)
						for i := 0; i < wrapsBetween; i++ {
							shape = append(shape, wrap)
						}
					}
					for i := 0; i < wrapsAbove; i++ {
						shape = append(shape, wrap)
					}
					emit(explore.Case{Family: "deep", Size: len(shape),
						Desc: func() any { return map[string]any{"base": "boom", "shape_innermost_first": shapeNames(ds, shape)} },
						Run: func() explore.Result {
							var res explore.Result
							res.Outcome = "decorated"
							res.Key = fmt.Sprint("deep", shape)
							var sink bytes.Buffer
							wire.ErrorCode(buffer.NewWriter(harness.Quiet, &sink), buildErr(ds, "boom", shape))
							c17Check(&res, sink.Bytes(), expectFields(ds, "boom", shape))
							return res
						}})
				}
			}
		}
	}
	// every text field at every length around the sizes of the writer's internal buffers
	for _, n := range c05TagLengths() {
		if n == 0 {
			continue
		}
		n := n
		for which := 0; which < 6; which++ {
			which := which
			emit(explore.Case{Family: "text-length", Size: 5,
				Desc: func() any {
					return map[string]any{"field": []string{"message", "hint", "detail", "constraint", "source file", "source function"}[which], "length": n, "other_fields": "3 bytes each"}
				},
				Run: func() explore.Result {
					var res explore.Result
					res.Outcome = "decorated"
					res.Key = fmt.Sprint("len", which, n)
					txt := func(i int, c byte) string {
						if i == which {
							return strings.Repeat(string(c), n)
						}
						return strings.Repeat(string(c), 3)
					}
					err := error(errors.New(txt(0, 'm')))
					err = psqlerr.WithHint(err, txt(1, 'h'))
					err = psqlerr.WithDetail(err, txt(2, 'd'))
					err = psqlerr.WithConstraintName(err, txt(3, 'k'))
					err = psqlerr.WithSource(err, txt(4, 'f'), 7, txt(5, 'r'))
					err = psqlerr.WithCode(err, codes.UniqueViolation)
					var sink bytes.Buffer
					wire.ErrorCode(buffer.NewWriter(harness.Quiet, &sink), err)
					c17Check(&res, sink.Bytes(), map[byte]string{'S': "ERROR", 'C': "23505", 'M': txt(0, 'm'), 'H': txt(1, 'h'), 'D': txt(2, 'd'), 'n': txt(3, 'k'), 'F': txt(4, 'f'), 'L': "7", 'R': txt(5, 'r')})
					return res
				}})
		}
	}
	// every SQLSTATE class as the code decoration, with and without a severity decoration / plain wrappers: the
	// code arrives as given and the severity is the decoration or the default ERROR - whatever the class
	for _, class := range []string{"00", "01", "02", "03", "08", "09", "0A", "0B", "0F", "0L", "0P", "0Z", "20", "21", "22", "23", "24", "25", "26", "27", "28", "2B", "2D", "2F", "34", "38", "39", "3B", "3D", "3F", "40", "42", "44", "53", "54", "55", "57", "58", "72", "F0", "HV", "P0", "XX"} {
		for _, tail := range []string{"000", "001", "006", "P01", "P03"} {
			for _, sev := range []string{"", "ERROR", "FATAL", "WARNING"} {
				for _, wraps := range []int{0, 2} {
					code, sev, wraps := class+tail, sev, wraps
					emit(explore.Case{Family: "codes", Size: 3,
						Desc: func() any {
							return map[string]any{"code": code, "severity_decoration": sev, "plain_wrappers_outside": wraps}
						},
						Run: func() explore.Result {
							var res explore.Result
							res.Outcome = "decorated"
							res.Key = fmt.Sprint("code", code, sev, wraps)
							err := psqlerr.WithCode(errors.New("boom"), codes.Code(code))
							want := map[byte]string{'S': "ERROR", 'C': code, 'M': "boom"}
							if sev != "" {
								err = psqlerr.WithSeverity(err, psqlerr.Severity(sev))
								want['S'] = sev
							}
							for i := 0; i < wraps; i++ {
								err = fmt.Errorf("ctx: %w", err)
								want['M'] = "ctx: " + want['M']
							}
							var sink bytes.Buffer
							wire.ErrorCode(buffer.NewWriter(harness.Quiet, &sink), err)
							c17Check(&res, sink.Bytes(), want)
							return res
						}})
				}
			}
		}
	}
	// base errors that are, or wrap, one of the standard library's sentinel errors (a cancelled context, a deadline,
	// io.EOF ...), decorated by the handler: through ErrorCode and through a live session (statement, parser,
	// Execute) the handler's outermost decorations arrive, whatever the base error is
	for bi, base := range []error{context.Canceled, context.DeadlineExceeded, fmt.Errorf("upstream: %w", context.Canceled), fmt.Errorf("upstream: %w", context.DeadlineExceeded),
		io.EOF, fmt.Errorf("upstream: %w", io.ErrUnexpectedEOF), os.ErrDeadlineExceeded, fmt.Errorf("lookup: %w", net.ErrClosed), errors.New("plain")} {
		for _, code := range []string{"", "40001", "57P01", "57014"} {
			for _, sev := range []string{"", "FATAL"} {
				bi, base, code, sev := bi, base, code, sev
				emit(explore.Case{Family: "session", Size: 4,
					Desc: func() any {
						return map[string]any{"base_error": base.Error(), "code_decoration": code, "severity_decoration": sev, "via": "ErrorCode, simple query, parser, Execute"}
					},
					Run: func() explore.Result {
						var res explore.Result
						res.Outcome = "decorated"
						res.Key = fmt.Sprint("std-base", bi, code, sev)
						err := base
						want := map[byte]string{'S': "ERROR", 'C': string(codes.Uncategorized), 'M': base.Error()}
						if code != "" {
							err = psqlerr.WithCode(err, codes.Code(code))
							want['C'] = code
						}
						if sev != "" {
							err = psqlerr.WithSeverity(err, psqlerr.Severity(sev))
							want['S'] = sev
						}
						var sink bytes.Buffer
						wire.ErrorCode(buffer.NewWriter(harness.Quiet, &sink), err)
						c17Check(&res, sink.Bytes(), want)
						parse := func(ctx context.Context, q string) (wire.PreparedStatements, error) {
							if q == "parser fails" {
								return nil, err
							}
							return wire.Prepared(wire.NewStatement(func(ctx context.Context, w wire.DataWriter, p []wire.Parameter) error { return err })), nil
						}
						one, serr := harness.StartOne(parse)
						if serr != nil {
							res.Engine = serr.Error()
							return res
						}
						defer one.Stop()
						one.Step(pgproto.Startup("user", "u"))
						for _, q := range []string{"x", "parser fails"} {
							out, st := one.Step(pgproto.Query(q))
							if st != memnet.Parked {
								break // (an error wrapping io.EOF / a closed connection may end the connection: C05 / C06 judge that)
							}
							before := len(res.Violations)
							c17Check(&res, out, want)
							for i := before; i < len(res.Violations); i++ {
								res.Violations[i].Detail = "simple query " + strconv.Quote(q) + ": " + res.Violations[i].Detail
							}
						}
						out, st := one.Step(pgproto.Cat(pgproto.Parse("", "x"), pgproto.Bind("", "", nil, nil, nil), pgproto.Execute("", 0), pgproto.Sync()))
						if ms, perr := pgproto.ParseBackend(out); perr == nil && len(ms) > 2 && st == memnet.Parked {
							before := len(res.Violations)
							c17Check(&res, pgproto.Msg('E', ms[2].Body), want)
							for i := before; i < len(res.Violations); i++ {
								res.Violations[i].Detail = "extended protocol Execute: " + res.Violations[i].Detail
							}
						}
						return res
					}})
			}
		}
	}
	// a hint / detail / constraint text that equals the message (or another field): set is set
	for _, wraps := range []int{0, 1} {
		for _, which := range []string{"detail", "hint", "constraint", "all three"} {
			wraps, which := wraps, which
			emit(explore.Case{Family: "direct", Size: 3, Desc: func() any {
				return map[string]any{"field_whose_text_equals_the_message": which, "plain_wrappers_inside": wraps}
			},
				Run: func() explore.Result {
					var res explore.Result
					res.Outcome = "decorated"
					res.Key = fmt.Sprint("same-text", which, wraps)
					err := errors.New("disk full")
					for i := 0; i < wraps; i++ {
						err = fmt.Errorf("ctx: %w", err)
					}
					msg := err.Error()
					want := map[byte]string{'S': "ERROR", 'C': string(codes.Uncategorized), 'M': msg}
					if which == "detail" || which == "all three" {
						err = psqlerr.WithDetail(err, msg)
						want['D'] = msg
					}
					if which == "hint" || which == "all three" {
						err = psqlerr.WithHint(err, msg)
						want['H'] = msg
					}
					if which == "constraint" || which == "all three" {
						err = psqlerr.WithConstraintName(err, msg)
						want['n'] = msg
					}
					var sink bytes.Buffer
					wire.ErrorCode(buffer.NewWriter(harness.Quiet, &sink), err)
					c17Check(&res, sink.Bytes(), want)
					return res
				}})
		}
	}
	// the library's own decorated errors take the same road: a message larger than the limit is reported with the
	// fields the library gave that error (non-fatal, class 54000) - after a statement error, before one, alone
	for _, before := range []bool{false, true} {
		for _, limit := range []int{1024, 8192} {
			before, limit := before, limit
			emit(explore.Case{Family: "session", Size: 3,
				Desc: func() any {
					return map[string]any{"error": "the library's own error for a message larger than the limit", "limit": limit, "a_statement_error_before_it": before}
				},
				Run: func() explore.Result {
					var res explore.Result
					res.Outcome = "decorated"
					res.Key = fmt.Sprint("own-size-error", before, limit)
					parse := func(ctx context.Context, q string) (wire.PreparedStatements, error) {
						return wire.Prepared(wire.NewStatement(func(ctx context.Context, w wire.DataWriter, p []wire.Parameter) error {
							return psqlerr.WithCode(errors.New("boom"), codes.UniqueViolation)
						})), nil
					}
					one, err := harness.StartOne(parse, wire.MessageBufferSize(limit))
					if err != nil {
						res.Engine = err.Error()
						return res
					}
					defer one.Stop()
					one.Step(pgproto.Startup("user", "u"))
					if before {
						one.Step(pgproto.Query("x"))
					}
					out, _ := one.Step(pgproto.Query(strings.Repeat("x", 3*limit)))
					ms, perr := pgproto.ParseBackend(out)
					if perr != nil || len(ms) == 0 || ms[0].Type != 'E' {
						res.Fail("error-response-missing", fmt.Sprintf("a Query of %d bytes under a limit of %d: answered %q %v", 3*limit, limit, pgproto.Kinds(ms), perr))
						return res
					}
					if f := ms[0].Fields; f['C'] != "54000" || f['S'] == "FATAL" || f['S'] == "PANIC" || f['M'] == "" {
						res.Fail("field-mismatch", fmt.Sprintf("a Query of %d bytes under a limit of %d is reported as %s (the library builds that error with code 54000 and a non-fatal severity)", 3*limit, limit, ms[0].String()))
					}
					out, _ = one.Step(pgproto.Query("x"))
					c17Check(&res, out, map[byte]string{'S': "ERROR", 'C': "23505", 'M': "boom"})
					return res
				}})
		}
	}
	// once per shape through a live session, as a statement error
	forShapes(len(ds), sdepth, func(sh []int) {
		shape := append([]int(nil), sh...)
		emit(explore.Case{Family: "session", Size: len(shape),
			Desc: func() any {
				return map[string]any{"base": "boom", "shape_innermost_first": shapeNames(ds, shape), "via": "simple query"}
			},
			Run: func() explore.Result {
				var res explore.Result
				res.Outcome = "decorated"
				if len(shape) == 0 {
					res.Outcome = "plain"
				} else {
					res.Key = "s" + fmt.Sprint(shape)
				}
				failing := wire.NewStatement(func(ctx context.Context, w wire.DataWriter, p []wire.Parameter) error {
					return buildErr(ds, "boom", shape)
				})
				afterFailedRow := wire.NewStatement(func(ctx context.Context, w wire.DataWriter, p []wire.Parameter) error {
					_ = w.Row([]any{"fine", struct{}{}}) // the second value cannot be encoded: the row is abandoned half-way
					return buildErr(ds, "boom", shape)
				}, wire.WithColumns(wire.Columns{{Name: "a", Oid: 25}, {Name: "b", Oid: 23}}))
				fine := func() *wire.PreparedStatement {
					return wire.NewStatement(func(ctx context.Context, w wire.DataWriter, p []wire.Parameter) error { return w.Complete("OK") })
				}
				parse := func(ctx context.Context, q string) (wire.PreparedStatements, error) {
					switch q {
					case "second of two fails":
						return wire.Prepared(fine(), failing), nil
					case "first of three fails":
						return wire.Prepared(failing, fine(), fine()), nil
					case "parser fails":
						return nil, buildErr(ds, "boom", shape)
					case "a row fails to encode, then the error":
						return wire.Prepared(afterFailedRow), nil
					}
					return wire.Prepared(failing), nil
				}
				one, err := harness.StartOne(parse)
				if err != nil {
					res.Engine = err.Error()
					return res
				}
				one.Step(pgproto.Startup("user", "u"))
				// the error is reported the same way wherever it arises: a lone statement, a statement inside a
				// multi-statement query, the parser, the extended protocol
				for _, q := range []string{"x", "second of two fails", "first of three fails", "parser fails", "a row fails to encode, then the error"} {
					out, _ := one.Step(pgproto.Query(q))
					before := len(res.Violations)
					c17Check(&res, out, expectFields(ds, "boom", shape))
					for i := before; i < len(res.Violations); i++ {
						res.Violations[i].Detail = "simple query " + strconv.Quote(q) + ": " + res.Violations[i].Detail
					}
				}
				out, _ := one.Step(pgproto.Cat(pgproto.Parse("", "x"), pgproto.Bind("", "", nil, nil, nil), pgproto.Execute("", 0), pgproto.Sync()))
				if ms, err := pgproto.ParseBackend(out); err == nil && len(ms) > 2 {
					before := len(res.Violations)
					var raw bytes.Buffer
					wireErr := ms[2]
					raw.WriteByte('E')
					raw.Write(pgproto.Be32(uint32(len(wireErr.Body) + 4)))
					raw.Write(wireErr.Body)
					c17Check(&res, raw.Bytes(), expectFields(ds, "boom", shape))
					for i := before; i < len(res.Violations); i++ {
						res.Violations[i].Detail = "extended protocol Execute: " + res.Violations[i].Detail
					}
				}
				one.Stop()
				return res
			}})
	})
}
