package props

import (
	"context"
	"fmt"
	"strings"

	wire "github.com/jeroenrinzema/psql-wire"
	"verif/engine/explore"
	"verif/engine/harness"
	"verif/engine/memnet"
	"verif/engine/pgproto"
	"verif/engine/script"
)

// C06 — Extended Query: designated replies, one ReadyForQuery per Sync, skip on error.

func init() {
	explore.Register(&explore.Check{
		ID:        "C06",
		Level:     "model_checking",
		Technique: "exhaustive enumeration of client message histories up to a depth bound over a 33-letter alphabet, replayed on a real server; every per-message reply and callback compared with a set-valued reference model of the extended protocol",
		Rule:      "all histories of length <= d over the alphabet (statements \"\"/\"s\"/unknown \"u\", portals \"\"/\"p\"/\"u\"; parsers and handlers that succeed or fail); replies attributed per message by transport quiescence; pending-input family: the same with every message delivered together with the first bytes of the following one (the reply is due before the rest arrives); distinct = distinct histories",
		Assumptions: []string{
			"not asserted (model forks): SQLSTATE/text of errors; reaction to oversized and unknown-type messages (error, optional ReadyForQuery, skipping or not); the fate of portals bound to a statement that is closed afterwards; whether portals / the unnamed statement survive a Sync or simple Query",
			"two-connection family: each connection is judged by its own model instance, so the skip-until-Sync state must be per connection",
		},
		Enumerate:        c06Enumerate,
		Bounds:           func(tier string) map[string]any { return c06Bounds(tier) },
		RequiredOutcomes: []string{"no-error", "error-then-skip", "error-then-sync", "two-connections", "pending-input"},
	})
}

func c06Bounds(tier string) map[string]any {
	if tier == "thorough" {
		return map[string]any{"full_alphabet_depth": 5, "core16_depth": 6, "errcore8_depth": 8, "pending_input": "core16 depth 4 x leads {1,4,5,all but the last byte}"}
	}
	return map[string]any{"full_alphabet_depth": 3, "core16_depth": 5, "errcore8_depth": 6, "pending_input": "core16 depth 3 x leads {1,5}"}
}

func c06Run(hist []xletter) explore.Result { return c06RunLead(hist, 0) }

// c06RunLead: every message is delivered together with the first lead bytes of the NEXT one (lead < 0: all but
// its last |lead| bytes) — the way a pipelining client's stream is cut by the transport. The reply to a message
// is due as soon as the message is complete: it must not wait for the rest of the following message.
func c06RunLead(hist []xletter, lead int) explore.Result { return c06RunNb(hist, lead, nil) }

// c06RunNb: the history runs while another connection of the same server is parked in some protocol state (e.g. in
// the middle of a COPY, waiting for its client): every reply is still "delivered without waiting for further
// client input" - of anybody.
func c06RunNb(hist []xletter, lead int, nb *neighbour) (res explore.Result) {
	rec := &script.Rec{Extra: copyHandler}
	srv, err := harness.NewServer(rec.ParseFn())
	if err != nil {
		res.Engine = err.Error()
		return res
	}
	defer srv.Stop()
	if nb != nil {
		nc, problem := startNeighbour(srv, *nb)
		if problem != "" {
			res.Engine = problem
			return res
		}
		defer func() {
			if !srv.AnyWedged() {
				finishNeighbour(&res, nc, *nb, fmt.Sprintf("history %v", histNames(hist)))
			}
		}()
	}
	one := &harness.One{Server: srv, Conn: srv.Connect()}
	rec.Conn = one.C
	out, _ := one.Step(pgproto.Startup("user", "u"))
	if !strings.HasSuffix(harnessKinds(out), "Z") {
		res.Engine = "startup failed: " + harnessKinds(out)
		return res
	}
	set := xset{xstate{}: true}
	sawErr, sawSkipDiscard, sawSyncAfterErr := false, false, false
	for i, l := range hist {
		n := len(rec.Evs)
		wasSkipping := false
		for s := range set {
			if s.skip {
				wasSkipping = true
			}
		}
		deliver := l.Bytes
		if lead != 0 {
			next := pgproto.Sync()
			if i+1 < len(hist) {
				next = hist[i+1].Bytes
			}
			cut := func(b []byte) int {
				k := lead
				if k < 0 {
					k = len(b) + lead
				}
				return max(0, min(k, len(b)-1))
			}
			deliver = pgproto.Cat(l.Bytes[cut(l.Bytes)*min(i, 1):], next[:cut(next)])
		}
		out, st := one.Step(deliver)
		ms, perr := pgproto.ParseBackend(out)
		if perr != nil {
			res.Fail("reply-grammar", fmt.Sprintf("step %d %s: %v", i, l.Name, perr))
			return res
		}
		reply := pgproto.Kinds(ms)
		cbs := cbSummary(rec.Evs[n:])
		if st != memnet.Parked {
			res.Fail("connection-dropped", fmt.Sprintf("step %d %s: the connection is %s after the message (reply %q); every message of this alphabet must be answered on a live connection", i, l.Name, st, reply))
			return res
		}
		next, trans, allowed := set.advance(l, reply, cbs)
		if len(next) == 0 {
			clause := "unexpected-reply"
			switch {
			case wasSkipping && len(set) == 1 && (reply != "" || len(cbs) > 0) && l.Kind != "sync":
				clause = "not-discarded-while-skipping"
			case strings.Count(reply, "Z") > 0 && l.Kind != "sync" && l.Kind != "query":
				clause = "ready-for-query-without-sync"
			case reply == "" && !wasSkipping && l.Kind != "flush":
				clause = "silence"
			}
			detail := fmt.Sprintf("step %d %s: reply %q callbacks %v\nmodel states before: %v\nallowed:\n%s", i, l.Name, reply, cbs, set.keys(), allowed)
			if lead != 0 {
				clause = "reply-waits-for-further-input"
				detail = fmt.Sprintf("each message delivered together with the first bytes (lead %d) of the following one; the server is waiting for the rest of that message and so far ", lead) + detail
			}
			res.Fail(clause, detail)
			return res
		}
		if strings.Contains(reply, "E") {
			sawErr = true
		}
		if wasSkipping && l.Kind != "sync" && reply == "" {
			sawSkipDiscard = true
		}
		if wasSkipping && l.Kind == "sync" {
			sawSyncAfterErr = true
		}
		res.Trans = append(res.Trans, trans...)
		set = next
	}
	switch {
	case sawSkipDiscard:
		res.Outcome = "error-then-skip"
	case sawSyncAfterErr:
		res.Outcome = "error-then-sync"
	case sawErr:
		res.Outcome = "error"
	default:
		res.Outcome = "no-error"
	}
	var names []string
	for _, l := range hist {
		names = append(names, l.Name)
	}
	res.Key = strings.Join(names, " ")
	if lead != 0 {
		res.Key += fmt.Sprint(" lead", lead)
		res.Outcome = "pending-input"
	}
	return res
}

func histNames(h []xletter) []string {
	out := make([]string, len(h))
	for i, l := range h {
		out[i] = l.Name
	}
	return out
}

// c06RunBlank: the parser of this server accepts every text, the blank one included (a driver's "is the connection
// alive" probe prepares the empty statement). A Parse of a blank text is a Parse: ParseComplete, the parser is
// consulted, the name is defined; Bind / Describe / Execute / Sync get their designated replies.
func c06RunBlank(name, text string, before bool) explore.Result {
	var res explore.Result
	res.Outcome = "plain"
	res.Key = fmt.Sprint("blank-parse", name, text, before)
	var parsed []string
	parse := func(ctx context.Context, q string) (wire.PreparedStatements, error) {
		parsed = append(parsed, q)
		return wire.Prepared(wire.NewStatement(func(ctx context.Context, w wire.DataWriter, p []wire.Parameter) error {
			return w.Complete("TAG[" + q + "]")
		})), nil
	}
	one, err := harness.StartOne(parse)
	if err != nil {
		res.Engine = err.Error()
		return res
	}
	defer one.Stop()
	one.Step(pgproto.Startup("user", "u"))
	if before {
		one.Step(pgproto.Cat(pgproto.Parse(name, "SELECT 1"), pgproto.Sync()))
	}
	parsed = nil
	steps := []struct {
		what string
		msg  []byte
		want string
	}{
		{"Parse", pgproto.Parse(name, text), "1"},
		{"Bind", pgproto.Bind("", name, nil, nil, nil), "2"},
		{"Describe(S)", pgproto.Describe('S', name), "tn"},
		{"Execute", pgproto.Execute("", 0), "C"},
		{"Sync", pgproto.Sync(), "Z"},
	}
	for _, st := range steps {
		out, _ := one.Step(st.msg)
		ms, perr := pgproto.ParseBackend(out)
		if perr != nil {
			res.Fail("reply-grammar", perr.Error())
			return res
		}
		if k := pgproto.Kinds(ms); k != st.want {
			res.Fail("unexpected-reply", fmt.Sprintf("statement %q parsed with the text %q (a text was stored under the name before: %v): %s answered %q, designated reply %q", name, text, before, st.what, k, st.want))
			return res
		}
		if st.what == "Execute" && ms[0].Tag != "TAG["+text+"]" {
			res.Fail("unexpected-reply", fmt.Sprintf("statement %q parsed with the text %q (an earlier text under the name: %v): Execute ran %q", name, text, before, ms[0].Tag))
		}
	}
	if len(parsed) != 1 || parsed[0] != text {
		res.Fail("callback-mismatch", fmt.Sprintf("statement %q parsed with the text %q: the parser was consulted with %q", name, text, parsed))
	}
	res.Trans = []string{"ready|parse(blank)|parsed"}
	return res
}

func c06Enumerate(tier string, emit explore.Emit) {
	for _, name := range []string{"", "s"} {
		for _, text := range []string{"", " ", "\n\t ", ";"} {
			for _, before := range []bool{false, true} {
				name, text, before := name, text, before
				emit(explore.Case{Family: "full-alphabet", Size: 5, Desc: func() any {
					return map[string]any{"statement": name, "parse_text": text, "name_defined_before": before, "parser": "accepts every text"}
				},
					Run: func() explore.Result { return c06RunBlank(name, text, before) }})
			}
		}
	}
	full, core, errcore := c06Alphabet()
	b := c06Bounds(tier)
	// core16 ⊂ full and errcore8 ⊂ core16, so histories no longer than the
	// previous family's depth were already enumerated there.
	add := func(alpha []xletter, depth int, family string, coveredUpTo int) {
		forShapes(len(alpha), depth, func(sh []int) {
			if len(sh) <= coveredUpTo {
				return
			}
			hist := make([]xletter, len(sh))
			for i, s := range sh {
				hist[i] = alpha[s]
			}
			emit(explore.Case{Family: family, Size: len(hist),
				Desc: func() any { return map[string]any{"history": histNames(hist)} },
				Run:  func() explore.Result { return c06Run(hist) }})
		})
	}
	fd, cd, ed := b["full_alphabet_depth"].(int), b["core16_depth"].(int), b["errcore8_depth"].(int)
	add(full, fd, "full-alphabet", -1)
	add(core, cd, "core16", fd)
	add(errcore, ed, "errcore8", cd)
	// names that are closed and used again (12 letters, not a subset of the families above beyond depth fd)
	closeCore := xCloseCore
	add(closeCore, cd, "close-core14", fd)
	// pending input: each message arrives together with the head of the next one
	leads := []int{1, 5}
	ld := 3
	if tier == "thorough" {
		leads = []int{1, 4, 5, -1}
		ld = 4
	}
	for _, lead := range leads {
		lead := lead
		forShapes(len(core), ld, func(sh []int) {
			if len(sh) == 0 {
				return
			}
			hist := make([]xletter, len(sh))
			for i, s := range sh {
				hist[i] = core[s]
			}
			emit(explore.Case{Family: "pending-input", Size: 30 + len(hist),
				Desc: func() any {
					return map[string]any{"history": histNames(hist), "bytes_of_next_message_delivered_with_each": lead}
				},
				Run: func() explore.Result { return c06RunLead(hist, lead) }})
		})
	}
	// every history of <= 2 core letters while a neighbouring connection is parked (inside COPY-in, discarding, ...)
	for _, nb := range neighbourStates() {
		nb := nb
		forShapes(len(core), 2, func(sh []int) {
			if len(sh) == 0 {
				return
			}
			hist := make([]xletter, len(sh))
			for i, s := range sh {
				hist[i] = core[s]
			}
			emit(explore.Case{Family: "neighbour", Size: 40 + len(hist),
				Desc: func() any { return map[string]any{"history": histNames(hist), "neighbouring_connection": nb.Name} },
				Run:  func() explore.Result { return c06RunNb(hist, 0, &nb) }})
		})
	}
	// two connections on one server, message granularity: the error / skipping state of one
	// connection must not influence the other (each is judged by its own model instance)
	two := []xletter{errcore[0], errcore[1], errcore[2], errcore[4], errcore[7], xletterByName(full, "Query(ok)")} // Parse ok, Parse #perr, Bind, Execute, Sync, Query(ok)
	td := 4
	if tier == "thorough" {
		td = 6
	}
	forShapes(2*len(two), td, func(sh []int) {
		if len(sh) < 2 || sh[0] >= len(two) {
			return // connection 0 moves first (symmetry)
		}
		steps := make([]c06TwoStep, len(sh))
		both := false
		for i, s := range sh {
			steps[i] = c06TwoStep{conn: s / len(two), l: two[s%len(two)]}
			if steps[i].conn == 1 {
				both = true
			}
		}
		if !both {
			return
		}
		emit(explore.Case{Family: "two-connections", Size: 50 + len(steps),
			Desc: func() any {
				var n []string
				for _, st := range steps {
					n = append(n, fmt.Sprintf("c%d:%s", st.conn, st.l.Name))
				}
				return map[string]any{"interleaved_history": n}
			},
			Run: func() explore.Result { return c06RunTwo(steps) }})
	})
}

type c06TwoStep struct {
	conn int
	l    xletter
}

func c06RunTwo(steps []c06TwoStep) explore.Result {
	var res explore.Result
	res.Outcome = "two-connections"
	recs := [2]*script.Rec{{}, {}}
	multi := &script.Multi{M: map[string]*script.Rec{}}
	srv, err := harness.NewServer(multi.ParseFn())
	if err != nil {
		res.Engine = err.Error()
		return res
	}
	defer srv.Stop()
	var conns [2]*harness.Conn
	sets := [2]xset{{xstate{}: true}, {xstate{}: true}}
	for i := 0; i < 2; i++ {
		mc := memnet.NewConn(fmt.Sprintf("mem:c%d", i))
		multi.M[mc.Remote.String()] = recs[i]
		conns[i] = srv.ConnectWith(mc)
		conns[i].Step(pgproto.Startup("user", "u"))
	}
	var names []string
	for i, st := range steps {
		names = append(names, fmt.Sprintf("c%d:%s", st.conn, st.l.Name))
		n := len(recs[st.conn].Evs)
		out, status := conns[st.conn].Step(st.l.Bytes)
		ms, perr := pgproto.ParseBackend(out)
		if perr != nil {
			res.Fail("reply-grammar", fmt.Sprintf("step %d %s: %v", i, names[i], perr))
			return res
		}
		reply := pgproto.Kinds(ms)
		cbs := cbSummary(recs[st.conn].Evs[n:])
		if status != memnet.Parked {
			res.Fail("connection-dropped", fmt.Sprintf("step %d %s: connection %s", i, names[i], status))
			return res
		}
		next, trans, allowed := sets[st.conn].advance(st.l, reply, cbs)
		if len(next) == 0 {
			res.Fail("cross-connection-state", fmt.Sprintf("history %v: step %d %s answered %q callbacks %v; connection %d's own model (states %v) allows:\n%s", names, i, names[i], reply, cbs, st.conn, sets[st.conn].keys(), allowed))
			return res
		}
		res.Trans = append(res.Trans, trans...)
		sets[st.conn] = next
	}
	res.Key = strings.Join(names, " ")
	return res
}
