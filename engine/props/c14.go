package props

import (
	"bytes"
	"context"
	"encoding/binary"
	"fmt"
	"github.com/jackc/pgx/v5/pgtype"
	"io"
	"math"
	"strings"

	wire "github.com/jeroenrinzema/psql-wire"
	"github.com/lib/pq/oid"
	"verif/engine/explore"
	"verif/engine/harness"
	"verif/engine/pgproto"
)

// C14 — Binary COPY rows decode to what was sent, however the stream is chunked.

type c14Type struct {
	Name string
	OID  oid.Oid
	// value of row r encoded in binary, and how the decoded Go value must print
	Enc   func(r int) []byte
	Print func(r int) string
}

func be(n int, v uint64) []byte {
	b := make([]byte, 8)
	binary.BigEndian.PutUint64(b, v)
	return b[8-n:]
}

var c14Types = map[string]c14Type{
	"int4": {"int4", oid.T_int4,
		func(r int) []byte { return be(4, uint64(uint32([]int32{1, -2, 2147483647}[r%3]))) },
		func(r int) string { return fmt.Sprint([]int32{1, -2, 2147483647}[r%3]) }},
	"text": {"text", oid.T_text,
		func(r int) []byte { return []byte([]string{"ab", "", "é"}[r%3]) },
		func(r int) string { return fmt.Sprintf("%q", []string{"ab", "", "é"}[r%3]) }},
	"bool": {"bool", oid.T_bool,
		func(r int) []byte { return []byte{byte(1 - r%2)} },
		func(r int) string { return fmt.Sprint(r%2 == 0) }},
	"int8": {"int8", oid.T_int8,
		func(r int) []byte { return be(8, uint64([]int64{1 << 40, -1, 0}[r%3])) },
		func(r int) string { return fmt.Sprint([]int64{1 << 40, -1, 0}[r%3]) }},
	"float8": {"float8", oid.T_float8,
		func(r int) []byte { return be(8, math.Float64bits([]float64{1.5, -0.25, 0}[r%3])) },
		func(r int) string { return fmt.Sprint([]float64{1.5, -0.25, 0}[r%3]) }},
	"bytea": {"bytea", oid.T_bytea,
		func(r int) []byte { return [][]byte{{0, 255}, {}, {7}}[r%3] },
		func(r int) string { return fmt.Sprint([][]byte{{0, 255}, {}, {7}}[r%3]) }},
}

func c14Tables(tier string) [][]string {
	t := [][]string{{"int4"}, {"text"}, {"int4", "text"}, {"text", "bool", "int4"}}
	if tier == "thorough" {
		t = append(t, []string{"bool"}, []string{"int8"}, []string{"float8"}, []string{"bytea"}, []string{"bytea", "float8", "int8"}, []string{"int8", "bytea"})
	}
	return t
}

// c14Stream describes one encoded stream.
type c14Stream struct {
	Table   []string
	Rows    int
	Nulls   []bool // rows*cols NULL mask
	Trailer bool
}

func (s c14Stream) String() string {
	var m []string
	for r := 0; r < s.Rows; r++ {
		row := ""
		for c := range s.Table {
			if s.Nulls[r*len(s.Table)+c] {
				row += "N"
			} else {
				row += "v"
			}
		}
		m = append(m, row)
	}
	return fmt.Sprintf("table=%v rows=%v trailer=%v", s.Table, m, s.Trailer)
}

func (s c14Stream) encode() (stream []byte, rowEnds []int, want []string) {
	stream = pgproto.BinaryCopyHeader()
	rowEnds = append(rowEnds, len(stream))
	for r := 0; r < s.Rows; r++ {
		fields := make([][]byte, len(s.Table))
		var printed []string
		for c, tn := range s.Table {
			if s.Nulls[r*len(s.Table)+c] {
				printed = append(printed, "<nil>")
				continue
			}
			v := c14Types[tn].Enc(r)
			if v == nil {
				v = []byte{}
			}
			fields[c] = v
			printed = append(printed, c14Types[tn].Print(r))
		}
		stream = append(stream, pgproto.BinaryCopyTuple(fields)...)
		rowEnds = append(rowEnds, len(stream))
		want = append(want, "["+strings.Join(printed, " ")+"]")
	}
	if s.Trailer {
		stream = append(stream, pgproto.BinaryCopyTrailer()...)
	}
	return
}

func c14Print(row []any) string {
	var p []string
	for _, v := range row {
		switch x := v.(type) {
		case nil:
			p = append(p, "<nil>")
		case string:
			p = append(p, fmt.Sprintf("%q", x))
		default:
			p = append(p, fmt.Sprint(x))
		}
	}
	return "[" + strings.Join(p, " ") + "]"
}

type c14Obs struct {
	rows  []string
	final string // "eof" | "error: ..." | "reader: ..."
	reply string
}

// c14Serve sends the chunks as CopyData messages (then CopyDone) to a handler that
// reads rows exactly like examples/copy does.
func c14Serve(table []string, chunks [][]byte) (c14Obs, string) {
	return c14ServeWith(table, chunks, pgproto.CopyDone(), 0)
}

// c14ServeWith: like c14Serve with a chosen terminating message and message limit (0 = harness default).
func c14ServeWith(table []string, chunks [][]byte, terminator []byte, limit int) (c14Obs, string) {
	var o c14Obs
	cols := make(wire.Columns, len(table))
	for i, tn := range table {
		cols[i] = wire.Column{Name: fmt.Sprintf("c%d", i), Oid: c14Types[tn].OID}
	}
	parse := func(ctx context.Context, q string) (wire.PreparedStatements, error) {
		return wire.Prepared(wire.NewStatement(func(ctx context.Context, w wire.DataWriter, p []wire.Parameter) error {
			cr, err := w.CopyIn(wire.BinaryFormat)
			if err != nil {
				return err
			}
			rd, err := wire.NewBinaryColumnReader(ctx, cr)
			if err != nil {
				o.final = "reader: " + err.Error()
				return err
			}
			for {
				row, err := rd.Read(ctx)
				if err == io.EOF {
					o.final = "eof"
					break
				}
				if err != nil {
					o.final = "error: " + err.Error()
					return err
				}
				o.rows = append(o.rows, c14Print(row))
				if len(o.rows) > 1000 {
					o.final = "error: runaway reader"
					return fmt.Errorf("runaway")
				}
			}
			return w.Complete(fmt.Sprintf("COPY %d", len(o.rows)))
		}, wire.WithColumns(cols))), nil
	}
	var sopts []wire.OptionFn
	if limit > 0 {
		sopts = append(sopts, wire.MessageBufferSize(limit))
	}
	one, err := harness.StartOne(parse, sopts...)
	if err != nil {
		return o, err.Error()
	}
	defer one.Stop()
	one.Step(pgproto.Startup("user", "u"))
	out, _ := one.Step(pgproto.Query("copy"))
	if k := harness.Kinds(out); k != "TG" {
		return o, "COPY did not start: " + k
	}
	var seg []byte
	for _, c := range chunks {
		seg = append(seg, pgproto.CopyData(c)...)
	}
	seg = append(seg, terminator...)
	out, _ = one.Step(seg)
	o.reply = harness.Kinds(out)
	out, _ = one.Step(pgproto.Query("again"))
	if k := harness.Kinds(out); k != "TG" {
		o.reply += " then:" + k
	}
	return o, ""
}

// c14RunAfterFailed: a binary COPY that ends badly (and leaves bytes it never consumed) is followed by a second,
// valid COPY on the same connection: the second one yields exactly the rows the client encoded, under every split.
func c14RunAfterFailed(bad string, cuts []int) explore.Result {
	var res explore.Result
	res.Outcome = "split"
	res.Key = fmt.Sprint("after-failed", bad, cuts)
	var o c14Obs
	cols := wire.Columns{{Name: "c0", Oid: c14Types["int4"].OID}, {Name: "c1", Oid: c14Types["text"].OID}}
	parse := func(ctx context.Context, q string) (wire.PreparedStatements, error) {
		return wire.Prepared(wire.NewStatement(func(ctx context.Context, w wire.DataWriter, p []wire.Parameter) error {
			o = c14Obs{}
			cr, err := w.CopyIn(wire.BinaryFormat)
			if err != nil {
				return err
			}
			rd, err := wire.NewBinaryColumnReader(ctx, cr)
			if err != nil {
				o.final = "reader: " + err.Error()
				return err
			}
			for len(o.rows) < 100 {
				row, err := rd.Read(ctx)
				if err == io.EOF {
					o.final = "eof"
					return w.Complete(fmt.Sprintf("COPY %d", len(o.rows)))
				}
				if err != nil {
					o.final = "error: " + err.Error()
					return err
				}
				o.rows = append(o.rows, c14Print(row))
			}
			return fmt.Errorf("runaway")
		}, wire.WithColumns(cols))), nil
	}
	one, err := harness.StartOne(parse)
	if err != nil {
		res.Engine = err.Error()
		return res
	}
	defer one.Stop()
	one.Step(pgproto.Startup("user", "u"))
	good := pgproto.Cat(pgproto.BinaryCopyHeader(), pgproto.BinaryCopyTuple([][]byte{{0, 0, 0, 1}, []byte("one")}), pgproto.BinaryCopyTuple([][]byte{{0, 0, 0, 2}, nil}), pgproto.BinaryCopyTrailer())
	want := []string{c14Print([]any{int32(1), "one"}), c14Print([]any{int32(2), nil})}
	tail := pgproto.Cat(pgproto.BinaryCopyTuple([][]byte{{0, 0, 0, 9}, []byte("left over")}), pgproto.BinaryCopyTuple([][]byte{{0, 0, 0, 8}, []byte("left over too")}))
	var first [][]byte
	end := pgproto.CopyDone()
	switch bad {
	case "a tuple with three fields, more tuples behind it in the same message":
		first = [][]byte{pgproto.Cat(pgproto.BinaryCopyHeader(), []byte{0, 3, 0, 0, 0, 1, 'x', 0, 0, 0, 1, 'y', 0, 0, 0, 1, 'z'}, tail)}
	case "an int4 field of 3 bytes, more tuples behind it":
		first = [][]byte{pgproto.Cat(pgproto.BinaryCopyHeader(), []byte{0, 2, 0, 0, 0, 3, 1, 2, 3, 0, 0, 0, 1, 'y'}, tail)}
	case "a wrong signature, tuples behind it":
		first = [][]byte{pgproto.Cat([]byte("PGCOPX\n\377\r\n\000\000\000\000\000\000\000\000\000"), tail)}
	case "the client aborts half-way through a value":
		first = [][]byte{pgproto.Cat(pgproto.BinaryCopyHeader(), []byte{0, 2, 0, 0, 0, 4, 0, 0}), tail}
		end = pgproto.CopyFail("changed my mind")
	case "the stream stops half-way through a value":
		first = [][]byte{pgproto.Cat(pgproto.BinaryCopyHeader(), []byte{0, 2, 0, 0, 0, 4, 0, 0, 0, 7, 0, 0, 0, 9, 'a', 'b'})}
	case "a complete stream":
		first = [][]byte{good}
	}
	if out, _ := one.Step(pgproto.Query("copy")); harness.Kinds(out) != "TG" {
		res.Engine = "COPY did not start: " + harness.Kinds(out)
		return res
	}
	var seg []byte
	for _, c := range first {
		seg = append(seg, pgproto.CopyData(c)...)
	}
	one.Step(pgproto.Cat(seg, end))
	firstFinal := o.final
	if out, _ := one.Step(pgproto.Query("copy again")); harness.Kinds(out) != "TG" {
		res.Fail("split-dependent", fmt.Sprintf("after a COPY that ended badly (%s; reader: %q) the next COPY did not start: %q", bad, firstFinal, harness.Kinds(out)))
		return res
	}
	seg = nil
	for _, c := range splitAt(good, cuts) {
		seg = append(seg, pgproto.CopyData(c)...)
	}
	out, _ := one.Step(pgproto.Cat(seg, pgproto.CopyDone()))
	if !sameStrings(o.rows, want) || o.final != "eof" || harness.Kinds(out) != "CZ" {
		res.Fail("split-dependent", fmt.Sprintf("a COPY that ended badly (%s; its reader ended with %q), then a valid stream of two rows split at %v on the same connection: rows %v, reader ended with %q, reply %q; expected %v", bad, firstFinal, cuts, o.rows, o.final, harness.Kinds(out), want))
	}
	res.Trans = []string{"failed copy|valid copy|rows"}
	return res
}

// c14RunRetainedRows: the handler keeps the rows it was handed (the values themselves, not copies) beyond the end
// of its COPY; then further COPYs run (on the same and on another connection) with other bytes. What the first
// handler holds still reads as the rows its client encoded. Columns of the types whose decoded values refer to
// the bytes of the stream (bit / varbit / bytea) are the interesting ones.
func c14RunRetainedRows(later int, otherConn bool) explore.Result {
	var res explore.Result
	res.Outcome = "split"
	res.Key = fmt.Sprint("retained-rows", later, otherConn)
	type kept struct {
		row   []any
		shown string
	}
	var keep []kept
	first := true
	parse := func(ctx context.Context, q string) (wire.PreparedStatements, error) {
		return wire.Prepared(wire.NewStatement(func(ctx context.Context, w wire.DataWriter, p []wire.Parameter) error {
			cr, err := w.CopyIn(wire.BinaryFormat)
			if err != nil {
				return err
			}
			rd, err := wire.NewBinaryColumnReader(ctx, cr)
			if err != nil {
				return err
			}
			for {
				row, err := rd.Read(ctx)
				if err == io.EOF {
					break
				}
				if err != nil {
					return err
				}
				if first {
					keep = append(keep, kept{row, fmt.Sprintf("%v", row)})
				}
			}
			first = false
			return w.Complete("COPY")
		}, wire.WithColumns(wire.Columns{{Name: "mask", Oid: 1562}, {Name: "b", Oid: 17}, {Name: "t", Oid: 25}, {Name: "fixed", Oid: 1560}}))), nil
	}
	srv, err := harness.NewServer(parse)
	if err != nil {
		res.Engine = err.Error()
		return res
	}
	defer srv.Stop()
	bits := func(n int, fill byte) []byte {
		return append(pgproto.Be32(uint32(n)), bytes.Repeat([]byte{fill}, (n+7)/8)...)
	}
	stream := func(fill byte, rows int) []byte {
		s := pgproto.BinaryCopyHeader()
		for i := 0; i < rows; i++ {
			s = append(s, pgproto.BinaryCopyTuple([][]byte{bits(16+8*i, fill), bytes.Repeat([]byte{fill}, 5+i), []byte(strings.Repeat(string(rune('a'+i)), 6)), bits(8, fill)})...)
		}
		return append(s, pgproto.BinaryCopyTrailer()...)
	}
	a := srv.Connect()
	a.Step(pgproto.Startup("user", "a"))
	a.Step(pgproto.Query("copy"))
	a.Step(pgproto.Cat(pgproto.CopyData(stream(0xAA, 3)), pgproto.CopyDone()))
	if len(keep) != 3 {
		res.Engine = fmt.Sprintf("the first COPY delivered %d rows", len(keep))
		return res
	}
	c := a
	if otherConn {
		c = srv.Connect()
		c.Step(pgproto.Startup("user", "b"))
	}
	for i := 0; i < later; i++ {
		c.Step(pgproto.Query("copy"))
		c.Step(pgproto.Cat(pgproto.CopyData(stream(byte(0x0F+i), 4)), pgproto.CopyDone()))
		for n, k := range keep {
			if now := fmt.Sprintf("%v", k.row); now != k.shown {
				res.Fail("split-dependent", fmt.Sprintf("row %d of the first COPY was handed over as %s; after %d later COPYs (other connection: %v) the same values read %s", n, k.shown, i+1, otherConn, now))
				return res
			}
		}
	}
	res.Trans = []string{"rows handed over|later copies|rows unchanged"}
	return res
}

func splitAt(b []byte, cuts []int) [][]byte {
	var out [][]byte
	prev := 0
	for _, c := range cuts {
		out = append(out, b[prev:c])
		prev = c
	}
	return append(out, b[prev:])
}

func c14Judge(res *explore.Result, s c14Stream, o c14Obs, want []string, where string) {
	if !sameStrings(o.rows, want) || o.final != "eof" {
		clause := "rows-differ"
		switch {
		case strings.HasPrefix(o.final, "error") && len(o.rows) <= len(want) && sameStrings(o.rows, want[:len(o.rows)]):
			clause = "well-formed-stream-rejected"
		case len(o.rows) > len(want):
			clause = "fabricated-row"
		}
		res.Fail(clause, fmt.Sprintf("%s %s: handler read rows %v then %q; the client encoded %v", s, where, o.rows, o.final, want))
		return
	}
	if o.reply != "CZ" {
		res.Fail("copy-cycle", fmt.Sprintf("%s %s: COPY cycle answered %q, expected CommandComplete + ReadyForQuery", s, where, o.reply))
	}
}

func init() {
	explore.Register(&explore.Check{
		ID:          "C14",
		Level:       "model_checking",
		Technique:   "exhaustive enumeration of binary COPY streams (table shapes x row sets x NULL placements x trailer) x all splits into CopyData messages up to a cut bound x single corruptions, decoded by the real BinaryCopyReader inside a live session and compared with what an independent encoder produced",
		Rule:        "tables of 1-3 columns over int4/text/bool (+int8/float8/bytea thorough), 0-2 rows with every NULL placement, trailer present/absent; every split with <= k cuts (deviation = one cut), uniform chunk sizes, empty CopyData interleaved; headers with an extension area of 1 / 7 / 40 bytes x every single cut and double cuts around the header; values of 65535 / 65536 / 70000 bytes (thorough up to 1 MiB) under 9 splits; corruptions: field count +1/-1/0/65535, field length beyond the data / 0xFFFFFFFE, every truncation point",
		Assumptions: []string{"header flags are 0", "a stream truncated exactly at a row boundary is indistinguishable from a trailer-less stream and must decode cleanly"},
		Enumerate:   c14Enumerate,
		Bounds: func(tier string) map[string]any {
			return map[string]any{"max_cuts": c14Cuts(tier), "tables": c14Tables(tier)}
		},
		RequiredOutcomes: []string{"split", "corruption-rejected", "truncation"},
	})
}

func c14Cuts(tier string) int {
	if tier == "thorough" {
		return 3
	}
	return 2
}

// c14Extra: (a) the client aborts AFTER the end-of-data trailer; (b) a value longer than the
// connection's message limit, legally split over several CopyData messages.
func c14Extra(tier string, emit explore.Emit) {
	for _, table := range [][]string{{"int4"}, {"text", "bool", "int4"}} {
		for rows := 0; rows <= 2; rows++ {
			s := c14Stream{Table: table, Rows: rows, Nulls: make([]bool, rows*len(table)), Trailer: true}
			stream, _, want := s.encode()
			for _, ab := range []struct {
				name string
				msg  []byte
			}{{"CopyFail", pgproto.CopyFail("client changed its mind")}, {"Query", pgproto.Query("again")}, {"unknown message", pgproto.Msg('z', nil)}} {
				for _, cut := range []int{0, len(stream) - 2, len(stream) / 2} {
					ab, cut := ab, cut
					emit(explore.Case{Family: "abort-after-trailer", Size: rows,
						Desc: func() any {
							return map[string]any{"stream": s.String(), "then": ab.name + " instead of CopyDone", "split_at": cut}
						},
						Run: func() explore.Result {
							var res explore.Result
							res.Outcome = "corruption-rejected"
							res.Key = fmt.Sprint("abort-after-trailer", s.String(), ab.name, cut)
							chunks := [][]byte{stream}
							if cut > 0 {
								chunks = splitAt(stream, []int{cut})
							}
							o, eng := c14ServeWith(s.Table, chunks, ab.msg, 0)
							if eng != "" {
								res.Engine = eng
								return res
							}
							res.Trans = []string{fmt.Sprintf("rows=%d|trailer then %s|aborted", s.Rows, ab.name)}
							if len(o.rows) > len(want) || !sameStrings(o.rows, want[:len(o.rows)]) {
								res.Fail("fabricated-row", fmt.Sprintf("%s then %s: rows %v", s, ab.name, o.rows))
							}
							if !strings.HasPrefix(o.final, "error") {
								res.Fail("abort-after-trailer-lost", fmt.Sprintf("%s: the client sent the trailer and then %s instead of CopyDone; the reader ended with %q and the server answered %q — the abort must surface as a non-EOF error and be reported", s, ab.name, o.final, o.reply))
							} else if !strings.HasPrefix(o.reply, "EZ") {
								res.Fail("copy-cycle", fmt.Sprintf("%s then %s: aborted COPY answered %q, expected ErrorResponse + ReadyForQuery", s, ab.name, o.reply))
							}
							return res
						}})
				}
			}
		}
	}
	for _, cfg := range c14BigValueConfigs() {
		cfg := cfg
		emit(explore.Case{Family: "value-larger-than-limit", Size: 1,
			Desc: func() any {
				return map[string]any{"message_limit": cfg.limit, "text_value_bytes": cfg.size, "copydata_chunk": cfg.chunk}
			},
			Run: func() explore.Result { return c14BigValue(cfg) }})
	}
}

// c14RunTypeMaps: "each value per its column type" — the type is what the CONNECTION's type map says the column's
// OID is. Two connections whose type maps bind one OID to different types copy the same 8 bytes, one after the other.
func c14RunTypeMaps(order []string) explore.Result {
	var res explore.Result
	res.Outcome = "split"
	res.Key = fmt.Sprint("typemaps", order)
	const privOID = 70001
	rows := map[string][]string{}
	parse := func(ctx context.Context, q string) (wire.PreparedStatements, error) {
		user := wire.AuthenticatedUsername(ctx)
		if user == "" {
			user = string(wire.ClientParameters(ctx)["user"])
		}
		return wire.Prepared(wire.NewStatement(func(ctx context.Context, w wire.DataWriter, p []wire.Parameter) error {
			cr, err := w.CopyIn(wire.BinaryFormat)
			if err != nil {
				return err
			}
			rd, err := wire.NewBinaryColumnReader(ctx, cr)
			if err != nil {
				return err
			}
			for {
				row, err := rd.Read(ctx)
				if err == io.EOF {
					break
				}
				if err != nil {
					rows[user] = append(rows[user], "error: "+err.Error())
					return err
				}
				rows[user] = append(rows[user], fmt.Sprintf("%T:%v", row[0], row[0]))
			}
			return w.Complete("COPY")
		}, wire.WithColumns(wire.Columns{{Name: "v", Oid: privOID}}))), nil
	}
	mw := wire.SessionMiddleware(func(ctx context.Context) (context.Context, error) {
		var t *pgtype.Type
		switch string(wire.ClientParameters(ctx)["user"]) {
		case "as-text":
			t = &pgtype.Type{Name: "priv_text", OID: privOID, Codec: pgtype.TextCodec{}}
		case "as-int8":
			t = &pgtype.Type{Name: "priv_int8", OID: privOID, Codec: pgtype.Int8Codec{}}
		}
		if t != nil {
			wire.TypeMap(ctx).RegisterType(t)
		}
		return ctx, nil
	})
	srv, err := harness.NewServer(parse, mw)
	if err != nil {
		res.Engine = err.Error()
		return res
	}
	defer srv.Stop()
	val := []byte{0, 0, 1, 0x1f, 0x71, 0xfb, 4, 0xcb} // int8 1234567890123
	stream := pgproto.Cat(pgproto.BinaryCopyHeader(), pgproto.BinaryCopyTuple([][]byte{val}), pgproto.BinaryCopyTrailer())
	want := map[string]string{"as-text": "string:" + string(val), "as-int8": "int64:1234567890123"}
	for i, user := range order {
		c := srv.Connect()
		c.Step(pgproto.Startup("user", user))
		if out, _ := c.Step(pgproto.Query("copy")); harness.Kinds(out) != "TG" {
			res.Engine = "COPY did not start: " + harness.Kinds(out)
			return res
		}
		before := len(rows[user])
		out, _ := c.Step(pgproto.Cat(pgproto.CopyData(stream), pgproto.CopyDone()))
		got := rows[user][before:]
		if len(got) != 1 || got[0] != want[user] || harness.Kinds(out) != "CZ" {
			res.Fail("value-decoded-with-another-connections-type", fmt.Sprintf("connection %d of %v (its type map binds OID %d to %s): the row decoded as %q (reply %q), expected %q", i+1, order, privOID, user[3:], got, harness.Kinds(out), want[user]))
		}
		c.End()
	}
	res.Trans = []string{fmt.Sprintf("server|%d connections with their own type maps|server", len(order))}
	return res
}

type c14BigCfg struct{ limit, size, chunk int }

// c14BigValueConfigs: a 200 / 3000-byte text value under a message limit of 64 / 1024 bytes, split into CopyData
// messages below the limit (also used by C10: every single message is within the limit, so all are processed)
func c14BigValueConfigs() []c14BigCfg {
	return []c14BigCfg{{64, 200, 50}, {64, 65, 40}, {64, 100, 50}, {1024, 3000, 700}, {1024, 1025, 1000}, {4096, 6000, 4000}, {65536, 100000, 65000}}
}

func c14BigValue(cfg c14BigCfg) explore.Result {
	var res explore.Result
	res.Outcome = "split"
	res.Key = fmt.Sprint("big-value", cfg)
	val := bytes.Repeat([]byte{'v'}, cfg.size)
	stream := pgproto.Cat(pgproto.BinaryCopyHeader(), pgproto.BinaryCopyTuple([][]byte{{0, 0, 0, 9}, val}), pgproto.BinaryCopyTrailer())
	var cuts []int
	for c := cfg.chunk; c < len(stream); c += cfg.chunk {
		cuts = append(cuts, c)
	}
	o, eng := c14ServeWith([]string{"int4", "text"}, splitAt(stream, cuts), pgproto.CopyDone(), cfg.limit)
	if eng != "" {
		res.Engine = eng
		return res
	}
	want := []string{fmt.Sprintf("[9 %q]", val)}
	res.Trans = []string{fmt.Sprintf("limit=%d|value %d bytes in %d-byte chunks|decoded", cfg.limit, cfg.size, cfg.chunk)}
	if !sameStrings(o.rows, want) || o.final != "eof" {
		res.Fail("well-formed-stream-rejected", fmt.Sprintf("message limit %d, a %d-byte value sent in CopyData messages of %d bytes (each below the limit): reader ended with %q after %d rows", cfg.limit, cfg.size, cfg.chunk, o.final, len(o.rows)))
	}
	return res
}

// c14Header: streams whose header carries a non-empty extension area (the format allows it; readers skip it),
// and values of 64 KiB and more: every split must decode to the same rows.
func c14Header(tier string, emit explore.Emit) {
	rows := pgproto.Cat(pgproto.BinaryCopyTuple([][]byte{{0, 0, 0, 1}, []byte("one")}), pgproto.BinaryCopyTuple([][]byte{{0, 0, 0, 2}, nil}), pgproto.BinaryCopyTuple([][]byte{{0, 0, 0, 3}, []byte("")}))
	want := []string{`[1 "one"]`, `[2 <nil>]`, `[3 ""]`}
	for _, ext := range []int{1, 7, 40} {
		stream := pgproto.Cat(pgproto.CopySignature, pgproto.Be32(0), pgproto.Be32(uint32(ext)), bytes.Repeat([]byte{0xEE}, ext), rows, pgproto.BinaryCopyTrailer())
		var cutSets [][]int
		cutSets = append(cutSets, nil)
		for a := 1; a < len(stream); a++ {
			cutSets = append(cutSets, []int{a})
			if tier == "thorough" || ext <= 7 {
				for b := a + 1; b < len(stream) && b < 19+ext+12; b++ {
					cutSets = append(cutSets, []int{a, b})
				}
			}
		}
		for _, cuts := range cutSets {
			cuts, ext := cuts, ext
			emit(explore.Case{Family: "header-extension", Size: len(cuts),
				Desc: func() any { return map[string]any{"header_extension_bytes": ext, "cuts": cuts, "rows": want} },
				Run: func() explore.Result {
					var res explore.Result
					res.Outcome = "split"
					res.Key = fmt.Sprint("ext", ext, cuts)
					o, eng := c14ServeWith([]string{"int4", "text"}, splitAt(stream, cuts), pgproto.CopyDone(), 0)
					if eng != "" {
						res.Engine = eng
						return res
					}
					res.Trans = []string{fmt.Sprintf("header+extension|%d cuts|decoded", len(cuts))}
					if !sameStrings(o.rows, want) || o.final != "eof" {
						res.Fail("split-dependent", fmt.Sprintf("header extension area of %d bytes, stream split at %v: rows %v, reader ended with %q; expected %v", ext, cuts, o.rows, o.final, want))
					}
					return res
				}})
		}
	}
	// header extension lengths at the 31 / 32-bit boundary (far more than the client ever sends): an error, or a
	// reader that waits for the rest and meets the end of the stream - never a crash, never a fabricated row
	for _, ext := range []uint32{0x7fffffff, 0x80000000, 0x80000013, 0xfffffffe, 0xffffffff, 0x00010000} {
		for _, cuts := range [][]int{nil, {19}, {17}, {25}} {
			ext, cuts := ext, cuts
			emit(explore.Case{Family: "header-extension", Size: 3,
				Desc: func() any {
					return map[string]any{"declared_header_extension_bytes": ext, "bytes_behind_the_header": 60, "cuts": cuts}
				},
				Run: func() explore.Result {
					var res explore.Result
					res.Outcome = "split"
					res.Key = fmt.Sprint("ext-declared", ext, cuts)
					stream := pgproto.Cat(pgproto.CopySignature, pgproto.Be32(0), pgproto.Be32(ext), rows, pgproto.BinaryCopyTrailer())
					o, eng := c14ServeWith([]string{"int4", "text"}, splitAt(stream, cuts), pgproto.CopyDone(), 0)
					if eng != "" {
						res.Engine = eng
						return res
					}
					if len(o.rows) != 0 || o.final == "eof" {
						res.Fail("split-dependent", fmt.Sprintf("a header declaring an extension area of %d bytes followed by %d bytes (split at %v): rows %v, reader ended with %q; expected an error and no row", ext, len(stream)-19, cuts, o.rows, o.final))
					}
					return res
				}})
		}
	}
	sizes := []int{65535, 65536, 70000}
	if tier == "thorough" {
		sizes = append(sizes, 65537, 131072, 200000, 1<<20)
	}
	for _, size := range sizes {
		val := make([]byte, size)
		for i := range val {
			val[i] = byte('a' + i%23)
		}
		stream := pgproto.Cat(pgproto.BinaryCopyHeader(), pgproto.BinaryCopyTuple([][]byte{{0, 0, 0, 9}, val}), pgproto.BinaryCopyTuple([][]byte{{0, 0, 0, 8}, []byte("tail")}), pgproto.BinaryCopyTrailer())
		valueStart := 19 + 2 + 4 + 4 + 4
		uniform := func(c int) []int {
			var cuts []int
			for x := c; x < len(stream); x += c {
				cuts = append(cuts, x)
			}
			return cuts
		}
		for name, cuts := range map[string][]int{"one message": nil, "cut at the start of the value": {valueStart}, "cut 100 bytes into the value": {valueStart + 100},
			"cut 1 byte before the end of the value": {valueStart + size - 1}, "cuts 100 bytes into the value and 100 before its end": {valueStart + 100, valueStart + size - 100},
			"8192-byte messages": uniform(8192), "65536-byte messages": uniform(65536), "65535-byte messages": uniform(65535), "3 equal messages": uniform(len(stream)/3 + 1)} {
			name, cuts, size := name, cuts, size
			emit(explore.Case{Family: "large-value", Size: len(cuts),
				Desc: func() any { return map[string]any{"value_bytes": size, "split": name} },
				Run: func() explore.Result {
					var res explore.Result
					res.Outcome = "split"
					res.Key = fmt.Sprint("large", size, name)
					o, eng := c14ServeWith([]string{"int4", "text"}, splitAt(stream, cuts), pgproto.CopyDone(), 4<<20)
					if eng != "" {
						res.Engine = eng
						return res
					}
					res.Trans = []string{fmt.Sprintf("value %d bytes|%s|decoded", size, name)}
					want := []string{fmt.Sprintf("[9 %q]", val), `[8 "tail"]`}
					if !sameStrings(o.rows, want) || o.final != "eof" {
						got := fmt.Sprint(len(o.rows), " rows")
						if len(o.rows) > 0 && len(o.rows[0]) > 60 {
							got += ", first begins " + o.rows[0][:60]
						}
						res.Fail("split-dependent", fmt.Sprintf("a %d-byte value, %s: reader ended with %q, %s; the single-message decoding is 2 rows, first begins %s", size, name, o.final, got, want[0][:60]))
					}
					return res
				}})
		}
	}
}

func c14Enumerate(tier string, emit explore.Emit) {
	c14Extra(tier, emit)
	c14Header(tier, emit)
	// a fixed-width column (int4 / int8 / bool) whose field is sent with another, self-consistent length
	for _, col := range []struct {
		t     string
		width int
	}{{"int4", 4}, {"int8", 8}, {"bool", 1}} {
		for _, w := range []int{0, 1, 2, 3, 4, 5, 7, 8, 9, 16} {
			if w == col.width {
				continue
			}
			col, w := col, w
			emit(explore.Case{Family: "corruption", Size: 2,
				Desc: func() any {
					return map[string]any{"column_type": col.t, "field_sent_with_bytes": w, "then": "a well-formed row"}
				},
				Run: func() explore.Result {
					var res explore.Result
					res.Outcome = "corrupt"
					res.Key = fmt.Sprint("width", col.t, w)
					val := bytes.Repeat([]byte{1}, w)
					good := c14Types[col.t].Enc(0)
					stream := pgproto.Cat(pgproto.BinaryCopyHeader(), pgproto.BinaryCopyTuple([][]byte{val, []byte("x")}), pgproto.BinaryCopyTuple([][]byte{good, []byte("y")}), pgproto.BinaryCopyTrailer())
					o, eng := c14ServeWith([]string{col.t, "text"}, [][]byte{stream}, pgproto.CopyDone(), 0)
					if eng != "" {
						res.Engine = eng
						return res
					}
					res.Trans = []string{"row|field of the wrong width|error"}
					if !strings.HasPrefix(o.final, "error") || len(o.rows) != 0 {
						res.Fail("corruption-accepted", fmt.Sprintf("a %s field sent with %d bytes: the reader produced rows %v and ended with %q (a value that is not of the column's type is an error, never a row)", col.t, w, o.rows, o.final))
					}
					return res
				}})
		}
	}
	// values whose bytes read "\\.", "\\.\\n" or "\\.\\r\\n" (the TEXT format's end-of-data marker means nothing in a binary
	// stream): every split with <= 2 cuts around them
	{
		marker := [][]byte{{0x5c, 0x2e, 0x0d, 0x0a}, {0x00, 0x5c, 0x2e, 0x0a}}
		stream := pgproto.Cat(pgproto.BinaryCopyHeader(),
			pgproto.BinaryCopyTuple([][]byte{marker[0], []byte("a\\.\nb")}),
			pgproto.BinaryCopyTuple([][]byte{marker[1], []byte("\\.")}),
			pgproto.BinaryCopyTuple([][]byte{{0, 0, 0, 3}, []byte("\\.\r\n")}),
			pgproto.BinaryCopyTrailer())
		want := []string{fmt.Sprintf("[%d %q]", int32(0x5c2e0d0a), "a\\.\nb"), fmt.Sprintf("[%d %q]", int32(0x005c2e0a), "\\."), fmt.Sprintf("[3 %q]", "\\.\r\n")}
		n := len(stream)
		var cutSets [][]int
		for a := 19; a < n; a++ {
			cutSets = append(cutSets, []int{a})
			for b := a + 1; b <= a+4 && b < n; b++ {
				cutSets = append(cutSets, []int{a, b})
			}
		}
		for _, cuts := range cutSets {
			cuts := cuts
			emit(explore.Case{Family: "split", Size: 100 + len(cuts), Desc: func() any {
				return map[string]any{"stream": "values spelling the text end-of-data marker", "cuts": cuts}
			},
				Run: func() explore.Result {
					var res explore.Result
					res.Outcome = "split"
					res.Key = fmt.Sprint("marker", cuts)
					o, eng := c14ServeWith([]string{"int4", "text"}, splitAt(stream, cuts), pgproto.CopyDone(), 0)
					if eng != "" {
						res.Engine = eng
						return res
					}
					res.Trans = []string{"marker bytes|split|decoded"}
					if !sameStrings(o.rows, want) || o.final != "eof" {
						res.Fail("split-dependent", fmt.Sprintf("binary values spelling the text end-of-data marker, stream split at %v: rows %v, reader ended with %q; expected %v", cuts, o.rows, o.final, want))
					}
					return res
				}})
		}
	}
	// streams of 300 KiB and more in few large messages (one message, 200000-byte messages, 70000-byte messages)
	for _, chunk := range []int{0, 200000, 70000, 65536} {
		chunk := chunk
		emit(explore.Case{Family: "many-rows", Size: 400, Desc: func() any { return map[string]any{"rows": 60, "value_bytes": 6000, "copydata_chunk": chunk} },
			Run: func() explore.Result {
				var res explore.Result
				res.Outcome = "split"
				res.Key = fmt.Sprint("big-stream", chunk)
				stream := pgproto.BinaryCopyHeader()
				var want []string
				for r := 0; r < 60; r++ {
					val := bytes.Repeat([]byte{byte('a' + r%26)}, 6000)
					copy(val, fmt.Sprintf("row-%03d-", r))
					stream = append(stream, pgproto.BinaryCopyTuple([][]byte{{0, 0, 0, byte(r)}, val})...)
					want = append(want, fmt.Sprintf("[%d %q]", r, val))
				}
				stream = append(stream, pgproto.BinaryCopyTrailer()...)
				var cuts []int
				for c := chunk; chunk > 0 && c < len(stream); c += chunk {
					cuts = append(cuts, c)
				}
				o, eng := c14ServeWith([]string{"int4", "text"}, splitAt(stream, cuts), pgproto.CopyDone(), 1<<20)
				if eng != "" {
					res.Engine = eng
					return res
				}
				res.Trans = []string{"360 KB|decode|rows"}
				if !sameStrings(o.rows, want) || o.final != "eof" {
					first := "count"
					for i := range want {
						if i >= len(o.rows) || o.rows[i] != want[i] {
							first = fmt.Sprintf("row %d differs", i)
							if i < len(o.rows) {
								first += fmt.Sprintf(" (decoded value begins %.40s)", o.rows[i])
							}
							break
						}
					}
					res.Fail("split-dependent", fmt.Sprintf("60 rows with 6000-byte values (CopyData messages of %d bytes, 0 = one message): %d rows decoded, reader ended with %q; %s", chunk, len(o.rows), o.final, first))
				}
				return res
			}})
	}
	for _, bad := range []string{"a tuple with three fields, more tuples behind it in the same message", "an int4 field of 3 bytes, more tuples behind it", "a wrong signature, tuples behind it",
		"the client aborts half-way through a value", "the stream stops half-way through a value", "a complete stream"} {
		for _, cuts := range [][]int{nil, {5}, {19}, {21}, {19, 25}, {30}} {
			bad, cuts := bad, cuts
			emit(explore.Case{Family: "split", Size: 200, Desc: func() any {
				return map[string]any{"earlier_copy_on_the_connection": bad, "then_a_valid_stream_cut_at": cuts}
			},
				Run: func() explore.Result { return c14RunAfterFailed(bad, cuts) }})
		}
	}
	for _, later := range []int{1, 2, 9} {
		for _, other := range []bool{false, true} {
			later, other := later, other
			emit(explore.Case{Family: "many-rows", Size: 300, Desc: func() any {
				return map[string]any{"rows_of_the_first_copy_are_kept_by_the_handler": true, "later_copies": later, "on_another_connection": other}
			},
				Run: func() explore.Result { return c14RunRetainedRows(later, other) }})
		}
	}
	// streams of 65535 ... 131075 rows (counters of 16 bits wrap there), in CopyData messages of 8000 bytes
	for _, rows := range []int{65535, 65536, 65537, 65541, 131075} {
		rows := rows
		emit(explore.Case{Family: "many-rows", Size: 500, Desc: func() any { return map[string]any{"rows": rows, "columns": "int4", "copydata_chunk": 8000} },
			Run: func() explore.Result {
				var res explore.Result
				res.Outcome = "split"
				res.Key = fmt.Sprint("rows", rows)
				count, last, final := 0, int32(-1), ""
				parse := func(ctx context.Context, q string) (wire.PreparedStatements, error) {
					return wire.Prepared(wire.NewStatement(func(ctx context.Context, w wire.DataWriter, p []wire.Parameter) error {
						cr, err := w.CopyIn(wire.BinaryFormat)
						if err != nil {
							return err
						}
						rd, err := wire.NewBinaryColumnReader(ctx, cr)
						if err != nil {
							return err
						}
						for {
							row, err := rd.Read(ctx)
							if err == io.EOF {
								final = "eof"
								return w.Complete("COPY")
							}
							if err != nil {
								final = "error: " + err.Error()
								return err
							}
							if v, ok := row[0].(int32); ok && v == last+1 {
								last = v
							}
							count++
						}
					}, wire.WithColumns(wire.Columns{{Name: "n", Oid: 23}}))), nil
				}
				one, err := harness.StartOne(parse, wire.MessageBufferSize(1<<16))
				if err != nil {
					res.Engine = err.Error()
					return res
				}
				defer one.Stop()
				one.Step(pgproto.Startup("user", "u"))
				one.Step(pgproto.Query("copy"))
				stream := pgproto.BinaryCopyHeader()
				for i := 0; i < rows; i++ {
					stream = append(stream, 0, 1, 0, 0, 0, 4, byte(i>>24), byte(i>>16), byte(i>>8), byte(i))
				}
				stream = append(stream, pgproto.BinaryCopyTrailer()...)
				var seg []byte
				for len(stream) > 0 {
					n := min(8000, len(stream))
					seg = append(seg, pgproto.CopyData(stream[:n])...)
					stream = stream[n:]
				}
				one.Step(append(seg, pgproto.CopyDone()...))
				if count != rows || int(last) != rows-1 || final != "eof" {
					res.Fail("split-dependent", fmt.Sprintf("a stream of %d int4 rows (0, 1, 2 ...) in CopyData messages of 8000 bytes: the reader delivered %d rows (in order up to %d) and ended with %q", rows, count, last, final))
				}
				return res
			}})
	}
	// tuples announcing fewer fields than the table has columns (0, 1 of 2): an error, never a crash or a row
	for _, fields := range []int{0, 1, 3, 0x7fff, 0x8000, 0xfffe} {
		for _, after := range []int{0, 1} {
			fields, after := fields, after
			emit(explore.Case{Family: "wrong-width", Size: 3, Desc: func() any {
				return map[string]any{"tuple_field_count": fields, "table_columns": 2, "good_rows_before_it": after}
			},
				Run: func() explore.Result {
					var res explore.Result
					res.Outcome = "split"
					res.Key = fmt.Sprint("field-count", fields, after)
					stream := pgproto.BinaryCopyHeader()
					var want []string
					for i := 0; i < after; i++ {
						stream = append(stream, pgproto.BinaryCopyTuple([][]byte{{0, 0, 0, 7}, []byte("seven")})...)
						want = append(want, c14Print([]any{int32(7), "seven"}))
					}
					stream = append(stream, byte(fields>>8), byte(fields), 0, 0, 0, 4, 0, 0, 0, 9, 0, 0, 0, 1, 'x')
					stream = append(stream, pgproto.BinaryCopyTrailer()...)
					o, eng := c14ServeWith([]string{"int4", "text"}, [][]byte{stream}, pgproto.CopyDone(), 0)
					if eng != "" {
						res.Engine = eng
						return res
					}
					if !sameStrings(o.rows, want) || !strings.HasPrefix(o.final, "error") {
						res.Fail("split-dependent", fmt.Sprintf("a tuple announcing %d fields in a table of 2 columns (after %d good rows): rows %v, reader ended with %q; expected %v and an error", fields, after, o.rows, o.final, want))
					}
					return res
				}})
		}
	}
	// long streams: 300 rows with NULLs in changing positions, one message and 100-byte messages
	for _, chunk := range []int{0, 100, 8192} {
		chunk := chunk
		emit(explore.Case{Family: "many-rows", Size: 300, Desc: func() any { return map[string]any{"rows": 300, "copydata_chunk": chunk} },
			Run: func() explore.Result {
				var res explore.Result
				res.Outcome = "split"
				res.Key = fmt.Sprint("many", chunk)
				stream := pgproto.BinaryCopyHeader()
				var want []string
				for r := 0; r < 300; r++ {
					id := []byte{0, 0, byte(r >> 8), byte(r)}
					var name []byte
					w := fmt.Sprintf("[%d <nil>]", r)
					if r%3 != 2 && r%64 != 1 {
						name = []byte(fmt.Sprintf("name-%d", r))
						w = fmt.Sprintf("[%d %q]", r, name)
					}
					if r%5 == 4 {
						id = nil
						w = "[<nil>" + w[strings.Index(w, " "):]
					}
					stream = append(stream, pgproto.BinaryCopyTuple([][]byte{id, name})...)
					want = append(want, w)
				}
				stream = append(stream, pgproto.BinaryCopyTrailer()...)
				var cuts []int
				for c := chunk; chunk > 0 && c < len(stream); c += chunk {
					cuts = append(cuts, c)
				}
				o, eng := c14ServeWith([]string{"int4", "text"}, splitAt(stream, cuts), pgproto.CopyDone(), 0)
				if eng != "" {
					res.Engine = eng
					return res
				}
				res.Trans = []string{"300 rows|decode|rows"}
				if !sameStrings(o.rows, want) || o.final != "eof" {
					first := "count"
					for i := range want {
						if i >= len(o.rows) || o.rows[i] != want[i] {
							got := "(missing)"
							if i < len(o.rows) {
								got = o.rows[i]
							}
							first = fmt.Sprintf("row %d: encoded %s, decoded %s", i, want[i], got)
							break
						}
					}
					res.Fail("split-dependent", fmt.Sprintf("300 rows (CopyData messages of %d bytes): %d rows decoded, reader ended with %q; first difference: %s", chunk, len(o.rows), o.final, first))
				}
				return res
			}})
	}
	for _, order := range [][]string{{"as-text", "as-int8"}, {"as-int8", "as-text"}, {"as-text", "as-int8", "as-text"}, {"as-int8", "as-int8", "as-text", "as-int8"}} {
		order := order
		emit(explore.Case{Family: "per-connection-types", Size: len(order),
			Desc: func() any { return map[string]any{"sequential_connections_binding_one_oid_to": order} },
			Run:  func() explore.Result { return c14RunTypeMaps(order) }})
	}
	for _, table := range c14Tables(tier) {
		nc := len(table)
		for rows := 0; rows <= 2; rows++ {
			for mask := 0; mask < 1<<(rows*nc); mask++ {
				nulls := make([]bool, rows*nc)
				for i := range nulls {
					nulls[i] = mask>>i&1 == 1
				}
				for _, trailer := range []bool{true, false} {
					s := c14Stream{Table: table, Rows: rows, Nulls: nulls, Trailer: trailer}
					c14EnumerateStream(tier, s, emit)
				}
			}
		}
	}
}

func c14EnumerateStream(tier string, s c14Stream, emit explore.Emit) {
	stream, rowEnds, want := s.encode()
	n := len(stream)
	splitCase := func(cuts []int, empties bool, size int) {
		cuts = append([]int(nil), cuts...)
		emit(explore.Case{Family: "split", Size: size,
			Desc: func() any {
				return map[string]any{"stream": s.String(), "bytes": n, "cuts": cuts, "empty_copydata_interleaved": empties}
			},
			Run: func() explore.Result {
				var res explore.Result
				res.Outcome = "split"
				chunks := splitAt(stream, cuts)
				if empties {
					var c2 [][]byte
					for _, c := range chunks {
						c2 = append(c2, []byte{}, c)
					}
					chunks = append(c2, []byte{})
				}
				o, eng := c14Serve(s.Table, chunks)
				if eng != "" {
					res.Engine = eng
					return res
				}
				c14Judge(&res, s, o, want, fmt.Sprintf("cuts=%v empties=%v", cuts, empties))
				res.Key = fmt.Sprint(s.String(), cuts, empties)
				res.States = []string{fmt.Sprintf("rows=%d/cuts=%d", s.Rows, len(cuts))}
				res.Trans = []string{fmt.Sprintf("rows=%d|cuts=%d,empties=%v|decoded", s.Rows, len(cuts), empties)}
				return res
			}})
	}
	// whole, every single cut, every double cut (triple: thorough, short streams)
	splitCase(nil, false, 0)
	splitCase(nil, true, 0)
	maxCuts := c14Cuts(tier)
	// the multi-cut enumeration is only taken for the interesting NULL masks to keep the product bounded:
	// every mask for <=1 cut, every mask with <=1 NULL for 2+ cuts
	nullCount := 0
	for _, b := range s.Nulls {
		if b {
			nullCount++
		}
	}
	for a := 1; a < n; a++ {
		splitCase([]int{a}, false, 1)
		if a%7 == 0 {
			splitCase([]int{a}, true, 1)
		}
		if maxCuts >= 2 && nullCount <= 1 && (tier == "thorough" || s.Trailer) {
			for b := a + 1; b < n; b++ {
				splitCase([]int{a, b}, false, 2)
				if maxCuts >= 3 && n <= 48 {
					for c := b + 1; c < n; c++ {
						splitCase([]int{a, b, c}, false, 3)
					}
				}
			}
		}
	}
	if tier == "thorough" {
		for size := 1; size < n; size++ {
			var cuts []int
			for c := size; c < n; c += size {
				cuts = append(cuts, c)
			}
			splitCase(cuts, false, len(cuts))
		}
	}
	// corruptions and truncations only on the all-non-NULL / single-NULL streams with a trailer
	if nullCount > 1 || !s.Trailer {
		return
	}
	corrupt := func(name string, bad []byte, goodRows int, mustFail bool) {
		for _, cut := range []int{0, len(bad) / 2} {
			cut := cut
			emit(explore.Case{Family: "corruption", Size: 1,
				Desc: func() any { return map[string]any{"stream": s.String(), "corruption": name, "split_at": cut} },
				Run: func() explore.Result {
					var res explore.Result
					res.Outcome = "corruption-rejected"
					if !mustFail {
						res.Outcome = "truncation"
					}
					var chunks [][]byte
					if cut == 0 {
						chunks = [][]byte{bad}
					} else {
						chunks = splitAt(bad, []int{cut})
					}
					o, eng := c14Serve(s.Table, chunks)
					if eng != "" {
						res.Engine = eng
						return res
					}
					res.Key = fmt.Sprint(s.String(), name, cut)
					res.Trans = []string{fmt.Sprintf("rows=%d|%s|%v", s.Rows, strings.Fields(name)[0], mustFail)}
					if len(o.rows) > goodRows || !sameStrings(o.rows, want[:len(o.rows)]) {
						res.Fail("fabricated-row", fmt.Sprintf("%s corruption %q: handler received rows %v although only %v precede the corruption", s, name, o.rows, want[:goodRows]))
						return res
					}
					if mustFail {
						if !strings.HasPrefix(o.final, "error") {
							res.Fail("corruption-accepted", fmt.Sprintf("%s corruption %q: reader ended with %q after rows %v; a non-nil non-EOF error is required", s, name, o.final, o.rows))
						}
					} else if o.final != "eof" || len(o.rows) != goodRows {
						res.Fail("clean-truncation-rejected", fmt.Sprintf("%s %q: reader ended with %q after rows %v, expected %d rows then EOF", s, name, o.final, o.rows, goodRows))
					}
					return res
				}})
		}
	}
	// field-count corruptions in every row
	for r := 0; r < s.Rows; r++ {
		start := rowEnds[r]
		for _, fc := range []struct {
			n string
			v uint16
		}{{"+1", uint16(len(s.Table) + 1)}, {"-1", uint16(len(s.Table) - 1)}, {"0", 0}, {"65535-mid-stream", 65535}, {"32768", 32768}} {
			if int(fc.v) == len(s.Table) {
				continue
			}
			if fc.v == 65535 && r == s.Rows-1 && false {
				continue
			}
			bad := append([]byte(nil), stream...)
			binary.BigEndian.PutUint16(bad[start:], fc.v)
			if fc.v == 65535 {
				// 0xFFFF in place of a tuple reads as the end-of-data trailer followed by garbage:
				// accepted as end of data (rows before it) or rejected, never a fabricated row
				corruptTolerant(emit, s, fmt.Sprintf("field count of row %d set to 65535", r), bad, r, want)
				continue
			}
			corrupt(fmt.Sprintf("field-count of row %d set to %s (%d)", r, fc.n, fc.v), bad, r, true)
		}
		// structurally well-formed tuples of the wrong width: an extra field / a missing field
		{
			extra := append([]byte(nil), stream[:rowEnds[r+1]]...)
			binary.BigEndian.PutUint16(extra[start:], uint16(len(s.Table)+1))
			extra = append(extra, 0, 0, 0, 1, 'x')
			extra = append(extra, stream[rowEnds[r+1]:]...)
			corrupt(fmt.Sprintf("row %d carries one well-formed field more than the table has columns", r), extra, r, true)
			extraNull := append([]byte(nil), stream[:rowEnds[r+1]]...)
			binary.BigEndian.PutUint16(extraNull[start:], uint16(len(s.Table)+1))
			extraNull = append(extraNull, 0xff, 0xff, 0xff, 0xff)
			extraNull = append(extraNull, stream[rowEnds[r+1]:]...)
			corrupt(fmt.Sprintf("row %d carries an extra NULL field", r), extraNull, r, true)
			if len(s.Table) > 1 && !s.Nulls[r*len(s.Table)+len(s.Table)-1] {
				// drop the last field of the row
				lastLen := len(c14Types[s.Table[len(s.Table)-1]].Enc(r)) + 4
				fewer := append([]byte(nil), stream[:rowEnds[r+1]-lastLen]...)
				binary.BigEndian.PutUint16(fewer[start:], uint16(len(s.Table)-1))
				fewer = append(fewer, stream[rowEnds[r+1]:]...)
				corrupt(fmt.Sprintf("row %d lacks its last field", r), fewer, r, true)
			}
		}
		// field length corruptions: first non-NULL field of the row
		off := start + 2
		for c := range s.Table {
			if s.Nulls[r*len(s.Table)+c] {
				off += 4
				continue
			}
			for _, fl := range []uint32{0xFFFFFFFE, uint32(n), 0x7FFFFFFF} {
				bad := append([]byte(nil), stream...)
				binary.BigEndian.PutUint32(bad[off:], fl)
				corrupt(fmt.Sprintf("field-length of row %d column %d set to %d", r, c, fl), bad, r, true)
			}
			break
		}
	}
	// truncations: every prefix (without the trailer), then CopyDone
	body := stream[:len(stream)-2]
	for cut := 0; cut <= len(body); cut++ {
		good := 0
		clean := cut == 0
		for i, e := range rowEnds {
			if e <= cut {
				good = i
			}
			if e == cut {
				clean = true
			}
		}
		pre := append([]byte(nil), body[:cut]...)
		if cut == 0 {
			good = 0
		}
		if clean {
			corrupt(fmt.Sprintf("truncated cleanly after %d bytes", cut), pre, good, false)
		} else {
			corrupt(fmt.Sprintf("truncated after %d bytes", cut), pre, good, true)
		}
	}
}

// corruptTolerant: outcome may be EOF-after-prefix or an error, never extra rows.
func corruptTolerant(emit explore.Emit, s c14Stream, name string, bad []byte, goodRows int, want []string) {
	emit(explore.Case{Family: "corruption", Size: 1,
		Desc: func() any { return map[string]any{"stream": s.String(), "corruption": name} },
		Run: func() explore.Result {
			var res explore.Result
			res.Outcome = "corruption-rejected"
			o, eng := c14Serve(s.Table, [][]byte{bad})
			if eng != "" {
				res.Engine = eng
				return res
			}
			res.Key = fmt.Sprint(s.String(), name)
			if len(o.rows) > goodRows || !sameStrings(o.rows, want[:len(o.rows)]) {
				res.Fail("fabricated-row", fmt.Sprintf("%s corruption %q: handler received rows %v although only %v precede the corruption", s, name, o.rows, want[:goodRows]))
			}
			return res
		}})
}
