package props

import (
	"fmt"
	"strings"

	"verif/engine/explore"
	"verif/engine/harness"
	"verif/engine/memnet"
	"verif/engine/pgproto"
)

// A neighbour is another connection of the SAME server, parked in some protocol state while the subject
// session of a case runs. Afterwards the neighbour is completed and must still be exactly in the state
// it was left in. The parser must understand script programs and the "copyt:drain" op (script.Rec with
// Extra: copyHandler).
type neighbour struct {
	Name   string
	Prep   [][]byte // delivered one by one, the neighbour must be parked after each
	Finish []byte
	Want   string // kinds of the reply to Finish ("*Z": anything without an error ending in ReadyForQuery; "~Z": anything ending in ReadyForQuery)
}

func neighbourStates() []neighbour {
	st := pgproto.Startup("user", "neighbour")
	return []neighbour{
		{"discarding until Sync after a failed Parse", [][]byte{st, pgproto.Parse("", "#perr")}, pgproto.Cat(pgproto.Parse("", progRows), pgproto.Sync()), "Z"},
		{"inside COPY-in", [][]byte{st, pgproto.Query("1:copyt:drain"), pgproto.CopyData([]byte("x\n"))}, pgproto.CopyDone(), "CZ"},
		{"inside an extended batch (statement and portal defined, no Sync yet)", [][]byte{st, pgproto.Parse("s", progRows), pgproto.Bind("p", "s", nil, nil, nil)}, pgproto.Cat(pgproto.Execute("p", 0), pgproto.Sync()), "DCZ"},
		{"connected, start-up message not sent yet", nil, st, "*Z"},
		{"after a failed simple query", [][]byte{st, pgproto.Query("1:r,!boom")}, pgproto.Query(progRows), "TDCZ"},
	}
}

func startNeighbour(srv *harness.Server, nb neighbour) (*harness.Conn, string) {
	c := srv.Connect()
	for i, p := range nb.Prep {
		if _, st := c.Step(p); st != memnet.Parked {
			return c, fmt.Sprintf("neighbour %q: connection is %s after preparation step %d", nb.Name, st, i)
		}
	}
	return c, ""
}

// finishNeighbour completes the neighbour and checks that it was left undisturbed.
func finishNeighbour(res *explore.Result, c *harness.Conn, nb neighbour, what string) {
	pending := c.C.Take() // nothing may have been written to a parked neighbour meanwhile
	if len(pending) > 0 {
		res.Fail("neighbour-disturbed", fmt.Sprintf("%s: the neighbouring connection (%s) received %q although it sent nothing", what, nb.Name, harness.Kinds(pending)))
		return
	}
	out, _ := c.Step(nb.Finish)
	k := harness.Kinds(out)
	ok := k == nb.Want
	if nb.Want == "*Z" {
		ok = strings.HasSuffix(k, "Z") && !strings.Contains(k, "E")
	}
	if nb.Want == "~Z" { // anything that ends with ReadyForQuery (errors included)
		ok = strings.HasSuffix(k, "Z") && !strings.HasSuffix(k, "!")
	}
	if !ok {
		res.Fail("neighbour-disturbed", fmt.Sprintf("%s: the neighbouring connection (%s) answered its completion with %q, expected %q", what, nb.Name, k, nb.Want))
	}
}
