//go:build verif

// Package sched is the driver side of the cooperative scheduler: depth-first
// search over schedules with iterative preemption bounding, sharding over
// worker processes, determinism self-checks and replay.
package sched

import (
	"encoding/json"
	"fmt"
	"os"
	"sort"
	"strings"
	"sync/atomic"
	"time"

	"github.com/jeroenrinzema/psql-wire/pkg/verifshim/vsched"
	"verif/engine/explore"
)

// Verdict is what a scenario's oracle says about one execution.
type Verdict struct {
	Violations []explore.Violation
	Outcome    string   // outcome class of this schedule (distinct outcomes are counted)
	Notes      []string // tolerated observations (e.g. WaitGroup contract misuse)
}

// Scenario is one closed system: Body runs as the first managed thread and
// builds a fresh server etc.; Judge evaluates the finished execution.
type Scenario struct {
	Name     string
	Property string
	Desc     string
	MaxSteps int
	// New returns the body and the judge for one fresh execution.
	New func() (body func(), judge func(x *vsched.Exec) Verdict)
}

// Stats accumulate over a search.
type Stats struct {
	Schedules  int
	Steps      int
	Points     int
	MaxThreads int
	HBKeys     map[uint64]struct{}
	Outcomes   map[string]int
	Notes      map[string]int
	Pruned     int
	Samples    []any
	Complete   bool
	BoundDone  int
}

func choicesOf(x *vsched.Exec) []int {
	c := make([]int, len(x.Points))
	for i, p := range x.Points {
		c[i] = p.Chosen
	}
	return c
}

// RunOnce executes the scenario under the given schedule prefix.
// execsDone counts finished executions (the worker's watchdog looks at it).
var execsDone atomic.Int64

func RunOnce(sc *Scenario, prefix []int, verbose bool) (*vsched.Exec, Verdict) {
	defer execsDone.Add(1)
	body, judge := sc.New()
	max := sc.MaxSteps
	if max == 0 {
		max = 20000
	}
	x := vsched.Run(prefix, max, verbose, body)
	v := judge(x)
	if x.Diverged != "" {
		v.Violations = append(v.Violations, explore.Violation{Clause: "ENGINE-replay-divergence", Detail: x.Diverged})
	}
	if x.StepLimit {
		v.Violations = append(v.Violations, explore.Violation{Clause: "livelock", Detail: fmt.Sprintf("the execution did not finish within %d scheduling steps", max)})
	}
	if vsched.Unsupported != "" {
		// nothing observed in an execution the scheduler did not control is a verdict
		v.Violations = []explore.Violation{{Clause: "ENGINE-unsupported", Detail: vsched.Unsupported}}
	}
	return x, v
}

// Explorer performs the bounded DFS.
type Explorer struct {
	Sc       *Scenario
	Bound    int // preemption bound; <0 = unbounded
	HBCache  bool
	Deadline time.Time
	Stats    *Stats
	OnExec   func(choices []int, x *vsched.Exec, v Verdict)
	seen     map[uint64]int
	stop     bool
}

func NewStats() *Stats {
	return &Stats{HBKeys: map[uint64]struct{}{}, Outcomes: map[string]int{}, Notes: map[string]int{}, Complete: true}
}

func (e *Explorer) note(choices []int, x *vsched.Exec, v Verdict) {
	s := e.Stats
	s.Schedules++
	s.Steps += x.Steps
	s.Points += len(x.Points)
	if x.Threads > s.MaxThreads {
		s.MaxThreads = x.Threads
	}
	for _, k := range x.HBKeys {
		s.HBKeys[k] = struct{}{}
	}
	s.Outcomes[v.Outcome]++
	for _, n := range v.Notes {
		s.Notes[n]++
	}
	if len(s.Samples) < 4 {
		s.Samples = append(s.Samples, map[string]any{"scenario": e.Sc.Name, "schedule_choices": choices, "steps": x.Steps, "threads": x.Threads, "outcome": v.Outcome})
	}
	if e.OnExec != nil {
		e.OnExec(choices, x, v)
	}
}

// expand lists the alternative prefixes branching off execution x at decision
// points >= from, within the preemption bound. With state caching, a decision
// point whose state (happens-before key, running thread, preemptions used) was
// already expanded with at most as many preemptions used ends the expansion:
// everything reachable from it has been (or will be) explored from the earlier visit.
func (e *Explorer) expand(x *vsched.Exec, from int) [][]int {
	var out [][]int
	choices := choicesOf(x)
	used := 0
	for i := 0; i < len(x.Points); i++ {
		p := x.Points[i]
		if i >= from {
			if e.HBCache {
				var hb uint64
				if p.Step > 0 && p.Step-1 < len(x.HBKeys) {
					hb = x.HBKeys[p.Step-1]
				}
				key := (hb ^ p.Cur*0x9E3779B97F4A7C15) * 0xff51afd7ed558ccd
				if prev, ok := e.seen[key]; ok && prev <= used {
					e.Stats.Pruned++
					break
				}
				e.seen[key] = used
			}
			c := used
			if p.CurEnabled {
				c++
			}
			if e.Bound < 0 || c <= e.Bound {
				for alt := 1; alt < p.N; alt++ {
					if alt == p.Chosen {
						continue
					}
					out = append(out, append(append([]int{}, choices[:i]...), alt))
				}
			}
		}
		if p.CurEnabled && p.Chosen != 0 {
			used++
		}
	}
	return out
}

// Explore runs the subtree rooted at prefix.
func (e *Explorer) Explore(prefix []int) {
	if e.stop {
		return
	}
	if !e.Deadline.IsZero() && e.Stats.Schedules%64 == 0 && time.Now().After(e.Deadline) {
		e.stop = true
		e.Stats.Complete = false
		return
	}
	x, v := RunOnce(e.Sc, prefix, false)
	choices := choicesOf(x)
	e.note(choices, x, v)
	for _, c := range e.expand(x, len(prefix)) {
		e.Explore(c)
		if e.stop {
			return
		}
	}
}

// announce prints the schedule about to run (crash attribution by the parent process).
func announce(sc string, choices []int) {
	b, _ := json.Marshal(choices)
	os.Stdout.Write([]byte("X " + sc + " " + string(b) + "\n"))
}

func sortedKeys(m map[string]int) []string {
	var ks []string
	for k := range m {
		ks = append(ks, k)
	}
	sort.Strings(ks)
	return ks
}

func joinInts(c []int) string {
	s := make([]string, len(c))
	for i, v := range c {
		s[i] = fmt.Sprint(v)
	}
	return strings.Join(s, ",")
}
