//go:build verif

package sched

import (
	"encoding/json"
	"fmt"
	"os"
	"strconv"
	"strings"
	"sync/atomic"
	"time"

	"github.com/jeroenrinzema/psql-wire/pkg/verifshim/vsched"
	"verif/engine/explore"
	"verif/engine/pgproto"
)

// Scenarios returns the scenarios of a property for a tier with their preemption bounds.
type Plan struct {
	Sc    *Scenario
	Bound int
}

var plans = map[string]func(tier string) []Plan{}

// violationCap: see the flood guard in RunWorker.
const violationCap = 40

// raceCap: race reports per worker after which the exploration is cut short.
const raceCap = 300

func emit(prefix string, v any) {
	b, _ := json.Marshal(v)
	os.Stdout.Write(append(append([]byte(prefix+" "), b...), '\n'))
}

// freeRunning: the worker has left the scheduled exploration (its watchdog no longer applies).
var freeRunning atomic.Bool

// WorkerDone mirrors explore's worker summary with schedule statistics.
type WorkerDone struct {
	Schedules  int            `json:"schedules"`
	Steps      int            `json:"steps"`
	Points     int            `json:"points"`
	HBKeys     []uint64       `json:"hbkeys"`
	Outcomes   map[string]int `json:"outcomes"`
	Notes      map[string]int `json:"notes"`
	Samples    []any          `json:"samples"`
	Complete   bool           `json:"complete"`
	MaxThreads int            `json:"max_threads"`
	PerScen    map[string]int `json:"per_scenario"`
	Bounds     map[string]int `json:"bounds"`
	Pruned     int            `json:"pruned"`
	Races      int            `json:"race_reports"`
	FreeRuns   int            `json:"free_runs"`
	FreeRaces  int            `json:"free_race_reports"`
}

// RunWorker explores this shard's share of every scenario of the property.
func RunWorker(prop, tier string, shard, nshards int, deadline time.Time) int {
	pf := plans[prop]
	if pf == nil {
		fmt.Fprintln(os.Stderr, "no scheduled scenarios for", prop)
		return 2
	}
	// watchdog: an execution takes milliseconds; one that does not end within two minutes is stuck on something
	// the scheduler does not control (a goroutine blocked for real). The worker says so and exits - the driver
	// records an engine error for this shard, never a verdict.
	go func() {
		last, since := execsDone.Load(), time.Now()
		for {
			time.Sleep(5 * time.Second)
			if cur := execsDone.Load(); cur != last {
				last, since = cur, time.Now()
			} else if time.Since(since) > 2*time.Minute && !freeRunning.Load() {
				emit("E", map[string]any{"fatal": "stalled", "error": "an execution did not finish within two minutes (a goroutine blocked outside the scheduler's control?); the worker gave up"})
				os.Exit(4)
			}
		}
	}()
	done := WorkerDone{Outcomes: map[string]int{}, Notes: map[string]int{}, Complete: true, PerScen: map[string]int{}, Bounds: map[string]int{}}
	keys := map[uint64]struct{}{}
	rl := newRaceLog()
	raceSeen := map[string]bool{}
	allPlans := pf(tier)
	budget := time.Until(deadline)
	for pi, pl := range allPlans {
		// every scenario gets its fair share of what is left of the budget: a scenario whose exploration does not
		// end (because the tree under test made its schedule space explode) must not starve the ones behind it
		planDeadline := deadline
		if left := time.Until(deadline); left > 0 && len(allPlans)-pi > 1 {
			// (a reserve of budget/(3n) per scenario still to come; everything else may be used by this one)
			reserve := time.Duration(len(allPlans)-pi-1) * (budget / time.Duration(3*len(allPlans)))
			if reserve < left {
				planDeadline = deadline.Add(-reserve)
			}
		}
		if b, err := strconv.Atoi(os.Getenv("VERIF_BOUND")); err == nil {
			pl.Bound = b // experiments: override the preemption bound (-1 = unbounded)
		}
		if only := os.Getenv("VERIF_SCENARIO"); only != "" && only != pl.Sc.Name {
			continue
		}
		sc := pl.Sc
		done.Bounds[sc.Name] = pl.Bound
		stats := NewStats()
		// flood guard: once a scenario has produced violationCap violating schedules in this worker the verdict is
		// clear; its exploration is cut short (reported as incomplete) instead of re-running thousands of failing
		// schedules five times each
		var cur *Explorer
		nviol := 0
		report := func(choices []int, x *vsched.Exec, v Verdict) {
			if nviol >= violationCap {
				if cur != nil {
					cur.Deadline = time.Now().Add(-time.Second)
				}
				rl.drain()
				return
			}
			if vsched.Unsupported != "" {
				// the code under test runs goroutines the scheduler does not control: nothing of this exploration is a
				// verdict; report it once as an engine error and give the scenario up
				rl.drain()
				if nviol == 0 {
					emit("E", map[string]any{"scenario": sc.Name, "schedule": choices, "error": "ENGINE-unsupported: " + vsched.Unsupported})
				}
				nviol = violationCap
				done.Complete = false
				if cur != nil {
					cur.Deadline = time.Now().Add(-time.Second)
				}
				return
			}
			if len(v.Violations) > 0 {
				nviol++
				if nviol == violationCap {
					done.Notes[fmt.Sprintf("scenario %s: exploration cut short after %d violating schedules in one worker", sc.Name, violationCap)]++
				}
			}
			for _, rep := range rl.drain() {
				done.Races++
				if done.Races >= raceCap {
					// every schedule races: the verdict is clear, the rest of the scenarios would only produce the same
					// reports thousands of times
					nviol = violationCap
					done.Notes[fmt.Sprintf("exploration cut short after %d race reports in one worker", raceCap)]++
				}
				sig := raceSignature(rep)
				if raceSeen[sig] {
					continue
				}
				raceSeen[sig] = true
				emit("V", explore.VRec{Property: prop, Tier: tier, Family: "sched:" + sc.Name, Index: -1, Size: len(choices),
					Desc:   map[string]any{"scenario": sc.Name, "description": sc.Desc, "schedule_choices": choices, "preemption_bound": pl.Bound},
					Clause: "data-race", Detail: "frames: " + sig + "\n" + clipReport(rep, 60), Reruns: 5})
			}
			for _, viol := range v.Violations {
				// determinism: the same schedule must fail the same way every time
				same := 1
				for i := 0; i < 4; i++ {
					_, v2 := RunOnce(sc, choices, false)
					for _, w := range v2.Violations {
						if w.Clause == viol.Clause {
							same++
							break
						}
					}
				}
				rec := explore.VRec{Property: prop, Tier: tier, Family: "sched:" + sc.Name, Index: -1, Size: len(choices),
					Desc:   map[string]any{"scenario": sc.Name, "description": sc.Desc, "schedule_choices": choices, "preemption_bound": pl.Bound},
					Clause: viol.Clause, Detail: viol.Detail, Reruns: same}
				if same != 5 || strings.HasPrefix(viol.Clause, "ENGINE-") {
					emit("E", map[string]any{"scenario": sc.Name, "schedule": choices, "error": fmt.Sprintf("%s (%d/5 identical re-runs): %s", viol.Clause, same, viol.Detail)})
					continue
				}
				emit("V", rec)
			}
		}
		// self-check: the default schedule replayed twice gives identical point sequences
		x1, _ := RunOnce(sc, nil, false)
		x2, _ := RunOnce(sc, nil, false)
		if fmt.Sprint(x1.Points) != fmt.Sprint(x2.Points) || x1.Steps != x2.Steps {
			emit("E", map[string]any{"scenario": sc.Name, "error": fmt.Sprintf("non-deterministic default schedule: %d/%d steps", x1.Steps, x2.Steps)})
			continue
		}
		e := &Explorer{Sc: sc, Bound: pl.Bound, Deadline: planDeadline, Stats: stats, HBCache: true, seen: map[uint64]int{}}
		e.OnExec = func(choices []int, x *vsched.Exec, v Verdict) { report(choices, x, v) }
		cur = e
		// level 0 and 1 are run by every worker (cheap) but only reported by their owner;
		// level-2 subtrees are distributed round-robin.
		root, rv := RunOnce(sc, nil, false)
		if shard == 0 {
			announce(sc.Name, nil)
			e.note(choicesOf(root), root, rv)
		}
		idx := 0
		for _, c1 := range e.expand(root, 0) {
			x1, v1 := RunOnce(sc, c1, false)
			if idx%nshards == shard {
				announce(sc.Name, c1)
				e.note(choicesOf(x1), x1, v1)
			}
			idx++
			for _, c2 := range e.expand(x1, len(c1)) {
				if idx%nshards == shard {
					announce(sc.Name, c2)
					e.Explore(c2)
				}
				idx++
			}
		}
		done.Schedules += stats.Schedules
		done.Steps += stats.Steps
		done.Points += stats.Points
		done.PerScen[sc.Name] += stats.Schedules
		done.Pruned += stats.Pruned
		if stats.MaxThreads > done.MaxThreads {
			done.MaxThreads = stats.MaxThreads
		}
		for k := range stats.HBKeys {
			keys[k] = struct{}{}
		}
		for k, n := range stats.Outcomes {
			done.Outcomes[sc.Name+": "+k] += n
		}
		for k, n := range stats.Notes {
			done.Notes[k] += n
		}
		if len(done.Samples) < 6 {
			done.Samples = append(done.Samples, stats.Samples...)
		}
		if !stats.Complete {
			done.Complete = false
		}
	}
	// cross-check of the race monitor: the same scenario bodies free-running under -race (not a deciding step)
	if prop == "C15" && rl != nil {
		reps := 25
		if tier == "thorough" {
			reps = 200
		}
		freeRunning.Store(true)
		for _, sp := range c15Specs() {
			if sp.dependency || sp.name == "S-H" {
				continue // these use scheduler-only handlers
			}
			for i := 0; i < reps && !c15FreeRunStalled; i++ {
				c15FreeRun(sp)
				done.FreeRuns++
			}
			if c15FreeRunStalled {
				done.Notes["free-running cross-check abandoned: a run did not finish within 20 s"]++
			}
			for _, rep := range rl.drain() {
				done.FreeRaces++
				sig := raceSignature(rep)
				if raceSeen[sig] {
					continue
				}
				raceSeen[sig] = true
				emit("V", explore.VRec{Property: prop, Tier: tier, Family: "free-running:" + sp.name, Index: -1,
					Desc:   map[string]any{"scenario": sp.name, "mode": "free-running -race cross-check"},
					Clause: "data-race", Detail: "frames: " + sig + "\n" + clipReport(rep, 60), Reruns: 5})
			}
		}
	}
	for k := range keys {
		done.HBKeys = append(done.HBKeys, k)
	}
	emit("D", done)
	return 0
}

// Replay runs one schedule verbosely.
func Replay(prop, scenario string, choices []int) int {
	pf := plans[prop]
	if pf == nil {
		return 2
	}
	for _, tier := range []string{"thorough", "quick"} {
		for _, pl := range pf(tier) {
			if pl.Sc.Name != scenario {
				continue
			}
			x, v := RunOnce(pl.Sc, choices, true)
			fmt.Printf("scenario %s (%s)\nschedule %v\nsteps=%d threads=%d deadlock=%v\n", scenario, pl.Sc.Desc, choices, x.Steps, x.Threads, x.Deadlock)
			for _, t := range x.Trace {
				fmt.Println("  ", t)
			}
			for _, p := range x.Panics {
				fmt.Println("PANIC:", p)
			}
			if len(v.Violations) == 0 {
				fmt.Println("no violation; outcome:", v.Outcome)
				return 0
			}
			for _, viol := range v.Violations {
				fmt.Printf("VIOLATION clause=%s\n  %s\n", viol.Clause, strings.ReplaceAll(viol.Detail, "\n", "\n  "))
			}
			return 1
		}
	}
	fmt.Fprintln(os.Stderr, "unknown scenario", scenario)
	return 2
}

func init() {
	plans["C16"] = func(tier string) []Plan {
		var out []Plan
		for _, sp := range c16Specs() {
			bound := 2
			if tier == "thorough" {
				switch sp.name {
				case "X1", "X2", "X3", "X5", "X6":
					bound = -1 // unbounded: the happens-before state cache makes the full schedule space finite and small
				case "X10":
					bound = 2 // (two listeners, two connections, a closer: 6 threads; bound 4 does not finish within the budget)
				case "X12", "X19":
					bound = 3
				case "X20":
					bound = 2 // (two connections, two hooks, a closer: bound 4 does not finish within ten minutes)
				default:
					bound = 4
				}
			} else if sp.name == "X6" {
				continue
			} else if sp.name == "X10" || sp.name == "X12" || sp.name == "X13" || sp.name == "X15" || sp.name == "X18" || sp.name == "X20" {
				bound = 1
			}
			out = append(out, Plan{Sc: c16Scenario(sp), Bound: bound})
		}
		return out
	}
	// C05 schedule part: a query of several statements that overlaps Close still gets the results of all of them
	plans["C05"] = func(tier string) []Plan {
		start := pgproto.Startup("user", "u")
		q := pgproto.Query("q")
		bound := 2
		if tier == "thorough" {
			bound = -1
		}
		var out []Plan
		for _, sp := range []c16Spec{
			{name: "Q1", conns: []c16Conn{{"c1", [][]byte{start, q}}}, closers: 1, twoStatements: true,
				desc: "one connection with a query of two statements (each yielding) + Close"},
			{name: "Q2", conns: []c16Conn{{"c1", [][]byte{start, pgproto.Cat(q, q)}}}, closers: 1, twoStatements: true,
				desc: "two pipelined queries of two statements each + Close"},
		} {
			sc := c16Scenario(sp)
			sc.Property = "C05"
			b := bound
			if sp.name == "Q2" && tier == "thorough" {
				b = 3
			}
			out = append(out, Plan{Sc: sc, Bound: b})
		}
		return out
	}
	// C02 schedule part: whatever Close does concurrently, a connection that is in the middle of
	// building a message must still only ever emit well-formed messages
	plans["C02"] = func(tier string) []Plan {
		start := pgproto.Startup("user", "u")
		bound := 2
		if tier == "thorough" {
			bound = 3
		}
		var out []Plan
		for _, sp := range []c16Spec{
			{name: "W1", conns: []c16Conn{{"c1", [][]byte{start, pgproto.Query("q")}}}, closers: 1, midFrame: true,
				desc: "Close while a connection is half-way through encoding a DataRow (the row value yields to the scheduler mid-frame)"},
			{name: "W2", conns: []c16Conn{{"c1", [][]byte{start, pgproto.Query("q")}}, {"c2", [][]byte{start, pgproto.Query("q")}}}, closers: 1, midFrame: true,
				desc: "two connections encoding rows (yielding mid-frame) + Close"},
			{name: "W3", conns: []c16Conn{{"c1", [][]byte{start, pgproto.Query("q")}}, {"c2", [][]byte{start, pgproto.Query("q")}}}, closers: 1, midFrame: true, poolFIFO: true,
				desc: "two connections encoding rows (yielding mid-frame) + Close; pooled objects (sync.Pool) are handed out oldest first"},
		} {
			if tier != "thorough" && (sp.name == "W2" || sp.name == "W3") {
				bound = 1
			}
			sc := c16Scenario(sp)
			sc.Property = "C02"
			out = append(out, Plan{Sc: sc, Bound: bound})
		}
		return out
	}
}
