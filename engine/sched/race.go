//go:build verif

package sched

import (
	"fmt"
	"os"
	"regexp"
	"strings"
)

// Race monitor. The worker is built with -race and started with
// GORACE="halt_on_error=0 log_path=<base>"; the race runtime appends its
// reports to <base>.<pid> synchronously when it detects them. After every
// execution the worker reads what was appended: those reports belong to the
// schedule that just ran. Because the scheduler's own hand-offs are wrapped in
// RaceDisable/RaceEnable, the happens-before graph the detector sees contains
// only the library's own synchronisation plus `go` forks.

type raceLog struct {
	path string
	off  int64
}

func newRaceLog() *raceLog {
	base := os.Getenv("VERIF_RACE_LOG")
	if base == "" {
		return nil
	}
	return &raceLog{path: fmt.Sprintf("%s.%d", base, os.Getpid())}
}

// drain returns the reports appended since the last call.
func (r *raceLog) drain() []string {
	if r == nil {
		return nil
	}
	f, err := os.Open(r.path)
	if err != nil {
		return nil
	}
	defer f.Close()
	st, err := f.Stat()
	if err != nil || st.Size() <= r.off {
		return nil
	}
	buf := make([]byte, st.Size()-r.off)
	if _, err := f.ReadAt(buf, r.off); err != nil {
		return nil
	}
	r.off = st.Size()
	var out []string
	for _, blk := range strings.Split(string(buf), "==================") {
		if strings.Contains(blk, "WARNING: DATA RACE") {
			out = append(out, strings.TrimSpace(blk))
		}
	}
	return out
}

var frameRe = regexp.MustCompile(`(?m)^  (\S+)\(\)$`)

// raceSignature summarises a report by the innermost non-runtime frames of both accesses.
func raceSignature(rep string) string {
	var sig []string
	for _, part := range strings.Split(rep, "\n\n") {
		if !(strings.HasPrefix(part, "WARNING") || strings.HasPrefix(part, "Previous") || strings.Contains(part, "Write at") || strings.Contains(part, "Read at") || strings.Contains(part, "Previous write") || strings.Contains(part, "Previous read")) {
			continue
		}
		n := 0
		for _, m := range frameRe.FindAllStringSubmatch(part, -1) {
			fn := m[1]
			if strings.HasPrefix(fn, "runtime.") {
				continue
			}
			sig = append(sig, fn)
			if n++; n >= 3 {
				break
			}
		}
		sig = append(sig, "|")
	}
	return strings.Join(sig, " ")
}

func clipReport(rep string, lines int) string {
	l := strings.Split(rep, "\n")
	if len(l) > lines {
		l = append(l[:lines], "  ...")
	}
	return strings.Join(l, "\n")
}
