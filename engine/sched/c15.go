//go:build verif

package sched

import (
	"context"
	"crypto/tls"
	"fmt"
	"maps"
	"net"
	"strings"
	"time"
	"unsafe"

	"github.com/jackc/pgx/v5/pgtype"
	wire "github.com/jeroenrinzema/psql-wire"
	"github.com/jeroenrinzema/psql-wire/pkg/verifshim/vsched"
	"github.com/jeroenrinzema/psql-wire/pkg/verifshim/vsync"
	"github.com/lib/pq/oid"
	"verif/engine/explore"
	"verif/engine/harness"
	"verif/engine/memnet"
	"verif/engine/pgproto"
	"verif/engine/script"
)

// C15 — Concurrent connections are isolated and free of data races.
// (Scenario S-C is also the schedule part of C12: per-connection parameters
// never leak and the configured global map is never written.)

type c15Conn struct {
	name string
	segs [][]byte // pre-loaded: one message per segment, then EOF
}

type c15Spec struct {
	dependency bool
	auth       bool
	name       string
	desc       string
	conns      []c15Conn
	global     wire.Parameters
	// secondTLS: connection "c2" is served by a SECOND server of the process, one that has certificates configured
	secondTLS bool
}

func c15Specs() []c15Spec {
	st := func(u string) []byte { return pgproto.Startup("user", u, "application_name", "app-"+u) }
	ext := func(q string, val string) [][]byte {
		return [][]byte{pgproto.Parse("a", q), pgproto.Bind("x", "a", nil, [][]byte{[]byte(val)}, nil), pgproto.Describe('P', "x"), pgproto.Execute("x", 0), pgproto.Sync()}
	}
	return []c15Spec{
		{name: "S-A", desc: "2 connections, each a Query returning a row of a different column type (text vs int4: distinct encode plans)",
			conns: []c15Conn{{"c1", [][]byte{st("u1"), pgproto.Query("1:r,c=T1")}}, {"c2", [][]byte{st("u2"), pgproto.Query("int4row")}}}},
		{name: "S-B", desc: "2 connections, each Parse(a,q_i) Bind(x<-a,v_i) Describe(P x) Execute(x) Sync with the same names and different queries / values",
			conns: []c15Conn{{"c1", append([][]byte{st("u1")}, ext("2:p,c=Q1", "v-one")...)}, {"c2", append([][]byte{st("u2")}, ext("3:p,c=Q2", "v-two")...)}}},
		{name: "S-C", desc: "2 connections starting up with different users while GlobalParameters are configured, then a Query whose handler reads client / server parameters",
			global: wire.Parameters{"a": "1", "server_version": "9"},
			conns:  []c15Conn{{"c1", [][]byte{st("u1"), pgproto.Query("whoami")}}, {"c2", [][]byte{st("u2"), pgproto.Query("whoami")}}}},
		{name: "S-K", desc: "as S-C with 3 configured global parameters (the ParameterStatus block has another length)",
			global: wire.Parameters{"a": "1", "b": "2", "c": "3"},
			conns:  []c15Conn{{"c1", [][]byte{st("u1"), pgproto.Query("whoami")}}, {"c2", [][]byte{st("user2"), pgproto.Query("whoami")}}}},
		{name: "S-L", desc: "as S-C with 7 configured global parameters and user names of different lengths",
			global: wire.Parameters{"a": "1", "b": "2", "c": "3", "d": "4", "e": "5", "f": "6", "g": "7"},
			conns:  []c15Conn{{"c1", [][]byte{st("u1"), pgproto.Query("whoami")}}, {"c2", [][]byte{st("a-much-longer-user-name"), pgproto.Query("whoami")}}}},
		{name: "S-D", desc: "3 connections mixing a typed row, an extended batch with shared names and a parameter-reading handler",
			global: wire.Parameters{"a": "1"},
			conns:  []c15Conn{{"c1", [][]byte{st("u1"), pgproto.Query("int4row")}}, {"c2", append([][]byte{st("u2")}, ext("2:p,c=Q1", "vv")...)}, {"c3", [][]byte{st("u3"), pgproto.Query("whoami")}}}},
		{name: "S-E", desc: "connection 1 inside COPY-in while connection 2 runs queries",
			conns: []c15Conn{{"c1", [][]byte{st("u1"), pgproto.Query("1:copyt:drain"), pgproto.CopyData([]byte("row1\n")), pgproto.CopyData([]byte("row2\n")), pgproto.CopyDone()}},
				{"c2", [][]byte{st("u2"), pgproto.Query("1:r,c=T1"), pgproto.Query("int4row")}}}},
		{name: "S-F", desc: "connection 1 fails an extended message and skips until its Sync while connection 2 runs an extended batch and a simple query (the error / skip state must be per connection)",
			conns: []c15Conn{{"c1", [][]byte{st("u1"), pgproto.Bind("", "nope", nil, nil, nil), pgproto.Parse("a", "2:p,c=Q1"), pgproto.Sync(), pgproto.Query("1:r,c=T1")}},
				{"c2", append(append([][]byte{st("u2")}, ext("3:p,c=Q2", "v-two")...), pgproto.Query("1:r,c=T2"))}}},
		{name: "S-H", desc: "a CancelRequest connection, then two connections of which one registers a private type on its own type map and the other needs that type (type maps must be per connection)",
			conns: []c15Conn{{"c0", [][]byte{pgproto.CancelRequest(1, 2)}}, {"c1", [][]byte{st("u1"), pgproto.Query("regtype"), pgproto.Query("usetype")}}, {"c2", [][]byte{st("u2"), pgproto.Query("usetype"), pgproto.Query("int4row")}}}},
		{name: "S-P", desc: "2 connections, each binding an int4[] and a text[] parameter which the statement decodes through the parameters' own decoder (every connection decodes with its own type map)",
			conns: []c15Conn{{"c1", [][]byte{st("u1"), pgproto.Parse("a", "scanarr"), pgproto.Bind("x", "a", nil, [][]byte{[]byte("{1,2,3}"), []byte("{a,b}")}, nil), pgproto.Execute("x", 0), pgproto.Sync()}},
				{"c2", [][]byte{st("u2"), pgproto.Parse("a", "scanarr"), pgproto.Bind("x", "a", nil, [][]byte{[]byte("{4,5}"), []byte("{c}")}, nil), pgproto.Execute("x", 0), pgproto.Sync()}}}},
		{name: "S-T", desc: "two servers in one process, one without and one with certificates; each receives an SSLRequest at the same time (the answer byte belongs to the server that decided it)", secondTLS: true,
			conns: []c15Conn{{"c1", [][]byte{pgproto.SSLRequest(), st("u1"), pgproto.Query("1:r,c=T1")}}, {"c2", [][]byte{pgproto.SSLRequest()}}}},
		{name: "S-I", desc: "connection 1's handler waits until connection 2's handler has run (no connection may hold up another one)", dependency: true,
			conns: []c15Conn{{"c1", [][]byte{st("u1"), pgproto.Query("wait-for-other")}}, {"c2", [][]byte{st("u2"), pgproto.Query("signal-other"), pgproto.Query("1:r,c=T2")}}}},
		{name: "S-J", desc: "2 connections authenticating at the same time, one with the right and one with a wrong password followed by a pipelined Query (no AuthenticationOk, no command for the one that was not accepted)", auth: true,
			conns: []c15Conn{{"c1", [][]byte{pgproto.Startup("user", "alice", "database", "db-a"), pgproto.Password("pw-alice"), pgproto.Query("whoami")}},
				{"c2", [][]byte{pgproto.Startup("user", "bob", "database", "db-b"), pgproto.Cat(pgproto.Password("wrong"), pgproto.Query("whoami"))}}}},
		{name: "S-M", desc: "2 connections logging in to the SAME account at the same time, one with the right and one with a wrong password followed by a pipelined Query (each is judged by its own password)", auth: true,
			conns: []c15Conn{{"c1", [][]byte{pgproto.Startup("user", "alice", "database", "db-a"), pgproto.Password("pw-alice"), pgproto.Query("whoami")}},
				{"c2", [][]byte{pgproto.Startup("user", "alice", "database", "db-a"), pgproto.Cat(pgproto.Password("wrong"), pgproto.Query("whoami"))}}}},
		{name: "S-O", desc: "both connections send a message larger than the limit (it is skipped) and then a query whose handler reads the connection's parameters",
			conns: []c15Conn{{"c1", [][]byte{st("u1"), pgproto.Msg('Q', make([]byte, 5000)), pgproto.Query("whoami"), pgproto.Query("1:r,c=T1")}},
				{"c2", [][]byte{st("u2"), pgproto.Msg('Q', make([]byte, 6000)), pgproto.Query("whoami"), pgproto.Query("int4row")}}}},
		{name: "S-G", desc: "2 connections authenticating with cleartext passwords as different users (startup packets and password messages interleave)", auth: true,
			conns: []c15Conn{{"c1", [][]byte{pgproto.Startup("user", "alice", "database", "db-a"), pgproto.Password("pw-alice"), pgproto.Query("whoami")}},
				{"c2", [][]byte{pgproto.Startup("user", "bob", "database", "db-b"), pgproto.Password("pw-bob"), pgproto.Query("whoami")}}}},
	}
}

//go:norace
func (o *c15Obs) signal() { o.flag = true }

//go:norace
func (o *c15Obs) signalled() bool { return o.flag }

type c15Obs struct {
	flag       bool
	transcript map[string][]string
	trace      map[string][]string
	closed     map[string]bool
	globalOK   bool
	serveErr   error
	serveDone  bool
}

// served is written by the Serve thread; harness state is written in //go:norace
// functions only (thread exits are hidden hand-offs, the detector would flag the driver's read).
//
//go:norace
func (o *c15Obs) served(err error) { o.serveErr, o.serveDone = err, true }

// c15Copy is the drain policy of COPY-in (scheduled variant of the C13 handler).
func c15Extra(ctx context.Context, r *script.Rec, stmt int, op string, w wire.DataWriter, params []wire.Parameter) (bool, error) {
	if op != "copyt:drain" {
		return false, nil
	}
	cr, err := w.CopyIn(wire.TextFormat)
	if err != nil {
		return true, &script.ReturnErr{Err: err}
	}
	n := 0
	for {
		err := cr.Read()
		if err != nil {
			if err.Error() == "EOF" {
				return true, w.Complete(fmt.Sprintf("COPY %d", n))
			}
			return true, &script.ReturnErr{Err: err}
		}
		n++
		r.Add(script.Ev{Kind: "copy", Op: "chunk", Query: string(cr.Msg)})
		vsched.Yield("copy")
	}
}

// c15Run builds the server, serves the given subset of connections and fills obs.
func c15Run(spec c15Spec, only string, obs *c15Obs) {
	memnet.Point = vsched.Point
	multi := &script.Multi{M: map[string]*script.Rec{}}
	var conns []*memnet.SConn
	for _, c := range spec.conns {
		if only != "" && c.name != only {
			continue
		}
		sc := memnet.NewSConn("mem:"+c.name, c.segs, true)
		conns = append(conns, sc)
		rec := &script.Rec{Extra: c15Extra}
		rec.Hook = func(ctx context.Context, where string) { vsched.Yield("handler." + where) }
		multi.M[sc.Remote.String()] = rec
	}
	inner := multi.ParseFn()
	parse := func(ctx context.Context, q string) (wire.PreparedStatements, error) {
		switch q {
		case "int4row":
			if r := multi.For(ctx); r != nil {
				r.Add(script.Ev{Kind: "parse", Query: q})
			}
			return wire.Prepared(wire.NewStatement(func(ctx context.Context, w wire.DataWriter, p []wire.Parameter) error {
				vsched.Yield("handler.int4")
				if err := w.Row([]any{int32(42)}); err != nil {
					return err
				}
				vsched.Yield("handler.int4.2")
				return w.Complete("SELECT 1")
			}, wire.WithColumns(wire.Columns{{Name: "n", Oid: oid.T_int4}}))), nil
		case "regtype", "usetype":
			if r := multi.For(ctx); r != nil {
				r.Add(script.Ev{Kind: "parse", Query: q})
			}
			return wire.Prepared(wire.NewStatement(func(ctx context.Context, w wire.DataWriter, p []wire.Parameter) error {
				vsched.Yield("handler." + q)
				if q == "regtype" {
					// a type this connection registers on ITS type map
					wire.TypeMap(ctx).RegisterType(&pgtype.Type{Name: "private", OID: 70000, Codec: pgtype.TextCodec{}})
				}
				if err := w.Row([]any{"value of a private type"}); err != nil {
					return err
				}
				return w.Complete("SELECT 1")
			}, wire.WithColumns(wire.Columns{{Name: "p", Oid: 70000}}))), nil
		case "scanarr":
			// a statement that decodes an int4[] and a text[] parameter through the parameter's own decoder (array
			// codecs memoise their scan plans in the type map they are handed)
			if r := multi.For(ctx); r != nil {
				r.Add(script.Ev{Kind: "parse", Query: q})
			}
			return wire.Prepared(wire.NewStatement(func(ctx context.Context, w wire.DataWriter, p []wire.Parameter) error {
				var out []any
				for i, o := range []uint32{1007, 1009} {
					vsched.Yield("handler.scan")
					if i < len(p) {
						v, err := p[i].Scan(o)
						out = append(out, fmt.Sprint(v, err))
					}
				}
				if err := w.Row(out); err != nil {
					return err
				}
				return w.Complete("SELECT 1")
			}, wire.WithColumns(script.TextColumns(2)), wire.WithParameters([]oid.Oid{1007, 1009}))), nil
		case "wait-for-other", "signal-other":
			if r := multi.For(ctx); r != nil {
				r.Add(script.Ev{Kind: "parse", Query: q})
			}
			return wire.Prepared(wire.NewStatement(func(ctx context.Context, w wire.DataWriter, p []wire.Parameter) error {
				if q == "signal-other" {
					vsched.Cond("handler.signal", uintptr(unsafe.Pointer(obs)), nil)
					obs.signal()
				} else if only == "" {
					// (served alone there is nobody to wait for)
					vsched.Cond("handler.wait-for-other-connection", uintptr(unsafe.Pointer(obs)), obs.signalled)
				}
				return w.Complete("OK")
			})), nil
		case "whoami":
			if r := multi.For(ctx); r != nil {
				r.Add(script.Ev{Kind: "parse", Query: q})
			}
			return wire.Prepared(wire.NewStatement(func(ctx context.Context, w wire.DataWriter, p []wire.Parameter) error {
				vsched.Yield("handler.whoami")
				cp, sp := wire.ClientParameters(ctx), wire.ServerParameters(ctx)
				if err := w.Row([]any{string(cp["user"]), cp["application_name"], sp["session_authorization"], wire.AuthenticatedUsername(ctx), fmt.Sprint(len(sp))}); err != nil {
					return err
				}
				return w.Complete("SELECT 1")
			}, wire.WithColumns(script.TextColumns(5)))), nil
		}
		return inner(ctx, q)
	}
	var global wire.Parameters
	if spec.global != nil {
		global = maps.Clone(spec.global)
	}
	opts := []wire.OptionFn{wire.Logger(harness.Quiet), wire.MessageBufferSize(1 << 12), wire.GlobalParameters(global)}
	if spec.auth {
		opts = append(opts, wire.SessionAuthStrategy(wire.ClearTextPassword(func(ctx context.Context, db, user, pw string) (context.Context, bool, error) {
			vsched.Yield("validator")
			if r := multi.For(ctx); r != nil {
				r.Add(script.Ev{Kind: "auth", Note: fmt.Sprintf("validate(db=%q user=%q pw=%q)", db, user, pw)})
			}
			return ctx, pw == "pw-"+user, nil
		})))
	}
	srv, err := wire.NewServer(parse, opts...)
	if err != nil {
		panic(err)
	}
	lconns := make([]any, 0)
	_ = lconns
	l := memnet.NewSListener()
	vsched.RegisterObject("server", unsafe.Pointer(srv), unsafe.Sizeof(*srv))
	vsched.RegisterObject("listener", unsafe.Pointer(l), unsafe.Sizeof(*l))
	var srv2 *wire.Server
	l2 := memnet.NewSListener()
	if spec.secondTLS {
		srv2, err = wire.NewServer(parse, append(opts, wire.TLSConfig(&tls.Config{Certificates: []tls.Certificate{harness.Certificate()}}))...)
		if err != nil {
			panic(err)
		}
		vsched.RegisterObject("server2", unsafe.Pointer(srv2), unsafe.Sizeof(*srv2))
		vsched.RegisterObject("listener2", unsafe.Pointer(l2), unsafe.Sizeof(*l2))
	}
	for _, sc := range conns {
		vsched.RegisterObject("conn:"+sc.Name, unsafe.Pointer(sc), unsafe.Sizeof(*sc))
		if spec.secondTLS && sc.Name == "mem:c2" {
			l2.Inject(sc)
		} else {
			l.Inject(sc)
		}
	}
	vsched.Go(func() { obs.served(srv.Serve(l)) })
	if srv2 != nil {
		vsched.Go(func() { srv2.Serve(l2) })
	}
	// wait until every connection has been closed by the server, then close the server
	vsched.Cond("join-connections", vsched.Local(), func() bool {
		for _, sc := range conns {
			if !sc.IsClosed() {
				return false
			}
		}
		return true
	})
	srv.Close()
	if srv2 != nil {
		srv2.Close()
	}
	vsched.WaitOthers()
	obs.transcript, obs.trace, obs.closed = map[string][]string{}, map[string][]string{}, map[string]bool{}
	for _, sc := range conns {
		t, _ := harness.CanonTranscript(sc.Output())
		obs.transcript[sc.Name] = t
		obs.trace[sc.Name] = multi.M[sc.Remote.String()].Strings()
		obs.closed[sc.Name] = sc.IsClosed()
	}
	obs.globalOK = maps.Equal(global, spec.global)
}

var c15Alone = map[string]*c15Obs{}

func c15Scenario(spec c15Spec) *Scenario {
	return &Scenario{Name: spec.name, Property: "C15", Desc: spec.desc, MaxSteps: 20000,
		New: func() (func(), func(*vsched.Exec) Verdict) {
			obs := &c15Obs{}
			vsync.PoolFIFO = false
			vsync.ResetPools()
			body := func() { c15Run(spec, "", obs) }
			judge := func(x *vsched.Exec) Verdict {
				var v Verdict
				fail := func(clause, detail string) {
					v.Violations = append(v.Violations, explore.Violation{Clause: clause, Detail: detail})
				}
				for _, p := range x.Panics {
					fail("panic", p)
				}
				if x.Deadlock {
					fail("deadlock", fmt.Sprintf("no thread can make progress: %v", x.Blocked))
				}
				if len(v.Violations) > 0 || x.StepLimit {
					return v
				}
				if !obs.serveDone || obs.serveErr != nil {
					fail("serve", fmt.Sprintf("Serve returned=%v err=%v", obs.serveDone, obs.serveErr))
				}
				if !obs.globalOK {
					fail("global-map-modified", "the configured GlobalParameters map was modified while serving")
				}
				var order []string
				for _, c := range spec.conns {
					key := spec.name + "/" + c.name
					ref := c15Alone[key]
					if ref == nil {
						ref = &c15Obs{}
						vsched.Run(nil, 20000, false, func() { c15Run(spec, c.name, ref) })
						c15Alone[key] = ref
					}
					n := "mem:" + c.name
					if !sameStr(obs.transcript[n], ref.transcript[n]) {
						fail("transcript-differs-from-alone", fmt.Sprintf("connection %s received\n  %v\nwhen served concurrently, but\n  %v\nwhen served alone", c.name, obs.transcript[n], ref.transcript[n]))
					}
					if !sameStr(obs.trace[n], ref.trace[n]) {
						fail("callbacks-differ-from-alone", fmt.Sprintf("connection %s callbacks\n  %v\nwhen served concurrently, but\n  %v\nwhen served alone", c.name, obs.trace[n], ref.trace[n]))
					}
					order = append(order, fmt.Sprint(len(obs.transcript[n])))
				}
				v.Outcome = "isolated " + strings.Join(order, "/")
				return v
			}
			return body, judge
		}}
}

func sameStr(a, b []string) bool {
	if len(a) != len(b) {
		return false
	}
	for i := range a {
		if a[i] != b[i] {
			return false
		}
	}
	return true
}

func init() {
	plans["C15"] = func(tier string) []Plan {
		var out []Plan
		for _, sp := range c15Specs() {
			bound := 2
			switch {
			case sp.name == "S-T":
				continue // (C11's schedule part)
			case tier != "thorough" && (sp.name == "S-D" || sp.name == "S-E" || sp.name == "S-J" || sp.name == "S-K" || sp.name == "S-L" || sp.name == "S-M"):
				continue
			case tier != "thorough" && sp.name == "S-H":
				bound = 1
			case tier == "thorough" && (sp.name == "S-A" || sp.name == "S-C" || sp.name == "S-G" || sp.name == "S-I"):
				bound = -1 // unbounded (all schedules, happens-before state cache)
			case tier == "thorough":
				bound = 3
			}
			out = append(out, Plan{Sc: c15Scenario(sp), Bound: bound})
		}
		return out
	}
	// C12 schedule part: parameters of concurrently starting connections (S-C: with global parameters; S-G: start-up
	// packets and password messages of two users interleaving) never leak into each other
	plans["C12"] = func(tier string) []Plan {
		bound := 2
		if tier == "thorough" {
			bound = -1
		}
		var out []Plan
		for _, sp := range c15Specs() {
			if sp.name == "S-C" || sp.name == "S-G" || sp.name == "S-K" || sp.name == "S-L" {
				sc := c15Scenario(sp)
				sc.Property = "C12"
				b := bound
				if (sp.name == "S-K" || sp.name == "S-L") && tier == "thorough" {
					b = 3
				}
				out = append(out, Plan{Sc: sc, Bound: b})
			}
		}
		return out
	}
	// C11 schedule part: two servers with different TLS configurations answering an SSLRequest at the same time
	plans["C11"] = func(tier string) []Plan {
		var out []Plan
		for _, sp := range c15Specs() {
			if sp.name == "S-T" {
				sc := c15Scenario(sp)
				sc.Property = "C11"
				b := 2
				if tier == "thorough" {
					b = -1
				}
				out = append(out, Plan{Sc: sc, Bound: b})
			}
		}
		return out
	}
	// C01 schedule part: two connections authenticating at the same time (both accepted / one rejected)
	plans["C01"] = func(tier string) []Plan {
		bound := 2
		if tier == "thorough" {
			bound = -1
		}
		var out []Plan
		for _, sp := range c15Specs() {
			if sp.name == "S-G" || sp.name == "S-J" || sp.name == "S-M" {
				sc := c15Scenario(sp)
				sc.Property = "C01"
				out = append(out, Plan{Sc: sc, Bound: bound})
			}
		}
		return out
	}
}

// c15FreeRun serves the scenario with the scheduler INACTIVE: real goroutines,
// real blocking, the shims pass straight through. It is a cross-check of the
// race monitor (a plain free-running -race pass over the same scenario
// bodies), not a deciding step: its reports are counted separately.
// c15FreeRunStalled is set when a free run did not finish within its (generous) deadline: the remaining free runs
// are skipped (the pass is a cross-check only; a connection that is never served is reported by the schedule part).
var c15FreeRunStalled bool

func c15FreeRun(spec c15Spec) (ok bool) {
	memnet.Point = nil
	defer func() { memnet.Point = vsched.Point }()
	multi := &script.Multi{M: map[string]*script.Rec{}}
	var conns []*memnet.SConn
	for _, c := range spec.conns {
		sc := memnet.NewSConn("mem:"+c.name, c.segs, true)
		conns = append(conns, sc)
		multi.M[sc.Remote.String()] = &script.Rec{Extra: c15Extra}
	}
	inner := multi.ParseFn()
	parse := func(ctx context.Context, q string) (wire.PreparedStatements, error) {
		switch q {
		case "int4row":
			return wire.Prepared(wire.NewStatement(func(ctx context.Context, w wire.DataWriter, p []wire.Parameter) error {
				if err := w.Row([]any{int32(42)}); err != nil {
					return err
				}
				return w.Complete("SELECT 1")
			}, wire.WithColumns(wire.Columns{{Name: "n", Oid: oid.T_int4}}))), nil
		case "whoami":
			return wire.Prepared(wire.NewStatement(func(ctx context.Context, w wire.DataWriter, p []wire.Parameter) error {
				cp, sp := wire.ClientParameters(ctx), wire.ServerParameters(ctx)
				if err := w.Row([]any{string(cp["user"]), cp["application_name"], sp["session_authorization"], wire.AuthenticatedUsername(ctx), fmt.Sprint(len(sp))}); err != nil {
					return err
				}
				return w.Complete("SELECT 1")
			}, wire.WithColumns(script.TextColumns(5)))), nil
		}
		return inner(ctx, q)
	}
	var global wire.Parameters
	if spec.global != nil {
		global = maps.Clone(spec.global)
	}
	opts := []wire.OptionFn{wire.Logger(harness.Quiet), wire.MessageBufferSize(1 << 12), wire.GlobalParameters(global)}
	if spec.auth {
		opts = append(opts, wire.SessionAuthStrategy(wire.ClearTextPassword(func(ctx context.Context, db, user, pw string) (context.Context, bool, error) {
			return ctx, pw == "pw-"+user, nil
		})))
	}
	srv, err := wire.NewServer(parse, opts...)
	if err != nil {
		return false
	}
	cs := make([]net.Conn, len(conns))
	for i, c := range conns {
		cs[i] = c
	}
	l := memnet.NewSListener(cs...)
	done := make(chan error, 1)
	go func() { done <- srv.Serve(l) }()
	deadline := time.Now().Add(20 * time.Second)
	for {
		all := true
		for _, c := range conns {
			if !c.IsClosedSync() {
				all = false
			}
		}
		if all {
			break
		}
		if time.Now().After(deadline) {
			c15FreeRunStalled = true
			break
		}
		time.Sleep(20 * time.Microsecond)
	}
	srv.Close()
	return <-done == nil
}
