//go:build verif

package sched

import (
	"context"
	"errors"
	"fmt"
	"io"
	"strings"
	"unsafe"

	"github.com/jackc/pgx/v5/pgtype"
	wire "github.com/jeroenrinzema/psql-wire"
	"github.com/jeroenrinzema/psql-wire/pkg/verifshim/vsched"
	"github.com/jeroenrinzema/psql-wire/pkg/verifshim/vsync"
	"verif/engine/explore"
	"verif/engine/harness"
	"verif/engine/memnet"
	"verif/engine/pgproto"
)

// C16 — Close is graceful, final, idempotent and concurrency-safe.

type span struct {
	conn       string
	kind       string
	start, end int // logical clock; end = -1 while running
}

type c16Log struct {
	spans       []*span
	closeRet    []int
	closersDone int
	serveDone   bool
	serves      int // number of Serve calls that returned
	serveErr    error
	serveRet    int
	events      []string
}

// Every log operation is a scheduling point on the shared log object: the
// relative order of "handler starts/ends" and "Close returned" is what the
// oracle judges, so it must be part of the happens-before key (two schedules
// that differ in that order are NOT equivalent).
func (l *c16Log) begin(conn, kind string) *span {
	vsched.Point("log", uintptr(unsafe.Pointer(l)), nil)
	return l.begin0(conn, kind)
}

func (l *c16Log) finish(s *span) {
	vsched.Point("log", uintptr(unsafe.Pointer(l)), nil)
	l.finish0(s)
}

func (l *c16Log) closeReturned() {
	vsched.Point("log", uintptr(unsafe.Pointer(l)), nil)
	l.closeReturned0()
}

//go:norace
func (l *c16Log) begin0(conn, kind string) *span {
	s := &span{conn: conn, kind: kind, start: vsched.Now(), end: -1}
	l.spans = append(l.spans, s)
	l.events = append(l.events, fmt.Sprintf("@%d %s %s starts", s.start, conn, kind))
	return s
}

//go:norace
func (l *c16Log) finish0(s *span) {
	s.end = vsched.Now()
	l.events = append(l.events, fmt.Sprintf("@%d %s %s ends", s.end, s.conn, s.kind))
}

//go:norace
func (l *c16Log) closeReturned0() {
	l.closeRet = append(l.closeRet, vsched.Now())
	l.closersDone++
	l.events = append(l.events, fmt.Sprintf("@%d Close returned", vsched.Now()))
}

//go:norace
func (l *c16Log) served(err error) {
	l.serves++
	if err == nil {
		err = l.serveErr // (the first error of several Serve calls is kept)
	}
	l.serveDone, l.serveErr, l.serveRet = true, err, vsched.Now()
	l.events = append(l.events, fmt.Sprintf("@%d Serve returned %v", vsched.Now(), err))
}

//go:norace
func (l *c16Log) allClosed(n int) func() bool { return func() bool { return l.closersDone >= n } }

//go:norace
func (l *c16Log) allServed(n int) func() bool { return func() bool { return l.serves >= n } }

//go:norace
func (l *c16Log) snapshot() ([]span, []int, []string) {
	var sp []span
	for _, s := range l.spans {
		sp = append(sp, *s)
	}
	return sp, append([]int(nil), l.closeRet...), append([]string(nil), l.events...)
}

func connName(ctx context.Context) string {
	if a := wire.RemoteAddress(ctx); a != nil {
		return a.String()
	}
	return "?"
}

// yieldingText is a row value whose encoding passes a scheduling point: the connection's goroutine can
// be interrupted while a DataRow frame is half built.
type yieldingText string

func (y yieldingText) TextValue() (pgtype.Text, error) {
	vsched.Yield("mid-frame")
	return pgtype.Text{String: string(y), Valid: true}, nil
}

// c16ParseRows is c16Parse with a statement that writes rows (two columns, the second one yields mid-frame).
func c16ParseRows(l *c16Log) wire.ParseFn {
	cols := wire.Columns{{Name: "a", Oid: 25}, {Name: "b", Oid: 25}}
	return func(ctx context.Context, q string) (wire.PreparedStatements, error) {
		cn := connName(ctx)
		return wire.Prepared(wire.NewStatement(func(ctx context.Context, w wire.DataWriter, p []wire.Parameter) error {
			sp := l.begin(cn, "statement")
			defer l.finish(sp)
			for i := 0; i < 2; i++ {
				if err := w.Row([]any{"first", yieldingText("second")}); err != nil {
					return err
				}
			}
			return w.Complete("SELECT 2")
		}, wire.WithColumns(cols))), nil
	}
}

// c16ParseCopy: the statement copies in; it is "running" from its start until the client completed the copy.
func c16ParseCopy(l *c16Log) wire.ParseFn {
	return func(ctx context.Context, q string) (wire.PreparedStatements, error) {
		cn := connName(ctx)
		return wire.Prepared(wire.NewStatement(func(ctx context.Context, w wire.DataWriter, p []wire.Parameter) error {
			sp := l.begin(cn, "statement")
			defer l.finish(sp)
			cr, err := w.CopyIn(wire.TextFormat)
			if err != nil {
				return err
			}
			for {
				if err := cr.Read(); err != nil {
					if err == io.EOF {
						return w.Complete("COPY")
					}
					return err
				}
			}
		}, wire.WithColumns(wire.Columns{{Name: "a", Oid: 25}}))), nil
	}
}

// c16ParseTwo: every query is two statements, each with yield points.
func c16ParseTwo(l *c16Log) wire.ParseFn {
	return func(ctx context.Context, q string) (wire.PreparedStatements, error) {
		cn := connName(ctx)
		mk := func(tag string) *wire.PreparedStatement {
			return wire.NewStatement(func(ctx context.Context, w wire.DataWriter, p []wire.Parameter) error {
				sp := l.begin(cn, "statement")
				vsched.Yield("stmt." + tag)
				err := w.Complete(tag)
				l.finish(sp)
				return err
			})
		}
		return wire.Prepared(mk("FIRST"), mk("SECOND")), nil
	}
}

// c16Parse: parser and statement function contain explicit yield points so a handler is never atomic.
func c16Parse(l *c16Log) wire.ParseFn {
	return func(ctx context.Context, q string) (wire.PreparedStatements, error) {
		cn := connName(ctx)
		sp := l.begin(cn, "parser")
		vsched.Yield("parser")
		l.finish(sp)
		return wire.Prepared(wire.NewStatement(func(ctx context.Context, w wire.DataWriter, p []wire.Parameter) error {
			sp := l.begin(cn, "statement")
			vsched.Yield("stmt.1")
			vsched.Yield("stmt.2")
			err := w.Complete("OK")
			l.finish(sp)
			return err
		})), nil
	}
}

type c16Conn struct {
	name string
	segs [][]byte // delivered one by one by this connection's environment thread
}

type c16Spec struct {
	copyIn      bool // the statement performs COPY-in (its handler blocks on client input)
	acceptFault bool // the listener reports an Accept error while a connection is being served
	midFrame    bool // the statement writes a row whose value yields to the scheduler while it is being encoded
	name        string
	conns       []c16Conn
	closers     int
	// secondClose: one more Close issued by the main thread after all concurrent ones returned
	secondClose bool
	// closeBeforeServe: Close is called by main before Serve is started
	closeBeforeServe bool
	// listeners: number of listeners served by the one Server (0 = 1); connection i arrives on listener i % listeners
	listeners int
	// auth: the server asks for a cleartext password
	auth bool
	// twoStatements: every query consists of two statements (C05: a cycle is never cut short between them)
	twoStatements bool
	// poolFIFO: sync.Pool shims hand out the oldest item instead of the newest one
	poolFIFO bool
	// listenerCloseErr: the listener's Close reports an error (it is closed all the same)
	listenerCloseErr bool
	// serveAgain: after every Close call has returned, Serve is called once more (with a fresh listener) and the
	// connections that were idle during Close send `late` (a Query): Close is final, nothing runs any more
	serveAgain bool
	late       []byte
	// terminateHook: the server has a TerminateConn hook (user code run by the handler of a Terminate message, with
	// yield points): Close waits for it like for any other command handler
	terminateHook bool
	desc       string
}

func c16Specs() []c16Spec {
	start := pgproto.Startup("user", "u")
	q := pgproto.Query("q")
	batch := pgproto.Cat(pgproto.Parse("", "q"), pgproto.Bind("", "", nil, nil, nil), pgproto.Execute("", 0), pgproto.Sync())
	return []c16Spec{
		{name: "X1", conns: []c16Conn{{"c1", [][]byte{start, q[:3], q[3:]}}}, closers: 1, desc: "one connection (Query split in two segments, handler with yields) + one Close"},
		{name: "X2", conns: []c16Conn{{"c1", [][]byte{start}}}, closers: 2, desc: "idle connection + two concurrent Close calls"},
		{name: "X3", conns: []c16Conn{{"c1", [][]byte{start, q}}}, closers: 2, desc: "connection with a Query + two concurrent Close calls"},
		{name: "X4", conns: []c16Conn{{"c1", [][]byte{start, q}}, {"c2", [][]byte{start}}}, closers: 1, secondClose: true, desc: "two connections + Close, then a second Close after the first returned"},
		{name: "X5", conns: nil, closers: 1, closeBeforeServe: false, desc: "Close racing with the start of Serve (no connections)"},
		{name: "X6", conns: []c16Conn{{"c1", [][]byte{start, batch}}}, closers: 1, desc: "extended batch Parse/Bind/Execute/Sync + Close"},
		{name: "X7", conns: []c16Conn{{"c1", [][]byte{start, pgproto.Cat(pgproto.Bind("", "nope", nil, nil, nil), pgproto.Execute("", 0), pgproto.Describe('S', ""), pgproto.Sync()), q}}}, closers: 1,
			desc: "a failed extended message followed by discarded messages, a Sync and a Query + one Close (every admitted command must be released again)"},
		{name: "X9", conns: []c16Conn{{"c1", [][]byte{start, pgproto.Query("copy"), pgproto.CopyData([]byte("a\n")), pgproto.CopyDone()}}}, closers: 1, copyIn: true,
			desc: "a statement inside COPY-in (blocked reading from the client between chunks) + Close: Close waits until the copy has been completed by the client"},
		{name: "X10", conns: []c16Conn{{"c1", [][]byte{start, q}}, {"c2", [][]byte{start}}}, closers: 1, listeners: 2,
			desc: "one Server serving two listeners (a connection with a Query on the first, an idle connection on the second) + Close: every Serve call returns nil, every accept loop stops"},
		{name: "X11", conns: []c16Conn{{"c1", [][]byte{start, pgproto.Cat(q, q)}}}, closers: 1,
			desc: "two Query messages arriving in one segment (the second is already buffered while the first handler runs) + Close"},
		{name: "X12", conns: []c16Conn{{"c1", [][]byte{start, pgproto.Msg('Q', []byte("no terminator")), q}}, {"c2", [][]byte{start, q}}}, closers: 1, secondClose: true,
			desc: "a connection that ends with a malformed message (its command fails with a connection-level error) next to a normal one + Close + a second Close: every admitted command is released"},
		{name: "X13", conns: []c16Conn{{"c1", [][]byte{start}}, {"c2", [][]byte{start, pgproto.Password("pw"), q}}}, closers: 1, auth: true,
			desc: "password authentication: one client never answers the password request, another one logs in and runs a Query + Close (a connection that is merely inside the start-up exchange holds up nobody)"},
		{name: "X14", conns: []c16Conn{{"c1", [][]byte{start, pgproto.Cat(pgproto.Parse("", "q"), pgproto.Sync()), pgproto.Cat(pgproto.Parse("s", "q"), pgproto.Describe('S', "s"), pgproto.Sync())}}}, closers: 1,
			desc: "extended protocol: Parse + Sync twice (the parser is user code too: none starts after Close returned) + Close"},
		{name: "X15", conns: []c16Conn{{"c1", [][]byte{start, pgproto.Msg('Q', make([]byte, 5000))[:2500]}}, {"c2", [][]byte{start, q}}}, closers: 1,
			desc: "a client that stops half-way through a message larger than the limit (its body is being skipped) next to a normal one + Close: nobody waits for the rest of that body"},
		{name: "X16", conns: []c16Conn{{"c1", [][]byte{start, q}}}, closers: 1, secondClose: true, listenerCloseErr: true,
			desc: "a listener whose Close reports an error (e.g. its owner had closed it already) while a connection is inside a handler + Close + a second Close: the handlers are waited for all the same"},
		{name: "X17", conns: []c16Conn{{"c1", [][]byte{start}}}, closers: 1, serveAgain: true, late: q,
			desc: "an idle connection + Close; after Close returned Serve is called again with another listener and the idle connection sends a Query: no parser or statement function begins executing any more"},
		{name: "X18", conns: []c16Conn{{"c1", [][]byte{start, pgproto.Parse("", "q")}}, {"c2", [][]byte{start, pgproto.Parse("s", "q"), pgproto.Bind("", "s", nil, nil, nil)}}}, closers: 1,
			desc: "clients that stop in the middle of an extended-query cycle (Parse / Parse + Bind, no Sync) and stay connected + Close: a command that has finished holds up nobody"},
		{name: "X19", conns: []c16Conn{{"c1", [][]byte{start, pgproto.Terminate()}}}, closers: 1, terminateHook: true,
			desc: "a client sending Terminate to a server with a TerminateConn hook (user code with yield points) + Close: Close returns only after the hook has finished, and no hook starts after Close returned"},
		{name: "X20", conns: []c16Conn{{"c1", [][]byte{start, q, pgproto.Terminate()}}, {"c2", [][]byte{start, pgproto.Terminate()}}}, closers: 1, terminateHook: true,
			desc: "two clients (one runs a Query first) sending Terminate to a server with a TerminateConn hook + Close"},
		{name: "X8", conns: []c16Conn{{"c1", [][]byte{start, q}}}, closers: 1, acceptFault: true,
			desc: "the listener fails with an Accept error (Serve returns it) while a connection is inside a handler, then Close"},
	}
}

func c16Scenario(spec c16Spec) *Scenario {
	return &Scenario{Name: spec.name, Property: "C16", Desc: spec.desc, MaxSteps: 5000,
		New: func() (func(), func(*vsched.Exec) Verdict) {
			log := &c16Log{}
			var conns []*memnet.SConn
			vsync.WaitGroupMisuse = 0
			vsync.PoolFIFO = spec.poolFIFO
			vsync.ResetPools()
			body := func() {
				memnet.Point = vsched.Point
				parse := c16Parse(log)
				if spec.midFrame {
					parse = c16ParseRows(log)
				}
				if spec.copyIn {
					parse = c16ParseCopy(log)
				}
				if spec.twoStatements {
					parse = c16ParseTwo(log)
				}
				sopts := []wire.OptionFn{wire.Logger(harness.Quiet), wire.MessageBufferSize(1 << 12)}
				if spec.auth {
					sopts = append(sopts, wire.SessionAuthStrategy(wire.ClearTextPassword(func(ctx context.Context, db, user, pw string) (context.Context, bool, error) {
						return ctx, pw == "pw", nil
					})))
				}
				if spec.terminateHook {
					sopts = append(sopts, wire.TerminateConn(func(ctx context.Context) error {
						sp := log.begin(connName(ctx), "terminate-hook")
						vsched.Yield("hook.1")
						vsched.Yield("hook.2")
						log.finish(sp)
						return nil
					}))
				}
				srv, err := wire.NewServer(parse, sopts...)
				if err != nil {
					panic(err)
				}
				l := memnet.NewSListener()
				if spec.listenerCloseErr {
					l.CloseErr = errors.New("close: use of closed network connection")
				}
				ls := []*memnet.SListener{l}
				vsched.RegisterObject("server", unsafe.Pointer(srv), unsafe.Sizeof(*srv))
				vsched.RegisterObject("listener", unsafe.Pointer(l), unsafe.Sizeof(*l))
				vsched.RegisterObject("log", unsafe.Pointer(log), unsafe.Sizeof(*log))
				vsched.Go(func() { log.served(srv.Serve(l)) })
				for i := 1; i < spec.listeners; i++ {
					li := memnet.NewSListener()
					ls = append(ls, li)
					vsched.RegisterObject(fmt.Sprintf("listener%d", i), unsafe.Pointer(li), unsafe.Sizeof(*li))
					vsched.Go(func() { log.served(srv.Serve(li)) })
				}
				for ci, c := range spec.conns {
					c := c
					l := ls[ci%len(ls)]
					sc := memnet.NewSConn("mem:"+c.name, nil, false)
					conns = append(conns, sc)
					vsched.RegisterObject("conn:"+c.name, unsafe.Pointer(sc), unsafe.Sizeof(*sc))
					vsched.Go(func() {
						l.Inject(sc)
						for _, s := range c.segs {
							sc.Push(s)
						}
					})
				}
				if spec.acceptFault {
					vsched.Go(func() { l.FailAccept(errors.New("accept: too many open files")) })
				}
				for i := 0; i < spec.closers; i++ {
					vsched.Go(func() {
						srv.Close()
						log.closeReturned()
					})
				}
				vsched.Cond("join-closers", uintptr(unsafe.Pointer(log)), log.allClosed(spec.closers))
				if spec.secondClose {
					srv.Close()
					log.closeReturned()
				}
				// "Close stops the accept loop so that Serve returns": with the clients still connected (idle, or in
				// the middle of a message) every Serve call must return now, not only once they have gone away
				vsched.Cond("serve-returns-while-clients-stay-connected", uintptr(unsafe.Pointer(log)), log.allServed(max(spec.listeners, 1)))
				if spec.serveAgain {
					l2 := memnet.NewSListener()
					vsched.RegisterObject("listener-again", unsafe.Pointer(l2), unsafe.Sizeof(*l2))
					vsched.Go(func() { srv.Serve(l2) })
					for _, sc := range conns {
						sc.Push(spec.late)
					}
					vsched.Yield("after-late-query")
					l2.Close()
				}
				// let every remaining thread finish: the clients go away
				for _, sc := range conns {
					sc.EOF()
				}
				vsched.WaitOthers()
			}
			judge := func(x *vsched.Exec) Verdict {
				var v Verdict
				spans, closes, events := log.snapshot()
				fail := func(clause, detail string) {
					v.Violations = append(v.Violations, explore.Violation{Clause: clause, Detail: detail + "\nevents: " + strings.Join(events, "; ")})
				}
				for _, p := range x.Panics {
					fail("panic", p)
				}
				if x.Deadlock {
					fail("deadlock", fmt.Sprintf("no thread can make progress: %v", x.Blocked))
				}
				if len(x.Panics) == 0 && !x.Deadlock && !x.StepLimit {
					if !log.serveDone || log.serves != max(spec.listeners, 1) {
						fail("serve-did-not-return", fmt.Sprintf("%d of %d Serve calls have returned although the server was closed", log.serves, max(spec.listeners, 1)))
					} else if log.serveErr != nil && !spec.acceptFault && !spec.listenerCloseErr { // (an error of the listener itself may be handed on)
						fail("serve-error", fmt.Sprintf("Serve returned %v, expected nil", log.serveErr))
					}
					if len(closes) != spec.closers+b2i(spec.secondClose) {
						fail("close-did-not-return", fmt.Sprintf("%d of %d Close calls returned", len(closes), spec.closers+b2i(spec.secondClose)))
					}
				}
				if len(closes) > 0 && len(x.Panics) == 0 {
					// every call to Close "returns only after every command handler that had started has
					// finished, and once it has returned no parser or statement function begins executing"
					for ci, T := range closes {
						for _, s := range spans {
							switch {
							case s.start > T:
								fail("handler-started-after-close", fmt.Sprintf("%s %s started at @%d, after Close call #%d had returned at @%d", s.conn, s.kind, s.start, ci+1, T))
							case s.start < T && (s.end == -1 || s.end > T):
								fail("close-returned-during-handler", fmt.Sprintf("Close call #%d returned at @%d while %s %s was running (@%d..@%d)", ci+1, T, s.conn, s.kind, s.start, s.end))
							}
						}
					}
				}
				for _, sc := range conns {
					if ms, err := pgproto.ParseBackend(sc.Output()); err == nil && spec.twoStatements {
						// a simple Query cycle carries the results of ALL its statements (or a single error) before its
						// ReadyForQuery, whatever Close does meanwhile; a query that was not admitted is not answered at all
						k := pgproto.Kinds(ms)
						if i := strings.IndexByte(k, 'Z'); i >= 0 {
							for _, cycle := range strings.SplitAfter(k[i+1:], "Z") {
								if cycle != "" && cycle != "CCZ" && !strings.Contains(cycle, "E") {
									fail("cycle-cut-short", fmt.Sprintf("connection %s: a query of two statements was answered %q (expected the results of both statements before ReadyForQuery)", sc.Name, cycle))
								}
							}
						}
					}
					if _, err := pgproto.ParseBackend(sc.Output()); err != nil {
						fail("malformed-backend-stream", fmt.Sprintf("connection %s received bytes that are not well-formed backend messages: %v", sc.Name, err))
					}
				}
				if vsync.WaitGroupMisuse > 0 {
					v.Notes = append(v.Notes, "WaitGroup.Add(+n) from zero while a Wait is pending (contract misuse, not reproduced by the shim)")
				}
				// outcome class: where did Close land relative to the handlers?
				T := -1
				if len(closes) > 0 {
					T = closes[0]
				}
				before, after := 0, 0
				for _, s := range spans {
					if s.end != -1 && s.end <= T {
						before++
					} else {
						after++
					}
				}
				v.Outcome = fmt.Sprintf("handlers-finished-before-close=%d not-run-or-after=%d", before, after)
				return v
			}
			return body, judge
		}}
}

func b2i(b bool) int {
	if b {
		return 1
	}
	return 0
}
