module verif/instrument

go 1.23.0
