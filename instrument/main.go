// Command instrument generates, from the CURRENT /repo working tree, scheduled
// copies of every library source file that uses goroutines, channels, sync or
// sync/atomic, plus a `go build -overlay` file that maps the originals to the
// copies and adds the virtual packages pkg/verifshim/{vsched,vsync,vatomic}.
// /repo itself is never touched.
//
//	instrument -repo /repo -shim /verif/shim -out <dir>
package main

import (
	"bytes"
	"encoding/json"
	"flag"
	"fmt"
	"go/ast"
	"go/format"
	"go/parser"
	"go/token"
	"os"
	"path/filepath"
	"reflect"
	"strconv"
	"strings"
)

const shimBase = "github.com/jeroenrinzema/psql-wire/pkg/verifshim/"

var libDirs = []string{".", "pkg/buffer", "pkg/types", "errors", "codes"}

type report struct {
	Files       []string `json:"files_rewritten"`
	GoStmts     int      `json:"go_statements"`
	ChanOps     int      `json:"channel_operations"`
	Selects     int      `json:"selects"`
	SyncImports int      `json:"sync_imports"`
	Timers      []string `json:"time_uses"`
	Unsupported []string `json:"unsupported"`
}

func main() {
	repo := flag.String("repo", "/repo", "repository root")
	shim := flag.String("shim", "/verif/shim", "shim sources")
	out := flag.String("out", "", "output directory")
	flag.Parse()
	if *out == "" {
		fmt.Fprintln(os.Stderr, "missing -out")
		os.Exit(2)
	}
	os.MkdirAll(*out, 0o755)
	overlay := map[string]string{}
	var rep report
	for _, d := range libDirs {
		dir := filepath.Join(*repo, d)
		ents, err := os.ReadDir(dir)
		if err != nil {
			continue
		}
		for _, e := range ents {
			n := e.Name()
			if e.IsDir() || !strings.HasSuffix(n, ".go") || strings.HasSuffix(n, "_test.go") {
				continue
			}
			src := filepath.Join(dir, n)
			res, changed, err := rewrite(src, &rep)
			if err != nil {
				fmt.Fprintf(os.Stderr, "instrument: %s: %v\n", src, err)
				os.Exit(2)
			}
			if !changed {
				continue
			}
			dst := filepath.Join(*out, strings.ReplaceAll(filepath.Join(d, n), string(filepath.Separator), "__"))
			if err := os.WriteFile(dst, res, 0o644); err != nil {
				fmt.Fprintln(os.Stderr, err)
				os.Exit(2)
			}
			overlay[src] = dst
			rep.Files = append(rep.Files, filepath.Join(d, n))
		}
	}
	for _, pkg := range []string{"vsched", "vsync", "vatomic"} {
		ents, err := os.ReadDir(filepath.Join(*shim, pkg))
		if err != nil {
			fmt.Fprintln(os.Stderr, err)
			os.Exit(2)
		}
		for _, e := range ents {
			if strings.HasSuffix(e.Name(), ".go") || strings.HasSuffix(e.Name(), ".s") {
				overlay[filepath.Join(*repo, "pkg/verifshim", pkg, e.Name())] = filepath.Join(*shim, pkg, e.Name())
			}
		}
	}
	b, _ := json.MarshalIndent(map[string]any{"Replace": overlay}, "", " ")
	os.WriteFile(filepath.Join(*out, "overlay.json"), b, 0o644)
	rb, _ := json.MarshalIndent(rep, "", " ")
	os.WriteFile(filepath.Join(*out, "report.json"), rb, 0o644)
}

func rewrite(path string, rep *report) ([]byte, bool, error) {
	fset := token.NewFileSet()
	f, err := parser.ParseFile(fset, path, nil, parser.ParseComments)
	if err != nil {
		return nil, false, err
	}
	changed := false
	needSched := false
	// imports
	for _, im := range f.Imports {
		p, _ := strconv.Unquote(im.Path.Value)
		switch p {
		case "sync":
			name := "sync"
			if im.Name != nil {
				name = im.Name.Name
			}
			im.Name = ast.NewIdent(name)
			im.Path.Value = strconv.Quote(shimBase + "vsync")
			changed = true
			rep.SyncImports++
		case "sync/atomic":
			name := "atomic"
			if im.Name != nil {
				name = im.Name.Name
			}
			im.Name = ast.NewIdent(name)
			im.Path.Value = strconv.Quote(shimBase + "vatomic")
			changed = true
			rep.SyncImports++
		case "time":
			ast.Inspect(f, func(n ast.Node) bool {
				if se, ok := n.(*ast.SelectorExpr); ok {
					if id, ok := se.X.(*ast.Ident); ok && id.Name == "time" {
						switch se.Sel.Name {
						case "Sleep", "After", "AfterFunc", "NewTimer", "NewTicker", "Tick":
							rep.Timers = append(rep.Timers, fmt.Sprintf("%s: time.%s", fset.Position(se.Pos()), se.Sel.Name))
						}
					}
				}
				return true
			})
		}
	}
	sched := func(fn string, args ...ast.Expr) *ast.CallExpr {
		needSched = true
		return &ast.CallExpr{Fun: &ast.SelectorExpr{X: ast.NewIdent("vsched"), Sel: ast.NewIdent(fn)}, Args: args}
	}
	counter := 0
	exprType := reflect.TypeOf((*ast.Expr)(nil)).Elem()
	stmtType := reflect.TypeOf((*ast.Stmt)(nil)).Elem()
	nodeType := reflect.TypeOf((*ast.Node)(nil)).Elem()
	var visit func(v reflect.Value)
	// rewriteExpr is applied post-order to every expression slot
	rewriteExpr := func(e ast.Expr) ast.Expr {
		switch x := e.(type) {
		case *ast.UnaryExpr:
			if x.Op == token.ARROW {
				rep.ChanOps++
				changed = true
				return sched("Recv", x.X)
			}
		case *ast.CallExpr:
			if id, ok := x.Fun.(*ast.Ident); ok && id.Name == "close" && len(x.Args) == 1 {
				rep.ChanOps++
				changed = true
				return sched("Close", x.Args[0])
			}
		}
		return e
	}
	rewriteStmt := func(st ast.Stmt) ast.Stmt {
		switch x := st.(type) {
		case *ast.GoStmt:
			rep.GoStmts++
			changed = true
			// go f(x) evaluates x now: bind the arguments first, then start a managed thread
			var pre []ast.Stmt
			call := x.Call
			for i, a := range call.Args {
				if _, isLit := a.(*ast.BasicLit); isLit {
					continue
				}
				counter++
				name := fmt.Sprintf("vsArg%d", counter)
				pre = append(pre, &ast.AssignStmt{Lhs: []ast.Expr{ast.NewIdent(name)}, Tok: token.DEFINE, Rhs: []ast.Expr{a}})
				call.Args[i] = ast.NewIdent(name)
			}
			body := &ast.FuncLit{Type: &ast.FuncType{Params: &ast.FieldList{}}, Body: &ast.BlockStmt{List: []ast.Stmt{&ast.ExprStmt{X: call}}}}
			goCall := &ast.ExprStmt{X: sched("Go", body)}
			if len(pre) == 0 {
				return goCall
			}
			return &ast.BlockStmt{List: append(pre, goCall)}
		case *ast.SendStmt:
			rep.ChanOps++
			changed = true
			return &ast.ExprStmt{X: sched("Send", x.Chan, x.Value)}
		case *ast.DeferStmt:
			// defer close(c) was turned into defer vsched.Close(c) by the expression pass (x.Call is a *CallExpr slot)
			if id, ok := x.Call.Fun.(*ast.Ident); ok && id.Name == "close" && len(x.Call.Args) == 1 {
				rep.ChanOps++
				changed = true
				x.Call = sched("Close", x.Call.Args[0])
			}
		case *ast.SelectStmt:
			// The communications of the cases stay real channel operations (visit skips them). The statement becomes
			//	{ vsSelN: vsched.SelectEnter(); select { <cases>; default: vsched.SelectIdle(); goto vsSelN } }
			// : a scheduling point before every attempt, and a select that found nothing ready waits (visibly to the
			// scheduler) until some other thread has made progress. No loop is introduced, so break / continue in the
			// case bodies keep their meaning. A select with a default clause only gets the scheduling point.
			rep.Selects++
			changed = true
			hasDefault := false
			// opaque: some case waits for a channel handed out by a call (ctx.Done(), time.After(..)): it may become
			// ready through code the scheduler does not see, so the wait is re-examined after every step of another
			// thread; otherwise only after channel operations
			opaque := false
			for _, c := range x.Body.List {
				cc, ok := c.(*ast.CommClause)
				if !ok {
					continue
				}
				if cc.Comm == nil {
					hasDefault = true
					continue
				}
				var ch ast.Expr
				switch s := cc.Comm.(type) {
				case *ast.SendStmt:
					ch = s.Chan
				case *ast.ExprStmt:
					ch = s.X
				case *ast.AssignStmt:
					if len(s.Rhs) == 1 {
						ch = s.Rhs[0]
					}
				}
				if ch == nil {
					opaque = true
					continue
				}
				ast.Inspect(ch, func(n ast.Node) bool {
					if _, ok := n.(*ast.CallExpr); ok {
						opaque = true
					}
					return true
				})
			}
			enter := &ast.ExprStmt{X: sched("SelectEnter")}
			if hasDefault {
				return &ast.BlockStmt{List: []ast.Stmt{enter, x}}
			}
			counter++
			label := ast.NewIdent(fmt.Sprintf("vsSel%d", counter))
			x.Body.List = append(x.Body.List, &ast.CommClause{Body: []ast.Stmt{
				&ast.ExprStmt{X: sched("SelectIdle", ast.NewIdent(strconv.FormatBool(opaque)))},
				&ast.BranchStmt{Tok: token.GOTO, Label: ast.NewIdent(label.Name)},
			}})
			return &ast.BlockStmt{List: []ast.Stmt{&ast.LabeledStmt{Label: label, Stmt: enter}, x}}
		case *ast.RangeStmt:
			// ranging over a channel blocks invisibly; flagged, not rewritten
		}
		return st
	}
	visit = func(v reflect.Value) {
		switch v.Kind() {
		case reflect.Interface, reflect.Ptr:
			if v.IsNil() {
				return
			}
			visit(v.Elem())
		case reflect.Slice:
			for i := 0; i < v.Len(); i++ {
				el := v.Index(i)
				visit(el)
				replaceSlot(el, exprType, stmtType, rewriteExpr, rewriteStmt)
			}
		case reflect.Struct:
			// the communication of a select case stays a real channel operation (see the SelectStmt rewrite)
			if cc, ok := v.Addr().Interface().(*ast.CommClause); ok {
				visit(reflect.ValueOf(&cc.Body).Elem())
				return
			}
			// v, ok := <-c  must become Recv2 before the generic receive rewrite sees it
			if as, ok := v.Addr().Interface().(*ast.AssignStmt); ok && len(as.Lhs) == 2 && len(as.Rhs) == 1 {
				if u, ok := as.Rhs[0].(*ast.UnaryExpr); ok && u.Op == token.ARROW {
					visit(reflect.ValueOf(&u.X).Elem())
					rep.ChanOps++
					changed = true
					as.Rhs[0] = sched("Recv2", u.X)
					for i := range as.Lhs {
						visit(reflect.ValueOf(&as.Lhs[i]).Elem())
					}
					return
				}
			}
			for i := 0; i < v.NumField(); i++ {
				f := v.Field(i)
				if !f.CanSet() {
					continue
				}
				t := f.Type()
				if t.Kind() == reflect.Ptr && t.Elem().Name() == "Object" || t.Kind() == reflect.Ptr && t.Elem().Name() == "Scope" {
					continue // resolver back-links
				}
				if t.Implements(nodeType) || t.Kind() == reflect.Slice || t == exprType || t == stmtType {
					visit(f)
					replaceSlot(f, exprType, stmtType, rewriteExpr, rewriteStmt)
				}
			}
		}
	}
	for _, d := range f.Decls {
		if fd, ok := d.(*ast.FuncDecl); ok && fd.Body != nil {
			visit(reflect.ValueOf(fd.Body))
		}
		if gd, ok := d.(*ast.GenDecl); ok && gd.Tok == token.VAR {
			visit(reflect.ValueOf(gd))
		}
	}
	if !changed {
		return nil, false, nil
	}
	if needSched {
		addImport(f, "vsched", shimBase+"vsched")
	}
	var buf bytes.Buffer
	if err := format.Node(&buf, fset, f); err != nil {
		return nil, false, err
	}
	return buf.Bytes(), true, nil
}

func addImport(f *ast.File, name, path string) {
	spec := &ast.ImportSpec{Name: ast.NewIdent(name), Path: &ast.BasicLit{Kind: token.STRING, Value: strconv.Quote(path)}}
	for _, d := range f.Decls {
		if gd, ok := d.(*ast.GenDecl); ok && gd.Tok == token.IMPORT {
			gd.Specs = append(gd.Specs, spec)
			gd.Lparen = 1 // force parenthesised form
			f.Imports = append(f.Imports, spec)
			return
		}
	}
	gd := &ast.GenDecl{Tok: token.IMPORT, Specs: []ast.Spec{spec}}
	f.Decls = append([]ast.Decl{gd}, f.Decls...)
	f.Imports = append(f.Imports, spec)
}

// replaceSlot applies the expression / statement rewrite to one settable slot.
func replaceSlot(f reflect.Value, exprType, stmtType reflect.Type, re func(ast.Expr) ast.Expr, rs func(ast.Stmt) ast.Stmt) {
	if !f.CanSet() || f.Kind() != reflect.Interface || f.IsNil() {
		return
	}
	switch f.Type() {
	case exprType:
		f.Set(reflect.ValueOf(re(f.Interface().(ast.Expr))))
	case stmtType:
		f.Set(reflect.ValueOf(rs(f.Interface().(ast.Stmt))))
	}
}
