//go:build !race

package vsched

func handoff(c chan struct{})        { c <- struct{}{} }
func handoffVisible(c chan struct{}) { c <- struct{}{} }
func wait(c chan struct{})           { <-c }
func waitVisible(c chan struct{})       { <-c }
