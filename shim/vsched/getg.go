package vsched

import (
	"bytes"
	"runtime"
)

// Stray goroutines. Every managed thread runs on a goroutine created by (*Sched).spawn. A scheduling point
// reached by any OTHER goroutine means that the code under test started a goroutine through code the
// instrumenter does not rewrite (errgroup, time.AfterFunc, ...): it runs outside the scheduler's control. The
// execution is then reported as unsupported (an engine error, never a verdict) and the stray goroutine is parked
// instead of being allowed to corrupt the scheduler's bookkeeping.
//
// The check must be cheap: a stray can only exist while more goroutines exist than the scheduler accounts for
// (those that existed when the execution began + the threads it created). Only then is the caller's own stack
// trace consulted (its last line names the function that created the goroutine).

var spawnMark = []byte("vsched.(*Sched).spawn")

var strayEver bool

//go:norace
func stray() bool {
	s := S
	if s == nil {
		return false
	}
	if !strayEver && runtime.NumGoroutine() <= s.base+len(s.threads) {
		return false
	}
	buf := make([]byte, 1<<16)
	n := runtime.Stack(buf, false)
	tr := buf[:n]
	i := bytes.LastIndex(tr, []byte("created by "))
	if i < 0 || bytes.Contains(tr[i:], spawnMark) {
		return false // (i < 0: the trace did not fit - give the caller the benefit of the doubt)
	}
	strayEver = true // (it may outlive this execution: from now on every scheduling point looks at its caller)
	if Unsupported == "" {
		line := tr[i:]
		if j := bytes.IndexByte(line, '\n'); j >= 0 {
			line = line[:j]
		}
		Unsupported = "a goroutine that was not started by an instrumented go statement reached a scheduling point and runs outside the scheduler's control (" + string(line) + ")"
	}
	return true
}
