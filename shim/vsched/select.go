package vsched

import (
	"runtime"
	"time"
)

// A select statement of the instrumented code keeps its real channel operations; the instrumenter puts
// SelectEnter before every attempt and adds a default clause that calls SelectIdle and tries again.

// SelectEnter is the scheduling point before a select statement is attempted.
func SelectEnter() {
	if Active() {
		Point("select", Local(), nil)
	}
}

// SelectIdle is reached when no case of a blocking select was ready: the thread waits until some other thread
// has performed a channel operation (opaque: any step other than polling a select of its own - the channels of the
// select are not all in the hands of instrumented code), then the select is attempted again. When every other
// thread is blocked or finished the wait is never enabled again and the execution ends as a deadlock - which it is.
func SelectIdle(opaque bool) {
	if !Active() {
		runtime.Gosched()
		time.Sleep(20 * time.Microsecond)
		return
	}
	at := progressNow(opaque)
	Point("select.wait", Local(), func() bool { return progressNow(opaque) != at })
}

//go:norace
func progressNow(opaque bool) int {
	if opaque {
		return S.progress
	}
	return S.chanProgress
}
