package vsched

import "reflect"

// Channel operations of the instrumented code. A receive is enabled iff the
// channel was closed (through Close) or holds a buffered item. Unbuffered
// rendezvous between two managed threads is not modelled: a send on a full /
// unbuffered channel is reported as unsupported instead of guessing.

var closedChans []uintptr // a slice, not a map: map functions are race-instrumented even under //go:norace

//go:norace
func chanKey(c any) uintptr { return reflect.ValueOf(c).Pointer() }

//go:norace
func markClosed(k uintptr) { closedChans = append(closedChans, k) }

//go:norace
func isClosed(k uintptr) bool {
	for _, c := range closedChans {
		if c == k {
			return true
		}
	}
	return false
}

// Unsupported is set when the instrumented code used a construct the shims cannot schedule.
var Unsupported string

func Close[T any](c chan T) {
	if Active() {
		k := chanKey(c)
		Point("chan.close", k, nil)
		markClosed(k)
	}
	close(c)
}

func Recv[T any](c <-chan T) T {
	if Active() {
		k := chanKey(c)
		Point("chan.recv", k, func() bool { return isClosed(k) || len(c) > 0 })
	}
	return <-c
}

func Recv2[T any](c <-chan T) (T, bool) {
	if Active() {
		k := chanKey(c)
		Point("chan.recv", k, func() bool { return isClosed(k) || len(c) > 0 })
	}
	v, ok := <-c
	return v, ok
}

func Send[T any](c chan<- T, v T) {
	if Active() {
		k := chanKey(c)
		Point("chan.send", k, func() bool { return len(c) < cap(c) || isClosed(k) })
		if cap(c) == 0 {
			Unsupported = "send on an unbuffered channel (rendezvous is not modelled)"
		}
	}
	c <- v
}

// ResetChans forgets channel state between executions.
//
//go:norace
func ResetChans() { closedChans = nil; Unsupported = "" }
