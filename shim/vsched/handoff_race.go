//go:build race

package vsched

import "runtime"

// Under the race detector the scheduler's own hand-offs must not create
// happens-before edges between managed threads (they would hide every race of
// the code under test). Synchronisation events are ignored between
// RaceDisable and RaceEnable while memory accesses are still tracked, so both
// directions of every hand-off are wrapped.

func handoff(c chan struct{}) {
	runtime.RaceDisable()
	c <- struct{}{}
	runtime.RaceEnable()
}

// handoffVisible is the final hand-off to the driver: it stays visible so the
// driver may read what the threads wrote.
func handoffVisible(c chan struct{}) { c <- struct{}{} }

func wait(c chan struct{}) {
	runtime.RaceDisable()
	<-c
	runtime.RaceEnable()
}

// waitVisible is the driver side of the final, visible hand-off.
func waitVisible(c chan struct{}) { <-c }
