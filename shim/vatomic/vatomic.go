// Package vatomic mirrors sync/atomic: every operation is a scheduling point
// followed by the real atomic operation.
package vatomic

import (
	"sync/atomic"
	"unsafe"

	"github.com/jeroenrinzema/psql-wire/pkg/verifshim/vsched"
)

func pt(kind string, p unsafe.Pointer) {
	if vsched.Active() {
		vsched.Point(kind, uintptr(p), nil)
	}
}

type Bool struct{ v atomic.Bool }

func (b *Bool) Load() bool       { pt("atomic.load", unsafe.Pointer(b)); return b.v.Load() }
func (b *Bool) Store(x bool)     { pt("atomic.store", unsafe.Pointer(b)); b.v.Store(x) }
func (b *Bool) Swap(x bool) bool { pt("atomic.swap", unsafe.Pointer(b)); return b.v.Swap(x) }
func (b *Bool) CompareAndSwap(o, n bool) bool {
	pt("atomic.cas", unsafe.Pointer(b))
	return b.v.CompareAndSwap(o, n)
}

type Int32 struct{ v atomic.Int32 }

func (b *Int32) Load() int32        { pt("atomic.load", unsafe.Pointer(b)); return b.v.Load() }
func (b *Int32) Store(x int32)      { pt("atomic.store", unsafe.Pointer(b)); b.v.Store(x) }
func (b *Int32) Swap(x int32) int32 { pt("atomic.swap", unsafe.Pointer(b)); return b.v.Swap(x) }
func (b *Int32) Add(d int32) int32  { pt("atomic.add", unsafe.Pointer(b)); return b.v.Add(d) }
func (b *Int32) CompareAndSwap(o, n int32) bool {
	pt("atomic.cas", unsafe.Pointer(b))
	return b.v.CompareAndSwap(o, n)
}

type Int64 struct{ v atomic.Int64 }

func (b *Int64) Load() int64        { pt("atomic.load", unsafe.Pointer(b)); return b.v.Load() }
func (b *Int64) Store(x int64)      { pt("atomic.store", unsafe.Pointer(b)); b.v.Store(x) }
func (b *Int64) Swap(x int64) int64 { pt("atomic.swap", unsafe.Pointer(b)); return b.v.Swap(x) }
func (b *Int64) Add(d int64) int64  { pt("atomic.add", unsafe.Pointer(b)); return b.v.Add(d) }
func (b *Int64) CompareAndSwap(o, n int64) bool {
	pt("atomic.cas", unsafe.Pointer(b))
	return b.v.CompareAndSwap(o, n)
}

type Uint32 struct{ v atomic.Uint32 }

func (b *Uint32) Load() uint32         { pt("atomic.load", unsafe.Pointer(b)); return b.v.Load() }
func (b *Uint32) Store(x uint32)       { pt("atomic.store", unsafe.Pointer(b)); b.v.Store(x) }
func (b *Uint32) Swap(x uint32) uint32 { pt("atomic.swap", unsafe.Pointer(b)); return b.v.Swap(x) }
func (b *Uint32) Add(d uint32) uint32  { pt("atomic.add", unsafe.Pointer(b)); return b.v.Add(d) }
func (b *Uint32) CompareAndSwap(o, n uint32) bool {
	pt("atomic.cas", unsafe.Pointer(b))
	return b.v.CompareAndSwap(o, n)
}

type Uint64 struct{ v atomic.Uint64 }

func (b *Uint64) Load() uint64         { pt("atomic.load", unsafe.Pointer(b)); return b.v.Load() }
func (b *Uint64) Store(x uint64)       { pt("atomic.store", unsafe.Pointer(b)); b.v.Store(x) }
func (b *Uint64) Swap(x uint64) uint64 { pt("atomic.swap", unsafe.Pointer(b)); return b.v.Swap(x) }
func (b *Uint64) Add(d uint64) uint64  { pt("atomic.add", unsafe.Pointer(b)); return b.v.Add(d) }
func (b *Uint64) CompareAndSwap(o, n uint64) bool {
	pt("atomic.cas", unsafe.Pointer(b))
	return b.v.CompareAndSwap(o, n)
}

type Pointer[T any] struct{ v atomic.Pointer[T] }

func (b *Pointer[T]) Load() *T     { pt("atomic.load", unsafe.Pointer(b)); return b.v.Load() }
func (b *Pointer[T]) Store(x *T)   { pt("atomic.store", unsafe.Pointer(b)); b.v.Store(x) }
func (b *Pointer[T]) Swap(x *T) *T { pt("atomic.swap", unsafe.Pointer(b)); return b.v.Swap(x) }
func (b *Pointer[T]) CompareAndSwap(o, n *T) bool {
	pt("atomic.cas", unsafe.Pointer(b))
	return b.v.CompareAndSwap(o, n)
}

type Value struct{ v atomic.Value }

func (b *Value) Load() any      { pt("atomic.load", unsafe.Pointer(b)); return b.v.Load() }
func (b *Value) Store(x any)    { pt("atomic.store", unsafe.Pointer(b)); b.v.Store(x) }
func (b *Value) Swap(x any) any { pt("atomic.swap", unsafe.Pointer(b)); return b.v.Swap(x) }
func (b *Value) CompareAndSwap(o, n any) bool {
	pt("atomic.cas", unsafe.Pointer(b))
	return b.v.CompareAndSwap(o, n)
}

// function forms
func LoadInt32(p *int32) int32     { pt("atomic.load", unsafe.Pointer(p)); return atomic.LoadInt32(p) }
func StoreInt32(p *int32, v int32) { pt("atomic.store", unsafe.Pointer(p)); atomic.StoreInt32(p, v) }
func AddInt32(p *int32, d int32) int32 {
	pt("atomic.add", unsafe.Pointer(p))
	return atomic.AddInt32(p, d)
}
func SwapInt32(p *int32, v int32) int32 {
	pt("atomic.swap", unsafe.Pointer(p))
	return atomic.SwapInt32(p, v)
}
func CompareAndSwapInt32(p *int32, o, n int32) bool {
	pt("atomic.cas", unsafe.Pointer(p))
	return atomic.CompareAndSwapInt32(p, o, n)
}
func LoadInt64(p *int64) int64     { pt("atomic.load", unsafe.Pointer(p)); return atomic.LoadInt64(p) }
func StoreInt64(p *int64, v int64) { pt("atomic.store", unsafe.Pointer(p)); atomic.StoreInt64(p, v) }
func AddInt64(p *int64, d int64) int64 {
	pt("atomic.add", unsafe.Pointer(p))
	return atomic.AddInt64(p, d)
}
func SwapInt64(p *int64, v int64) int64 {
	pt("atomic.swap", unsafe.Pointer(p))
	return atomic.SwapInt64(p, v)
}
func CompareAndSwapInt64(p *int64, o, n int64) bool {
	pt("atomic.cas", unsafe.Pointer(p))
	return atomic.CompareAndSwapInt64(p, o, n)
}
func LoadUint32(p *uint32) uint32 { pt("atomic.load", unsafe.Pointer(p)); return atomic.LoadUint32(p) }
func StoreUint32(p *uint32, v uint32) {
	pt("atomic.store", unsafe.Pointer(p))
	atomic.StoreUint32(p, v)
}
func AddUint32(p *uint32, d uint32) uint32 {
	pt("atomic.add", unsafe.Pointer(p))
	return atomic.AddUint32(p, d)
}
func CompareAndSwapUint32(p *uint32, o, n uint32) bool {
	pt("atomic.cas", unsafe.Pointer(p))
	return atomic.CompareAndSwapUint32(p, o, n)
}
func LoadUint64(p *uint64) uint64 { pt("atomic.load", unsafe.Pointer(p)); return atomic.LoadUint64(p) }
func StoreUint64(p *uint64, v uint64) {
	pt("atomic.store", unsafe.Pointer(p))
	atomic.StoreUint64(p, v)
}
func AddUint64(p *uint64, d uint64) uint64 {
	pt("atomic.add", unsafe.Pointer(p))
	return atomic.AddUint64(p, d)
}
func CompareAndSwapUint64(p *uint64, o, n uint64) bool {
	pt("atomic.cas", unsafe.Pointer(p))
	return atomic.CompareAndSwapUint64(p, o, n)
}

type Uintptr struct{ v atomic.Uintptr }

func (b *Uintptr) Load() uintptr          { pt("atomic.load", unsafe.Pointer(b)); return b.v.Load() }
func (b *Uintptr) Store(x uintptr)        { pt("atomic.store", unsafe.Pointer(b)); b.v.Store(x) }
func (b *Uintptr) Swap(x uintptr) uintptr { pt("atomic.swap", unsafe.Pointer(b)); return b.v.Swap(x) }
func (b *Uintptr) Add(d uintptr) uintptr  { pt("atomic.add", unsafe.Pointer(b)); return b.v.Add(d) }
func (b *Uintptr) CompareAndSwap(o, n uintptr) bool {
	pt("atomic.cas", unsafe.Pointer(b))
	return b.v.CompareAndSwap(o, n)
}

func (b *Int32) And(m int32) int32    { pt("atomic.and", unsafe.Pointer(b)); return b.v.And(m) }
func (b *Int32) Or(m int32) int32     { pt("atomic.or", unsafe.Pointer(b)); return b.v.Or(m) }
func (b *Uint32) And(m uint32) uint32 { pt("atomic.and", unsafe.Pointer(b)); return b.v.And(m) }
func (b *Uint32) Or(m uint32) uint32  { pt("atomic.or", unsafe.Pointer(b)); return b.v.Or(m) }
func (b *Int64) And(m int64) int64    { pt("atomic.and", unsafe.Pointer(b)); return b.v.And(m) }
func (b *Int64) Or(m int64) int64     { pt("atomic.or", unsafe.Pointer(b)); return b.v.Or(m) }
func (b *Uint64) And(m uint64) uint64 { pt("atomic.and", unsafe.Pointer(b)); return b.v.And(m) }
func (b *Uint64) Or(m uint64) uint64  { pt("atomic.or", unsafe.Pointer(b)); return b.v.Or(m) }

func SwapUint32(p *uint32, v uint32) uint32 {
	pt("atomic.swap", unsafe.Pointer(p))
	return atomic.SwapUint32(p, v)
}
func SwapUint64(p *uint64, v uint64) uint64 {
	pt("atomic.swap", unsafe.Pointer(p))
	return atomic.SwapUint64(p, v)
}
func LoadPointer(p *unsafe.Pointer) unsafe.Pointer {
	pt("atomic.load", unsafe.Pointer(p))
	return atomic.LoadPointer(p)
}
func StorePointer(p *unsafe.Pointer, v unsafe.Pointer) {
	pt("atomic.store", unsafe.Pointer(p))
	atomic.StorePointer(p, v)
}
func SwapPointer(p *unsafe.Pointer, v unsafe.Pointer) unsafe.Pointer {
	pt("atomic.swap", unsafe.Pointer(p))
	return atomic.SwapPointer(p, v)
}
func CompareAndSwapPointer(p *unsafe.Pointer, o, n unsafe.Pointer) bool {
	pt("atomic.cas", unsafe.Pointer(p))
	return atomic.CompareAndSwapPointer(p, o, n)
}
