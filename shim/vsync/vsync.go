// Package vsync mirrors the identifiers of package sync that psql-wire may
// use. With no scheduler active every type is a pass-through to the real
// primitive; under the scheduler each operation is a scheduling point whose
// enabledness models blocking, and the REAL primitive is still invoked (it
// never blocks then) so that the program's own synchronisation stays visible
// to the race detector.
package vsync

import (
	"sync"
	"unsafe"

	"github.com/jeroenrinzema/psql-wire/pkg/verifshim/vsched"
)

type Locker = sync.Locker
type Map = sync.Map

// Cond --------------------------------------------------------------------------
//
// Wait releases L, waits (a scheduling point that is enabled once a Signal / Broadcast has picked this waiter)
// and takes L again. Waiters are woken in the order in which they began to wait (sync.Cond promises no order;
// this is one legal behaviour). The wake-up itself travels over a real channel so that Signal -> Wait stays
// visible to the race detector.

type Cond struct {
	L       Locker
	once    sync.Once
	real    *sync.Cond
	waiters []*condTicket
}

type condTicket struct {
	woken bool
	ch    chan struct{}
}

func NewCond(l Locker) *Cond { return &Cond{L: l} }

func (c *Cond) plain() *sync.Cond {
	c.once.Do(func() { c.real = sync.NewCond(c.L) })
	return c.real
}

//go:norace
func (c *Cond) enqueue() *condTicket {
	t := &condTicket{ch: make(chan struct{}, 1)}
	c.waiters = append(c.waiters, t)
	return t
}

//go:norace
func (c *Cond) wake(all bool) []*condTicket {
	n := len(c.waiters)
	if n > 1 && !all {
		n = 1
	}
	out := c.waiters[:n:n]
	c.waiters = c.waiters[n:]
	for _, t := range out {
		t.woken = true
	}
	return out
}

//go:norace
func (t *condTicket) isWoken() bool { return t.woken }

func (c *Cond) Wait() {
	if !vsched.Active() {
		c.plain().Wait()
		return
	}
	t := c.enqueue()
	c.L.Unlock()
	vsched.Point("cond.wait", uintptr(unsafe.Pointer(c)), t.isWoken)
	<-t.ch
	c.L.Lock()
}

func (c *Cond) Signal() {
	if !vsched.Active() {
		c.plain().Signal()
		return
	}
	vsched.Point("cond.signal", uintptr(unsafe.Pointer(c)), nil)
	for _, t := range c.wake(false) {
		t.ch <- struct{}{}
	}
}

func (c *Cond) Broadcast() {
	if !vsched.Active() {
		c.plain().Broadcast()
		return
	}
	vsched.Point("cond.broadcast", uintptr(unsafe.Pointer(c)), nil)
	for _, t := range c.wake(true) {
		t.ch <- struct{}{}
	}
}

// Pool --------------------------------------------------------------------------
//
// sync.Pool may hand out any item that was Put before (or a new one) and keeps per-processor caches: which
// goroutine gets which item is decided by the runtime, outside the scheduler. The shim is one legal Pool: a list
// shared by all threads, handing out the newest or the oldest item (PoolFIFO) — deterministic either way.
// Get and Put are scheduling points; the real mutex keeps Put -> Get visible to the race detector.

type Pool struct {
	New   func() any
	real  sync.Mutex
	items []any
	known bool
}

var (
	poolsMu sync.Mutex
	pools   []*Pool
)

// ResetPools empties every pool used so far: package-level pools of the code under test would otherwise carry
// items from one explored execution into the next (no execution may depend on its predecessors).
func ResetPools() {
	poolsMu.Lock()
	for _, p := range pools {
		p.real.Lock()
		p.items = nil
		p.real.Unlock()
	}
	poolsMu.Unlock()
}

func (p *Pool) register() {
	p.real.Lock()
	k := p.known
	p.known = true
	p.real.Unlock()
	if !k {
		poolsMu.Lock()
		pools = append(pools, p)
		poolsMu.Unlock()
	}
}

// PoolFIFO selects which of the items a Get hands out: the one Put last (false) or the one Put first (true).
// Both are legal; a scenario is explored under each policy it wants covered.
var PoolFIFO bool

func (p *Pool) Get() any {
	p.register()
	if vsched.Active() {
		vsched.Point("pool.get", uintptr(unsafe.Pointer(p)), nil)
	}
	p.real.Lock()
	var x any
	if n := len(p.items); n > 0 && PoolFIFO {
		x = p.items[0]
		p.items = append(p.items[:0], p.items[1:]...)
	} else if n > 0 {
		x = p.items[n-1]
		p.items[n-1] = nil
		p.items = p.items[:n-1]
	}
	p.real.Unlock()
	if x == nil && p.New != nil {
		x = p.New()
	}
	return x
}

func (p *Pool) Put(x any) {
	if x == nil {
		return
	}
	p.register()
	if vsched.Active() {
		vsched.Point("pool.put", uintptr(unsafe.Pointer(p)), nil)
	}
	p.real.Lock()
	p.items = append(p.items, x)
	p.real.Unlock()
}

// Mutex -------------------------------------------------------------------------

type Mutex struct {
	real   sync.Mutex
	locked bool
}

//go:norace
func (m *Mutex) free() bool { return !m.locked }

//go:norace
func (m *Mutex) set(v bool) { m.locked = v }

func (m *Mutex) Lock() {
	if vsched.Active() {
		vsched.Point("mutex.lock", uintptr(unsafe.Pointer(m)), m.free)
		m.set(true)
	}
	m.real.Lock()
}

func (m *Mutex) TryLock() bool {
	if vsched.Active() {
		vsched.Point("mutex.trylock", uintptr(unsafe.Pointer(m)), nil)
	}
	ok := m.real.TryLock()
	if ok && vsched.Active() {
		m.set(true)
	}
	return ok
}

func (m *Mutex) Unlock() {
	if vsched.Active() {
		vsched.Point("mutex.unlock", uintptr(unsafe.Pointer(m)), nil)
		m.set(false)
	}
	m.real.Unlock()
}

// RWMutex -----------------------------------------------------------------------

type RWMutex struct {
	real    sync.RWMutex
	readers int
	writer  bool
}

//go:norace
func (m *RWMutex) canWrite() bool { return !m.writer && m.readers == 0 }

//go:norace
func (m *RWMutex) canRead() bool { return !m.writer }

//go:norace
func (m *RWMutex) upd(dr int, w int) {
	m.readers += dr
	if w > 0 {
		m.writer = true
	} else if w < 0 {
		m.writer = false
	}
}

func (m *RWMutex) Lock() {
	if vsched.Active() {
		vsched.Point("rwmutex.lock", uintptr(unsafe.Pointer(m)), m.canWrite)
		m.upd(0, 1)
	}
	m.real.Lock()
}

func (m *RWMutex) Unlock() {
	if vsched.Active() {
		vsched.Point("rwmutex.unlock", uintptr(unsafe.Pointer(m)), nil)
		m.upd(0, -1)
	}
	m.real.Unlock()
}

func (m *RWMutex) RLock() {
	if vsched.Active() {
		vsched.Point("rwmutex.rlock", uintptr(unsafe.Pointer(m)), m.canRead)
		m.upd(1, 0)
	}
	m.real.RLock()
}

func (m *RWMutex) RUnlock() {
	if vsched.Active() {
		vsched.Point("rwmutex.runlock", uintptr(unsafe.Pointer(m)), nil)
		m.upd(-1, 0)
	}
	m.real.RUnlock()
}

func (m *RWMutex) RLocker() Locker { return (*rlocker)(m) }

type rlocker RWMutex

func (r *rlocker) Lock()   { (*RWMutex)(r).RLock() }
func (r *rlocker) Unlock() { (*RWMutex)(r).RUnlock() }

// WaitGroup ---------------------------------------------------------------------

type WaitGroup struct {
	real    sync.WaitGroup
	n       int
	waiting int
	// Misuse counts positive Adds from zero while a Wait is pending (contract misuse
	// that the real primitive only detects inside a window of a few instructions).
}

// WaitGroupMisuse counts "Add(+n) at zero while a Wait is pending" events of the current execution.
var WaitGroupMisuse int

//go:norace
func (w *WaitGroup) zero() bool { return w.n == 0 }

//go:norace
func (w *WaitGroup) add(d int) {
	if d > 0 && w.n == 0 && w.waiting > 0 {
		WaitGroupMisuse++
	}
	w.n += d
}

//go:norace
func (w *WaitGroup) wait(d int) { w.waiting += d }

func (w *WaitGroup) Add(delta int) {
	if vsched.Active() {
		vsched.Point("wg.add", uintptr(unsafe.Pointer(w)), nil)
		w.add(delta)
	}
	w.real.Add(delta)
}

func (w *WaitGroup) Done() { w.Add(-1) }

func (w *WaitGroup) Wait() {
	if vsched.Active() {
		w.wait(1)
		vsched.Point("wg.wait", uintptr(unsafe.Pointer(w)), w.zero)
		w.wait(-1)
	}
	w.real.Wait()
}

// Once --------------------------------------------------------------------------

type Once struct {
	real    sync.Once
	running bool
	done    bool
}

//go:norace
func (o *Once) idle() bool { return !o.running }

//go:norace
func (o *Once) isDone() bool { return o.done }

//go:norace
func (o *Once) mark(running, done bool) { o.running, o.done = running, done }

func (o *Once) Do(f func()) {
	if !vsched.Active() {
		o.real.Do(f)
		return
	}
	vsched.Point("once.do", uintptr(unsafe.Pointer(o)), o.idle)
	if o.isDone() {
		o.real.Do(func() {})
		return
	}
	o.mark(true, false)
	o.real.Do(f)
	o.mark(false, true)
}

func OnceFunc(f func()) func() {
	var o Once
	return func() { o.Do(f) }
}

func OnceValue[T any](f func() T) func() T {
	var o Once
	var v T
	return func() T {
		o.Do(func() { v = f() })
		return v
	}
}

func OnceValues[T1, T2 any](f func() (T1, T2)) func() (T1, T2) {
	var o Once
	var v1 T1
	var v2 T2
	return func() (T1, T2) {
		o.Do(func() { v1, v2 = f() })
		return v1, v2
	}
}
