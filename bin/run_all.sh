#!/bin/bash
# ./bin/run_all.sh [quick|thorough] [IDs...]  run every registered check, print one summary line each
. "$(dirname "$0")/env.sh"
tier="${1:-quick}"; shift
ids="$@"
[ -z "$ids" ] && ids=$(python3 -c "import json;print(' '.join(c['property_id'] for c in json.load(open('$VERIF_ROOT/MANIFEST.json'))['checks']))")
rc=0
for id in $ids; do
  out=$("$VERIF_ROOT/bin/check" "$id" "$tier" 2>&1); r=$?
  echo "$out" | grep -E "^(VIOLATION|KNOWN-FINDING|ENGINE-ERROR)" | cut -c1-200 | head -5
  echo "$out" | tail -1 | sed "s/^/[exit $r] /"
  [ $r -ne 0 ] && rc=1
done
exit $rc
