#!/usr/bin/env python3
"""Regenerates the "change | what it does | reported by" table of DESIGN.md §9.4 from seeded/*/meta.json."""
import glob, json, os, re

ROOT = os.path.dirname(os.path.dirname(os.path.abspath(__file__)))

def title(d, name):
    notes = os.path.join(d, "NOTES.md")
    t = name
    if os.path.exists(notes):
        lines = [l.strip("# ").strip() for l in open(notes).read().splitlines() if l.strip()]
        if lines:
            t = lines[0]
    t = re.sub(r"^(C\d+\s*/\s*)?m\d+\s*[—\-–:]\s*", "", t)
    t = t.replace("|", "/")
    return t[:120]

def key(n):
    p, m = n.split("-", 1)
    return (p, int(re.sub(r"\D", "", m) or 0))

rows = []
for d in sorted(glob.glob(os.path.join(ROOT, "seeded", "*")), key=lambda d: key(os.path.basename(d))):
    name = os.path.basename(d)
    mp = os.path.join(d, "meta.json")
    if not os.path.exists(mp):
        continue
    m = json.load(open(mp))
    rep = []
    for cid, c in m.get("checks", {}).items():
        if c.get("exit") == 1 and c.get("violation_lines", 0) > 0:
            cl = ", ".join(c.get("clauses", []))
            rep.append("%s (%s)" % (cid, cl[:90]))
    own = m["property"]
    rep.sort(key=lambda r: (not r.startswith(own), r))
    rows.append("| %s | %s | %s |" % (name, title(d, name), "; ".join(rep) if rep else "—"))

table = "| change | what it does | reported by |\n|---|---|---|\n" + "\n".join(rows) + "\n"
p = os.path.join(ROOT, "DESIGN.md")
s = open(p).read()
start = s.index("| change | what it does | reported by |")
end = s.index("\nOwn deliberate changes used while building")
s = s[:start] + table + s[end:]
open(p, "w").write(s)
print(len(rows), "rows")
