#!/usr/bin/env python3
# writes the prompts handed to the sub-agents that write property-breaking changes (wave 4 naming: m8, m9)
import json,glob,os,re
tried={}
for d in sorted(glob.glob('/verif/seeded/*/')):
    n=os.path.basename(d.rstrip('/')); p=n.split('-')[0]
    notes=open(d+'NOTES.md').read() if os.path.exists(d+'NOTES.md') else ''
    first=[l.strip('# ').strip() for l in notes.splitlines() if l.strip()][:1]
    t=first[0] if first else n
    t=re.sub(r'^(C\d+\s*/\s*)?m\d+\s*[—\-–:]\s*','',t)
    tried.setdefault(p,[]).append(t)
tried.setdefault('C20',[]).append('positional indexes >= 65536 clamped to 65535 instead of ignored')
tmpl='''You are helping to evaluate a verification framework by writing realistic *property-breaking changes* ("seeded defects") for a Go library. Work ONLY inside your own scratch git worktree of the library at WORKTREE (a detached checkout; it is yours, nothing else may be touched; do NOT read or use anything under /verif, and do NOT touch /repo).

IMPORTANT: never use `git stash` (the stash is shared between many worktrees of this repository and other people are working in sibling worktrees right now). To switch between "with my change" and "without my change" use:  git diff > /tmp/mut4/MYID.patch ; git checkout -- . ; ... ; git apply /tmp/mut4/MYID.patch

The library is github.com/jeroenrinzema/psql-wire: a pure-Go PostgreSQL server-side wire-protocol library (handshake, TLS upgrade, auth, simple/extended query, COPY-in, message framing). Read its sources (*.go in the root package, pkg/buffer, pkg/types, errors, codes) as needed.

The sandbox has no network. Before every go command run:
  export GOFLAGS=-mod=mod GOPROXY=off GOSUMDB=off GOTOOLCHAIN=local
The existing test-suite is run with:  cd WORKTREE && go test -vet=off -count=1 ./...   (pipe the output through `tail -5`; it is very verbose). It has a known pre-existing flake ("Log in goroutine after Test... has completed"): if you see that, just re-run.

This is the semantic property of the library you must break:

PROPERTY_TEXT

Other people have ALREADY written the following changes for this property; do NOT repeat them or variations of them — find different code sites and different mechanisms (different trigger conditions, different clauses of the property):
TRIED

YOUR TASK: produce TWO NEW different changes (m8 and m9, different mechanisms / different code sites from each other and from the list above) to the library's non-test source files, each of which
  (a) still compiles (go build ./... && go vet . is clean enough to build),
  (b) still passes the ENTIRE existing test-suite unchanged (you may not edit or delete existing tests),
  (c) breaks the property above (read its statement carefully: the change must contradict something the statement actually says) in a way a user of the library could be hurt by, and
  (d) needs something SPECIFIC to manifest — a particular interleaving of goroutines / connections, a fault or connection break at a particular point, a long multi-step sequence of protocol messages, an unusual boundary value or configuration, state left over from an EARLIER connection or an earlier command, or two cooperating code sites that each look fine alone. Do NOT write a change that ordinary use (one normal query on one connection) would expose at once, and do not write a trivial "return wrong constant" change. Think of plausible refactoring mistakes, off-by-one errors on rare paths, a forgotten state reset, a cache keyed too coarsely, a hoisted buffer, a check moved after its use, an early return on a rare path, per-connection state becoming shared, an optimisation that is only wrong for a boundary size, error paths that skip cleanup. Subtle and rare is better than blatant. Try to attack a clause of the property, or a phase of the protocol, that the already-written changes do not touch.
Each change should be small (a few lines, at most ~30) and look like something a maintainer could plausibly commit.

For each change also write a DEMONSTRATION: a Go test file (package wire or wire_test, or a test in the sub-package concerned; name it zz_demo_mN_test.go) that FAILS with the change applied and PASSES on the unchanged library. The demo may use net.Pipe / a raw TCP connection and hand-written protocol bytes, or the library's exported API directly. Confirm both facts yourself by running it with and without the change. The demo must be deterministic (no reliance on lucky timing; for concurrency bugs orchestrate the interleaving explicitly, e.g. with channels inside handlers or a wrapped listener/conn).

DELIVERABLES, in WORKTREE/_out/m8/ and WORKTREE/_out/m9/ :
  patch.diff   – `git diff` of ONLY the library change (no test file in it), applicable with `git apply` to a clean checkout of HEAD
  zz_demo_mN_test.go – the demonstration test (copy; say in NOTES.md in which directory it must be placed)
  NOTES.md     – first line: a one-line title of the change; then 5-15 lines: what was changed, why it breaks the property (quote the clause), exactly what is needed for it to manifest, the commands you ran and their results (suite passes with the change: yes/no; demo fails with / passes without the change: yes/no)
Leave the worktree itself clean at the end (git checkout -- . ; remove the demo test from the package directories), keeping only _out/.

If after honest effort you can only produce one good change, deliver one and say so. Finish with a short summary of what you delivered.
'''
for l in open('/verif/properties.jsonl'):
    p=json.loads(l); i=p['id']
    text="Property %s — %s\n\nStatement: %s\n\nQuantified over: %s\n"%(i,p['title'],p['statement'],p['quantifier']['text'])
    t=tmpl.replace('WORKTREE','/tmp/mut4/'+i).replace('MYID',i).replace('PROPERTY_TEXT',text).replace('TRIED','\n'.join('  - '+x for x in tried.get(i,[])))
    open('/tmp/mut4/%s.prompt.txt'%i,'w').write(t)
print(len(open('/tmp/mut4/C08.prompt.txt').read()))
