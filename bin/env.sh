# sourced by every script: offline Go environment
export GOFLAGS=-mod=mod GOPROXY=off GOSUMDB=off GOTOOLCHAIN=local
export VERIF_ROOT="${VERIF_ROOT:-$(cd "$(dirname "${BASH_SOURCE[0]}")/.." && pwd)}"
export VERIF_BUILD="${VERIF_BUILD:-$VERIF_ROOT/.build}"
mkdir -p "$VERIF_BUILD"
# the tree under test (registered commands always use /repo; the variable exists for experiments against a scratch copy)
export VERIF_REPO="${VERIF_REPO:-/repo}"
