#!/usr/bin/env python3
"""Regenerates /verif/MANIFEST.json from the table below (kept next to the checks so it stays consistent)."""
import json, os, sys
ROOT = os.path.dirname(os.path.dirname(os.path.abspath(__file__)))

# id -> (category, technique, text, note, design_ref)
CHECKS = {
 "C17": ("exploration",
         "exhaustive enumeration of decorator nestings up to a depth bound, executed on the real code, compared against an independent reference walk",
         "All error shapes (every nesting of the 16 decorator letters up to depth 4 quick / 5 thorough over 3 base texts, plus nil) are built with the real decorators, serialised by the real ErrorCode (and through a live session up to depth 2/3) and the strictly parsed ErrorResponse is compared field by field with an independent outermost-first model. Exhaustive for the stated alphabet and depth, nothing beyond it.",
         "Trusts the independent strict ErrorResponse parser and the 40-line reference walk; decoration values are non-empty, NUL-free text.",
         "DESIGN.md §3 C17"),
}
NOT_APPLICABLE = {
}
ALL = ["C%02d" % i for i in range(1, 21)]
PENDING_REASON = "check not built yet in this revision (work in progress, see DESIGN.md §8 order of work); no claim is made"

def main():
    checks = []
    for pid in ALL:
        if pid not in CHECKS:
            continue
        cat, tech, text, note, ref = CHECKS[pid]
        checks.append({
            "property_id": pid,
            "quick_cmd": "./bin/check %s quick" % pid,
            "thorough_cmd": "./bin/check %s thorough" % pid,
            "evidence_file": "/verif/evidence/%s.json" % pid,
            "replay_cmd_template": "./bin/check replay {path}",
            "engine": "verif-engine",
            "level_claimed": {"category": cat, "text": text, "design_ref": ref},
            "level_note": note,
            "technique": tech,
        })
    na = []
    for pid in ALL:
        if pid in CHECKS:
            continue
        na.append({"property_id": pid, "reason": NOT_APPLICABLE.get(pid, PENDING_REASON)})
    m = {
        "version": 1,
        "setup_cmd": "./bin/setup.sh",
        "hooks": {
            "guard": "verif",
            "enable": "no hook is committed to /repo: scheduled checks generate instrumented copies of the current /repo sources at check time (instrument/) and inject them with `go build -tags verif -overlay <generated overlay.json>`; sequential checks build /repo as it is",
            "baseline_off_cmd": "cd /repo && GOFLAGS=-mod=mod go test -json -vet=off -count=1 -timeout 25m ./...",
            "source_commits": [],
            "add_only": True,
        },
        "engines": [{
            "name": "verif-engine",
            "path": "/verif/engine",
            "serves_properties": sorted(CHECKS),
            "kind_free_text": "hand-written explicit enumeration / stateless model-checking engine in Go: in-memory transport with quiescence detection, independent PostgreSQL codec as oracle, reference models, crash-isolated sharded workers, cooperative scheduler + source instrumenter for schedule exploration",
        }],
        "checks": checks,
        "not_applicable": na,
        "notes": "Every check rebuilds the driver against /repo's current working tree (bin/check). Exit 0 = held on everything explored, 1 = VIOLATION line(s), 2 = engine error (never a VIOLATION). known_findings.json lists genuine defects (open = suppressed as KNOWN-FINDING lines, fixed = documentation only).",
    }
    json.dump(m, open(os.path.join(ROOT, "MANIFEST.json"), "w"), indent=1)
    print("MANIFEST.json: %d checks, %d not claimed" % (len(checks), len(na)))

main()
