#!/usr/bin/env python3
"""Regenerates /verif/MANIFEST.json from the table below (kept next to the checks so it stays consistent)."""
import json, os, sys
ROOT = os.path.dirname(os.path.dirname(os.path.abspath(__file__)))

# id -> (category, technique, text, note, design_ref)
CHECKS = {
 "C11": ("exploration",
         "exhaustive enumeration of (TLS configuration x client behaviour around the SSLRequest x session history) with a real crypto/tls client over a tapped in-memory transport; raw bytes judged structurally, decrypted stream differentially against the plaintext equivalent",
         "TLS configuration {none, empty, with certificate} x client behaviour {SSLRequest+handshake, SSLRequest with a startup packet and a Query stuffed into the same segment, SSLRequest with surplus body, plaintext instead of a handshake, second SSLRequest, CancelRequest after the negotiation} x all session histories of length <=2 (quick) / <=3 (thorough) over 6 letters. With certificates: the raw server bytes are exactly 'S' followed only by well-formed TLS records, the decrypted transcript and the callbacks equal those of the same history on a plaintext connection, nothing of the stuffed plaintext reaches a callback, plaintext instead of a handshake gets no plaintext reply and no callback, Cancel inside TLS is closed silently. Without certificates: exactly 'N', then the same connection serves a fresh plaintext startup.",
         "Cryptographic strength is not judged. crypto/tls goroutines run freely: the enumeration is over configurations and behaviours, not schedules.",
         "DESIGN.md §3 C11"),
 "C15": ("model_checking",
         "stateless model checking of the real code under a cooperative scheduler with happens-before state caching; every schedule is simultaneously a race-detector execution whose happens-before graph only contains the library's own synchronisation (scheduler hand-offs hidden with RaceDisable/RaceEnable)",
         "Scenarios S-A (rows of different column types), S-B (same statement/portal names, different queries and values), S-C (different users + configured global parameters), S-F (one connection in its error / skip-until-Sync window while the other works), S-G (two cleartext-password authentications interleaving), thorough: S-D (3 connections), S-E (COPY-in vs queries); scripts pre-loaded one message per segment, handlers and validator with yield points. Quick: every schedule with <=2 preemptions; thorough: ALL schedules (unbounded, happens-before state cache) for S-A, S-C, S-G and <=3 preemptions for the rest, on the instrumented real code built with -race; plus a free-running -race pass over the same bodies as a cross-check. Serial part: every ordered pair (predecessor, subject) of ~70 canonical sessions served one after the other on ONE server; the subject must receive exactly what it receives alone (state left behind by an earlier connection). Oracle 1: each connection's transcript (ParameterStatus as multiset) and callback trace equal those of the same script served alone; the configured parameter map is unchanged. Oracle 2: the race detector reports nothing (reports are attributed to the schedule that just ran and keyed by their frames).",
         "Race clause relies on the Go race detector's happens-before precision; pgx / stdlib are observed, not instrumented. Harness state shared between threads is only written from //go:norace code so that the harness adds no happens-before edges between connections.",
         "DESIGN.md §3 C15"),
 "C16": ("model_checking",
         "stateless model checking of the real code under a cooperative scheduler (check-time AST instrumentation of every sync/atomic/channel/go operation, transport operations as scheduling points), depth-first enumeration of all schedules up to a preemption bound with happens-before state caching",
         "Scenarios X1-X5, X7 (X6 in thorough): connections that are idle, in the middle of reading a message, about to start a handler, inside a handler (handlers carry yield points) or discarding after a failed extended message, 1-2 concurrent Close callers plus a later second Close, Close racing the start of Serve. Quick: every schedule with <=2 preemptions (1.3M schedules / 180k happens-before states). Thorough: ALL schedules (unbounded; the happens-before state cache makes the space finite) for X1, X2, X3, X5, X6 and <=4 preemptions for X4, X7 (55M schedules). Oracle on every schedule: no thread panics, no deadlock, every Close and Serve return (Serve nil), for EVERY Close call: no parser/statement function is running when it returns and none starts afterwards (logical clock).",
         "Exhaustive up to the preemption bound for data-race-free code (C15 checks race freedom). The instrumented sources are regenerated from the current /repo tree on every run; nothing is committed to /repo. WaitGroup contract misuse is reported as a note only.",
         "DESIGN.md §3 C16"),
 "C01": ("model_checking",
         "exhaustive enumeration of (startup parameters x message in place of the password x validator outcome x continuation history x delivery mode) on a real server, judged by a three-state reference machine plus a differential run without authentication; stateless schedule exploration (cooperative scheduler, preemption-bounded DFS with happens-before state caching, race monitor) of two concurrent authentications",
         "27 messages in place of the password (well-formed with accepting / rejecting / failing validator, malformed, every other type byte, truncated, oversized, EOF) x 3 startup parameter sets x all continuations of <=3 (quick) / <=4 (thorough) letters x {pipelined in one segment, after quiescence} run on a fresh real Server; non-accepted => no AuthenticationOk, no ParameterStatus, no reply to later input, no callback, connection closed, class-28 error for a wrong password; accepted => same transcript and callbacks as without authentication.",
         "Not asserted: an ErrorResponse for validator failure / malformed input, a ReadyForQuery directly behind the rejection error, acceptance of a password message carrying surplus bytes.",
         "DESIGN.md §3 C01"),
 "C02": ("model_checking",
         "explicit-state enumeration of frame-writer operation sequences x sink faults on the real buffer.Writer against a list-of-frames model; enumeration of odd-vocabulary sessions on a real server with every captured byte parsed by an independent strict backend grammar; write-fault enumeration",
         "F1: every operation sequence of length <=6 (quick) / <=7 (thorough) over 13 writer operations x 6 sink behaviours vs. a list-of-frames model, invariant after every step. F2: every ErrorResponse shape to depth 3. F3: ~2.4k (quick) sessions combining result-writer programs, odd column names/tags, all 64 decorator subsets, all extended histories of length <=2, startup/global parameters with empty and non-ASCII values, auth, SSL refusal, COPY for 1-3 columns x 2 formats, oversized/unknown; the complete server output must parse under the strict grammar with no residue and each message be one write; for every 3rd session every failing-write position. Schedule part (cooperative scheduler): Close racing connections whose row value yields to the scheduler while its DataRow frame is half built; all schedules up to 2 preemptions, every connection's output parsed strictly.",
         "Trusts the independent strict grammar (pgproto/backend.go). Handler strings are NUL-free; buffer.Writer used within Start..End.",
         "DESIGN.md §3 C02"),
 "C03": ("model_checking",
         "exhaustive enumeration of cut positions (deviation = one cut) over a corpus of byte streams on a real server, differential against un-cut delivery; surplus-message isolation probes; explicit-state enumeration of message bodies x accessor sequences on buffer.Reader against an independent cursor model",
         "Streams = startup + every history of <=3 letters over 12 letters (surplus-carrying, oversized, COPY, truncated): read sizes 1/2/3, every single cut, every double cut (all pairs for streams <=64 bytes, else within 6 bytes of a message boundary; histories <=2 quick, <=3 thorough, plus triple cuts inside headers); transcript and callback trace must equal the un-cut run. 12 surplus variants x 10 prefixes followed by Sync+Query. All 1365 bodies of length <=5 over {00,01,'a',FF} x all accessor sequences of length <=4 (5 thorough) over 8 accessors (6.4M evaluations) vs. a cursor model incl. pointer-range containment.",
         "Bound justification: every wire read is an io.ReadFull over one element behind one bufio.Reader, so cuts only interact within an element. Accessor results after the first error and negative sizes are outside the quantifier.",
         "DESIGN.md §3 C03"),
 "C04": ("fault_enumeration",
         "exhaustive enumeration of truncation points, field mutations, raw byte strings and transport-fault positions over canonical sessions on a real server inside crash-isolated worker processes, each followed by a probe connection on the same server",
         "Every byte prefix of ~190 canonical sessions; every length/count field of every message type (incl. binary-COPY tuple counts and field lengths) x 9-10 boundary values, body as is / cut or zero-extended to match; all raw strings of length <=4 (5 thorough) over 9 bytes on a fresh connection and <=3 after startup; every k-th read failing / short, every k-th write failing, failure after every 3rd (every, thorough) byte. Oracle: worker process survives (a death is attributed to the case with its panic trace), the connection closes (count-based livelock rule, stack-verified watchdog), a probe connection is then served normally, live heap stays below 4*max(L,4096)+8MiB, callbacks are a prefix of the fault-free callbacks, rows/parameters handed to handlers are what an independent decoder reads from the bytes sent.",
         "Which error is sent for malformed input is not asserted. Handlers use the documented helpers (NewBinaryColumnReader loop, WithParameters(ParseParameters(q)), Parameter.Scan).",
         "DESIGN.md §3 C04"),
 "C07": ("model_checking",
         "exhaustive enumeration of Parse/Bind/Describe/Execute/Close/Sync histories over colliding names on a real server: single connection vs. a set-valued name-resolution model, two connections differentially against each connection's projection served alone",
         "All histories of length <=4 (quick) / <=5 (thorough) over 23 letters (names \"\"/a, portals \"\"/x, two distinguishable statements, two parameter/format variants) with per-message replies and callback arguments compared with the model; all two-connection interleavings of length <=4/<=5 over 2x6 letters using the same names: each connection must observe exactly what its own projection observes alone.",
         "Not asserted: fate of a portal whose statement was closed, portals surviving Sync, the error-cycle discipline (C06). Finer-than-message interleavings are explored by C15.",
         "DESIGN.md §3 C07"),
 "C08": ("model_checking",
         "small-scope exhaustive enumeration of Bind messages run through Parse/Describe/Bind/Describe/Execute/Sync on a real server, compared with the protocol's format rule and an independent value decoder",
         "Parameter count 0-3 x values {NULL,\"\",a,\\x00,1} x parameter-format sections {none, one, per item} x 0-3 int4 result columns x result-format sections x declared OID lists (75k Binds quick): handler must see count/order/bytes/NULL-vs-empty/format per rule and Scan(text) must decode; Describe(P) announces rule(result codes) and DataRow fields decode in the announced format; Describe(S) announces the declared OIDs with text formats. Typed family: 19 (oid, format, encoding, value) items singly and in pairs through Parameter.Scan.",
         "Inadmissible code counts are outside the quantifier.",
         "DESIGN.md §3 C08"),
 "C09": ("exploration",
         "exhaustive enumeration over a stated value alphabet, each row written through a live session and decoded by an independent decoder in the announced format",
         "10 types (14 thorough) x boundary values x Go source forms (native, pgtype valid, pointer) x NULL forms (untyped nil, typed nil pointer, invalid pgtype) x text (simple query) and binary (Bind result code 1); 2-3 column rows over a 5-type subset with every NULL placement x NULL form. One DataRow per row, field count = RowDescription, decoded value = written value (floats bit-exact), every NULL form = length -1, non-NULL empty = length 0.",
         "Small-scope claim: exhaustive for the listed alphabet only. Trusts pgproto/values.go (independent text/binary decoder).",
         "DESIGN.md §3 C09"),
 "C10": ("model_checking",
         "exhaustive enumeration of (limit x declared length x message type x position) on a real server with a zero-generating transport and live-heap monitor, plus the same boundaries directly on buffer.Reader; within-limit cases differential against a large limit",
         "Limits 12..40, 4095, 4096, 4097, 65536, 0/-1 (16 MiB default) x body sizes {0,1,L-1,L,L+1,L+2,2L,2L+1,3L+7}, raw lengths 0..3, 2^16/2^31-5/2^31-4/2^32-5 (never materialised) x 13 client types + unknown x positions startup / password / first / between queries / after Parse / inside COPY, each followed by a probe. <=L: identical to a 1 MiB limit; >L in session: exactly one non-fatal 54000 error, all bytes skipped (probe answered normally), never buffered (heap monitor, cap(Msg)); handshake: closed, no session; <4: rejected without wrapped reads.",
         "Not asserted: ReadyForQuery after the 54000 error; continue-or-close after a sub-minimum length.",
         "DESIGN.md §3 C10"),
 "C12": ("model_checking",
         "exhaustive enumeration of startup packets x server configurations on a real server against a reference description of the negotiation, plus stateless schedule exploration (cooperative scheduler, -race) of two concurrently connecting users",
         "All startup key/value lists of <=3 (quick) / <=4 (thorough) pairs over 4 keys x 3 values incl. duplicates x 20 configurations (5 global maps x 2 versions x auth on/off); 8 malformed / CancelRequest packets x 20 configurations, CancelRequest after a completed TLS upgrade (real crypto/tls client). Schedule part (merged into the same evidence): scenario S-C of the C15 engine — two users connecting concurrently to a server with configured global parameters, all schedules up to 2 preemptions (thorough: unbounded), race monitor on. Auth exchange, then a ParameterStatus block whose key set is exactly configured+standard keys each once, then exactly one ReadyForQuery(idle); handlers see exactly the sent client parameters, the announced server parameters and the connecting user; the configured map is unchanged; malformed => closed without callback; cancel => no byte, no callback.",
         "Not asserted: order inside the block; which duplicate key wins; value on collision of a configured key with a standard one.",
         "DESIGN.md §3 C12"),
 "C13": ("model_checking",
         "exhaustive enumeration of client message sequences after a CopyInResponse x handler reading policies x column count/format x simple/extended mode on a real server, compared per message with a reference simulation of the COPY sub-protocol",
         "All sequences of length <=4 (quick) / <=5 (thorough) over 11 letters (CopyData x3, CopyDone, CopyFail, Flush, Sync, Query, unknown type, oversized CopyData, Terminate) x 6 handler policies x {(1 col,text),(3 cols,binary)} x {simple, extended}, followed by Sync+Query (387k sessions quick): CopyInResponse format/columns, chunks seen by the handler byte-exact and in order, Flush/Sync invisible, CopyDone = EOF, CopyFail/foreign = non-EOF error, exactly one ErrorResponse and one ReadyForQuery per aborted cycle, COPY messages outside COPY ignored; the same abort discipline through the binary row reader (before and after its end-of-data trailer).",
         "A handler that keeps reading after the abort error is only required to yield exactly one E and one Z.",
         "DESIGN.md §3 C13"),
 "C14": ("model_checking",
         "exhaustive enumeration of binary COPY streams x all splits into CopyData messages up to a cut bound (deviation = one cut) x single corruptions, decoded by the real BinaryCopyReader in a live session and compared with an independent encoder",
         "Tables of 1-3 columns (int4,text,bool; +int8,float8,bytea thorough) x 0-2 rows x every NULL placement x trailer present/absent; every split with <=2 (3 thorough) cuts, uniform chunk sizes, empty CopyData interleaved; corruptions: field count +1/-1/0/32768/65535, well-formed extra/missing field, field length beyond data / 0xFFFFFFFE, every truncation point. Rows must equal what was encoded for every split; every corruption must be a non-EOF error, never a crash or a fabricated row; an abort (CopyFail / foreign message) after the end-of-data trailer must surface as an error; values longer than a small message limit split over several CopyData messages must decode.",
         "Header flags/extension are 0. A stream cut exactly at a row boundary must decode cleanly (trailer-less streams are accepted).",
         "DESIGN.md §3 C14"),
 "C18": ("model_checking",
         "exhaustive enumeration of later-traffic histories over message sizes around the 4 KiB allocation granule and the message limit on a real server whose callbacks retain everything uncopied next to a private clone; invariant after every message",
         "First phase retains startup parameters (validator and parser), database/user/password, a Query text, a Parse text, two Bind values; then every history of length <=3 (quick) / <=5 (thorough) over 15 letters under limit 8192 and 14 letters under limit 1024 (below the 4 KiB allocation granule): bodies around the granule and the limit, oversized-and-skipped messages, COPY bursts incl. an oversized CopyData, Bind batches. Everything handed to callbacks in the later traffic is retained as well. After every message every retained value must equal its clone; the portal is re-executed at the end.",
         "CopyData payload views are not part of the statement and are not retained.",
         "DESIGN.md §3 C18"),
 "C19": ("model_checking",
         "exhaustive enumeration of (middleware count, failing position, auth, terminate hook) x command histories x delivery mode on a real server, judged by a lifecycle reference machine with context probes inside every callback",
         "60 configurations x all histories of length <=3 (quick) / <=5 (thorough) over {Query ok, Query error, Parse+Bind+Execute+Sync, a failing Bind without Sync, Terminate, EOF} x {message by message, one segment}: middlewares run once, in order, after auth + ParameterStatus and before ReadyForQuery, each seeing its predecessors' values; failure => no ReadyForQuery, no command, closed; every parser / statement call sees all values, client/server parameters, remote address, type map and a live context that is cancelled when the command ends; Terminate => hook exactly once, closed, nothing pipelined behind it runs.",
         "Context cancellation is observed at the next quiescence.",
         "DESIGN.md §3 C19"),
 "C20": ("exploration",
         "exhaustive enumeration of token concatenations up to a length bound on the real ParseParameters and through Parse+Describe on a live server, against an independent scanner",
         "All concatenations of <=4 (quick) / <=5 (thorough) tokens from a 13-token alphabet ($0,$1,$2,$5,$01,$65535,$65536,$99999999,$2^63,$,?,x,space) are passed to the real ParseParameters (panic, allocation and length bounds, OIDs, count against an independent scanner) and, up to 2/3 tokens, through Parse+Describe(S) on a live server whose handler uses WithParameters(ParseParameters(q)). Exhaustive for that alphabet and bound only.",
         "Trusts the 40-line independent scanner; length for indexes > 65535 and for mixed $n/? queries is not asserted (only totality and the bound).",
         "DESIGN.md §3 C20"),
 "C05": ("model_checking",
         "exhaustive enumeration of handler programs (result-writer op sequences x statement counts x parser outcomes) executed on a real server over an in-memory transport; every writer call and cycle compared with a reference state machine; stateless schedule exploration (cooperative scheduler, preemption-bounded DFS with happens-before state caching) of multi-statement queries overlapping Close",
         "Handler behaviour is an enumerated input: every sequence of <=4 (quick) / <=6 (thorough) result-writer operations over a 10-op alphabet x {return nil, error} x {0,2 columns}, products of 2-3 statements, parser error / zero statements / blank queries, each as first and as second Query of a connection, is executed on a fresh real Server; bytes emitted by each writer call are attributed exactly and compared with the writer state machine and the cycle grammar.",
         "Reply attribution relies on quiescence of the in-memory transport. Not asserted: T for column-less statements, C for statements returning nil without Complete, calls after a successful Empty() beyond return<=>emission consistency.",
         "DESIGN.md §3 C05"),
 "C06": ("model_checking",
         "exhaustive enumeration of client message histories up to a depth bound over a 33-letter alphabet on a real server, per-message replies and callbacks checked against a set-valued (powerset) reference model",
         "All histories of length <=3 over the full 33-letter alphabet, <=5 over a 16-letter core and <=6 over an 8-letter error core (thorough: 5/6/8, 77M histories), plus all interleavings of <=4 (6) messages of two connections on one server (each judged by its own model instance), are replayed on a fresh real Server; after every message the quiescence-attributed reply and the callbacks must be allowed by at least one model state of the extended-protocol reference model (statements, portals, skipping).",
         "Set-valued model tolerates what the statement leaves open (listed in the evidence assumptions). Depth-bounded; names fixed to two statements / two portals / one unknown.",
         "DESIGN.md §3 C06"),
 "C17": ("exploration",
         "exhaustive enumeration of decorator nestings up to a depth bound, executed on the real code, compared against an independent reference walk",
         "All error shapes (every nesting of 18 decorator letters — incl. source locations with an empty file / function — up to depth 4 quick / 5 thorough over 3 base texts, plus nil; plus a purity family: decorating a value again must not change what the original value reports) are built with the real decorators, serialised by the real ErrorCode (and through a live session up to depth 2/3) and the strictly parsed ErrorResponse is compared field by field with an independent outermost-first model. Exhaustive for the stated alphabet and depth, nothing beyond it.",
         "Trusts the independent strict ErrorResponse parser and the 40-line reference walk; decoration values are non-empty, NUL-free text.",
         "DESIGN.md §3 C17"),
}

# sentences appended to the level texts above (families added after the seeded-change waves, DESIGN.md §9.4)
ADD = {
 "C14": " Headers with an extension area of 1 / 7 / 40 bytes x every single cut and double cuts around the header; values of 65535 / 65536 / 70000 bytes (thorough up to 1 MiB) under 9 splits. Per-connection types: connections whose type maps bind one OID to different types copy the same bytes one after the other.",
 "C07": " Portal re-binding: every ordered pair of ~50 Bind shapes (statement of 1 / 2 columns, 0-3 parameters, 0 / 1 / per-item codes) on the unnamed and a named portal, differential against a connection where only the second Bind happened. Statement re-definition with blank and non-blank texts, differential against a connection that only saw the second definition; earlier portals are described before they are re-bound.",
 "C01": " Schedule part (merged into the same evidence): two connections authenticating at the same time — both accepted (S-G) / one accepted and one rejected with a pipelined Query (S-J) — explored under the cooperative scheduler with the race monitor: all schedules up to 2 preemptions (thorough: all schedules); every connection must receive exactly what it receives when served alone. TLS family: servers requesting / requiring a client certificate x clients presenting an unverified one x accepted / rejected password: the decrypted session equals the plaintext one (a rejected password stays rejected). Log-in sequences: all sequences of 2-3 attempts over 5 (database, user, password) triples on one server whose validator accepts exactly one triple; a validator answering (true, error) counts as a failure.",
 "C02": " F4: one-column rows over the whole C09 value alphabet (types x boundary values x source forms x NULL forms) x {text, binary}. Sessions also cover every value 0..255 of the Describe / Close target byte and of the message type byte, statements declaring up to 65535 parameters, and column names / command tags of every length 1..130 and around 256. Schedule part: scenario W3 explores the sync.Pool shim's oldest-first policy. Rows with values of 4000..70000 bytes in both protocols; a statement / portal described again and again.",
 "C03": " Declared-length family: 6 positions (first message, after a query, inside a batch, inside text / binary COPY, awaiting the password) x 15 message types x 15 declared lengths (limit+5 ... 2^31-1, 2^31, 2^31+24, 2^32-1) followed by 0/1/40 framed queries and EOF: no byte behind an incomplete header may be interpreted as a message. Starter-surplus family: 5 statement-starting messages (Query / Execute starting a text / binary COPY) x 9 surplus contents: callbacks compared with the surplus-free run. Earlier-message family: every Bind shape (0-4 format codes x 0-4 values) processed before every well-formed Bind; what the statement observes is compared with the run without the earlier Bind. Truncated-stream family: 7 canonical sessions cut after every byte.",
 "C04": " Transport faults also with the input arriving byte by byte (the failure strikes exactly when the server has consumed b bytes); a failed transport read over and over counts as a livelock. Repetition family: 23 protocol units repeated up to 20 000 (thorough 100 000) times on one connection, live-heap and goroutine-stack growth bounded independently of the count. Stalled-client family: a connection parked in each of 11 protocol states while two further connections must be served completely. Helper-amplification family: short queries naming huge positional indexes through Query and Parse, allocation bounded at 64 MiB.",
 "C05": " Neighbour family: 7 programs x 5 states of another connection of the same server (discarding until Sync, inside COPY-in, inside an extended batch, not started, after a failed query); the neighbour is completed afterwards and must be undisturbed. Command tags of every length 0..130 and around 256, 1024, 4096. Statement and parser errors wrapping io.EOF / io.ErrUnexpectedEOF. Schedule part (merged): queries of two statements overlapping Close (scenarios Q1, Q2; all schedules up to 2 preemptions, thorough: all schedules of Q1) are answered completely or not at all.",
 "C06": " Pending-input family: core-16 histories of length <=3 (4 thorough) with every message delivered together with the first 1 / 5 (thorough also 4 / all but the last) bytes of the next one: the reply is due before the rest arrives. The close-core alphabet contains a Parse with more than 4 KiB of text (names defined before it must still resolve).",
 "C08": " Every portal is executed a second time (same parameters); wide statements of 255, 256, 32767, 32768, 40000 and 65535 parameters through Describe and Bind/Execute. Parameters of a type registered only on the connection's own type map (session middleware) in both formats; portal names of 32..1001 bytes that differ only in their last byte or in length. Types pre-declared by the client in Parse: a later statement (same or another connection) is described with exactly the handler's list, which is never written to.",
 "C09": " Redefined statements: a name defined twice (1-3 columns each, both formats) while a portal of the first definition is open; every DataRow is judged against the RowDescription of its own portal. Go strings / byte slices for non-text columns: the row is refused or decodable in the announced format.",
 "C10": " Position 'inside a TLS-upgraded session': limits 1 KiB / 8 KiB / 20000 x Query and Bind bodies of L-1, L, L+1, 2L, 16383..16385, 20000, 70000 bytes, differential against the plaintext session. Several oversized messages of different sizes in one session (bodies are runs of framed queries); values spanning several within-limit CopyData messages are processed. Oversized start-up / password messages of which only the header is sent end the connection at once.",
 "C11": " TLS-limit family: configured limits 1 KiB / 16 KiB / 64 KiB (9 limits thorough) x Query / Bind bodies around the limit and around the 16 KiB TLS record size. Cleartext authentication (accepted / rejected) over the upgraded connection; servers requesting / requiring a client certificate x clients presenting an unverified one; a session arriving after 1..40 earlier clients failed their handshakes on the same server. Whole sessions of <=2 letters (with and without authentication) sent in one write together with the start-up packet.",
 "C12": " 10 further configurations hand a second user-supplied map to an earlier GlobalParameters option: neither map is ever modified. The schedule part also covers scenario S-G (two cleartext-password start-ups interleaving). Start-up packets of <=2 pairs, a malformed packet and a CancelRequest are also delivered in the same segment as a refused SSLRequest. CloseConn / TerminateConn hooks are counted for CancelRequests; the schedule part also covers S-K / S-L (3 and 7 configured parameters).",
 "C13": " Payload family: all sequences of <=2 CopyData payloads over 11 look-alike payloads (the text format's end-of-data marker, \\N, NUL, 0xFF, a framed CopyDone ...) x {drain, take1} x {CopyDone, CopyFail}. Extended protocol: every Bind result-format section x both copy formats x 1 / 3 columns (CopyInResponse announces the handler's format). Binary-cut family: the client completes a binary COPY whose stream stops inside the header, a count, a length or a value (every offset, one or two CopyData messages).",
 "C15": " Scenario S-J (thorough): one accepted and one rejected authentication at the same time. Silent-neighbour family: a connection that does nothing at all in each of 11 protocol states while two others are served completely.",
 "C16": " Scenario X9: Close while a statement is inside COPY-in. X10: one Server serving two listeners (every Serve call returns). X11: two Query messages arriving in one segment. After all Close calls returned every Serve call must return while the clients are still connected. X12: a connection ending with a malformed message next to a normal one + Close + second Close.",
 "C17": " 25 letters now (hint / detail / base texts with % verbs, a second function at a file and line used before); consecutive family: every 1-letter error followed by every error of <=2 letters, the second one checked (nothing of an earlier report may show in a later one). Text-length family: each of message / hint / detail / constraint / source file / source function at every length 1..130 and around 256, 1024, 4096. Every shape of the session family is reported from a lone statement, from inside multi-statement queries, from the parser and through Execute.",
 "C18": " Letters also close the portals / statements whose values were retained and re-define those names (21 / 20 letters). The parameter list handed to the statement function is retained as well; two batches on the unnamed statement / portal (23 / 22 letters). At the end the connection is closed and another client is served; everything retained is checked again.",
 "C19": " The failing middleware returns either its context or a nil context with the error. Transport-fault family: 3 configurations x histories of <=2 letters x the k-th write (k <= 8) after the start-up failing for good: every command context is cancelled once the connection has ended. Several-users family: all step sequences of length <=5 over 3 users connected at the same time (with / without global parameters), every callback probing the context of its own connection.",
 "C20": " Long family: a block repeated up to 70 000 (thorough 200 000) times with a tail that introduces a new highest index (the number of markers, not the index, crosses 65535). Redefine family: a statement name parsed twice, Describe announces the count of the latest text. Blank query texts are part of the describe and redefine families.",
}
NOT_APPLICABLE = {
}
ALL = ["C%02d" % i for i in range(1, 21)]
PENDING_REASON = "check not built yet in this revision (work in progress, see DESIGN.md §8 order of work); no claim is made"

def main():
    checks = []
    for pid in ALL:
        if pid not in CHECKS:
            continue
        cat, tech, text, note, ref = CHECKS[pid]
        text += ADD.get(pid, "")
        checks.append({
            "property_id": pid,
            "quick_cmd": "./bin/check %s quick" % pid,
            "thorough_cmd": "./bin/check %s thorough" % pid,
            "evidence_file": "/verif/evidence/%s.json" % pid,
            "replay_cmd_template": "./bin/check replay {path}",
            "engine": "verif-engine",
            "level_claimed": {"category": cat, "text": text, "design_ref": ref},
            "level_note": note,
            "technique": tech,
        })
    na = []
    for pid in ALL:
        if pid in CHECKS:
            continue
        na.append({"property_id": pid, "reason": NOT_APPLICABLE.get(pid, PENDING_REASON)})
    m = {
        "version": 1,
        "setup_cmd": "./bin/setup.sh",
        "hooks": {
            "guard": "verif",
            "enable": "no hook is committed to /repo: scheduled checks generate instrumented copies of the current /repo sources at check time (instrument/) and inject them with `go build -tags verif -overlay <generated overlay.json>`; sequential checks build /repo as it is",
            "baseline_off_cmd": "cd /repo && GOFLAGS=-mod=mod go test -json -vet=off -count=1 -timeout 25m ./...",
            "source_commits": [],
            "add_only": True,
        },
        "engines": [{
            "name": "verif-engine",
            "path": "/verif/engine",
            "serves_properties": sorted(CHECKS),
            "kind_free_text": "hand-written explicit enumeration / stateless model-checking engine in Go: in-memory transport with quiescence detection, independent PostgreSQL codec as oracle, reference models, crash-isolated sharded workers, cooperative scheduler + source instrumenter for schedule exploration",
        }],
        "checks": checks,
        "not_applicable": na,
        "notes": "Every check rebuilds the driver against /repo's current working tree (bin/check). Exit 0 = held on everything explored, 1 = VIOLATION line(s), 2 = engine error (never a VIOLATION). known_findings.json lists genuine defects (open = suppressed as KNOWN-FINDING lines, fixed = documentation only).",
    }
    json.dump(m, open(os.path.join(ROOT, "MANIFEST.json"), "w"), indent=1)
    print("MANIFEST.json: %d checks, %d not claimed" % (len(checks), len(na)))

main()
