#!/usr/bin/env python3
"""Regenerates /verif/MANIFEST.json from the table below (kept next to the checks so it stays consistent)."""
import json, os, sys
ROOT = os.path.dirname(os.path.dirname(os.path.abspath(__file__)))

# id -> (category, technique, text, note, design_ref)
CHECKS = {
 "C20": ("exploration",
         "exhaustive enumeration of token concatenations up to a length bound on the real ParseParameters and through Parse+Describe on a live server, against an independent scanner",
         "All concatenations of <=4 (quick) / <=5 (thorough) tokens from a 13-token alphabet ($0,$1,$2,$5,$01,$65535,$65536,$99999999,$2^63,$,?,x,space) are passed to the real ParseParameters (panic, allocation and length bounds, OIDs, count against an independent scanner) and, up to 2/3 tokens, through Parse+Describe(S) on a live server whose handler uses WithParameters(ParseParameters(q)). Exhaustive for that alphabet and bound only.",
         "Trusts the 40-line independent scanner; length for indexes > 65535 and for mixed $n/? queries is not asserted (only totality and the bound).",
         "DESIGN.md §3 C20"),
 "C05": ("model_checking",
         "exhaustive enumeration of handler programs (result-writer op sequences x statement counts x parser outcomes) executed on a real server over an in-memory transport; every writer call and cycle compared with a reference state machine",
         "Handler behaviour is an enumerated input: every sequence of <=4 (quick) / <=5 (thorough) result-writer operations over a 10-op alphabet x {return nil, error} x {0,2 columns}, products of 2-3 statements, parser error / zero statements / blank queries, each as first and as second Query of a connection, is executed on a fresh real Server; bytes emitted by each writer call are attributed exactly and compared with the writer state machine and the cycle grammar.",
         "Reply attribution relies on quiescence of the in-memory transport. Not asserted: T for column-less statements, C for statements returning nil without Complete, calls after a successful Empty() beyond return<=>emission consistency.",
         "DESIGN.md §3 C05"),
 "C06": ("model_checking",
         "exhaustive enumeration of client message histories up to a depth bound over a 33-letter alphabet on a real server, per-message replies and callbacks checked against a set-valued (powerset) reference model",
         "All histories of length <=3 over the full 33-letter alphabet, <=4 over a 16-letter core and <=5 over an 8-letter error core (thorough: 4/5/6) are replayed on a fresh real Server; after every message the quiescence-attributed reply and the callbacks must be allowed by at least one model state of the extended-protocol reference model (statements, portals, skipping).",
         "Set-valued model tolerates what the statement leaves open (listed in the evidence assumptions). Depth-bounded; names fixed to two statements / two portals / one unknown.",
         "DESIGN.md §3 C06"),
 "C17": ("exploration",
         "exhaustive enumeration of decorator nestings up to a depth bound, executed on the real code, compared against an independent reference walk",
         "All error shapes (every nesting of the 16 decorator letters up to depth 4 quick / 5 thorough over 3 base texts, plus nil) are built with the real decorators, serialised by the real ErrorCode (and through a live session up to depth 2/3) and the strictly parsed ErrorResponse is compared field by field with an independent outermost-first model. Exhaustive for the stated alphabet and depth, nothing beyond it.",
         "Trusts the independent strict ErrorResponse parser and the 40-line reference walk; decoration values are non-empty, NUL-free text.",
         "DESIGN.md §3 C17"),
}
NOT_APPLICABLE = {
}
ALL = ["C%02d" % i for i in range(1, 21)]
PENDING_REASON = "check not built yet in this revision (work in progress, see DESIGN.md §8 order of work); no claim is made"

def main():
    checks = []
    for pid in ALL:
        if pid not in CHECKS:
            continue
        cat, tech, text, note, ref = CHECKS[pid]
        checks.append({
            "property_id": pid,
            "quick_cmd": "./bin/check %s quick" % pid,
            "thorough_cmd": "./bin/check %s thorough" % pid,
            "evidence_file": "/verif/evidence/%s.json" % pid,
            "replay_cmd_template": "./bin/check replay {path}",
            "engine": "verif-engine",
            "level_claimed": {"category": cat, "text": text, "design_ref": ref},
            "level_note": note,
            "technique": tech,
        })
    na = []
    for pid in ALL:
        if pid in CHECKS:
            continue
        na.append({"property_id": pid, "reason": NOT_APPLICABLE.get(pid, PENDING_REASON)})
    m = {
        "version": 1,
        "setup_cmd": "./bin/setup.sh",
        "hooks": {
            "guard": "verif",
            "enable": "no hook is committed to /repo: scheduled checks generate instrumented copies of the current /repo sources at check time (instrument/) and inject them with `go build -tags verif -overlay <generated overlay.json>`; sequential checks build /repo as it is",
            "baseline_off_cmd": "cd /repo && GOFLAGS=-mod=mod go test -json -vet=off -count=1 -timeout 25m ./...",
            "source_commits": [],
            "add_only": True,
        },
        "engines": [{
            "name": "verif-engine",
            "path": "/verif/engine",
            "serves_properties": sorted(CHECKS),
            "kind_free_text": "hand-written explicit enumeration / stateless model-checking engine in Go: in-memory transport with quiescence detection, independent PostgreSQL codec as oracle, reference models, crash-isolated sharded workers, cooperative scheduler + source instrumenter for schedule exploration",
        }],
        "checks": checks,
        "not_applicable": na,
        "notes": "Every check rebuilds the driver against /repo's current working tree (bin/check). Exit 0 = held on everything explored, 1 = VIOLATION line(s), 2 = engine error (never a VIOLATION). known_findings.json lists genuine defects (open = suppressed as KNOWN-FINDING lines, fixed = documentation only).",
    }
    json.dump(m, open(os.path.join(ROOT, "MANIFEST.json"), "w"), indent=1)
    print("MANIFEST.json: %d checks, %d not claimed" % (len(checks), len(na)))

main()
