#!/usr/bin/env python3
"""seed_eval.py <property> <src_dir> <name> [--tier quick] [--also C02,C05]

Confirms an independently written property-breaking change and runs the checks against it.
  1. scratch worktree of /repo HEAD (removed afterwards): the patch applies and builds, the repository's
     own test-suite still passes with it, the demonstration fails with it and passes without it;
  2. the patch is applied to /repo itself (git apply), the property's check(s) run, /repo is restored;
  3. everything is stored under /verif/seeded/<property>-<name>/ (patch.diff, demo, NOTES.md, meta.json).
"""
import json, os, re, shutil, subprocess, sys, tempfile, time

ENV = dict(os.environ, GOFLAGS="-mod=mod", GOPROXY="off", GOSUMDB="off", GOTOOLCHAIN="local")

def run(cmd, cwd=None, timeout=1800):
    p = subprocess.run(cmd, cwd=cwd, env=ENV, shell=isinstance(cmd, str), stdout=subprocess.PIPE, stderr=subprocess.STDOUT, text=True, timeout=timeout)
    return p.returncode, p.stdout

def suite(cwd):
    """the repository's suite has a known pre-existing flake: retry up to 4 times"""
    last = ""
    for _ in range(4):
        rc, out = run("go test -vet=off -count=1 ./... 2>&1 | tail -40", cwd)
        last = out
        if "FAIL" not in out and "panic:" not in out:
            return True, out[-400:]
        if "Log in goroutine after" in out and "--- FAIL" not in out:
            continue
        if "--- FAIL" in out:
            return False, out[-1500:]
    return False, last[-1500:]

def main():
    prop, src, name = sys.argv[1], sys.argv[2], sys.argv[3]
    tier = "quick"
    also = []
    recheck = False
    args = sys.argv[4:]
    while args:
        a = args.pop(0)
        if a == "--tier": tier = args.pop(0)
        if a == "--also": also = args.pop(0).split(",")
        if a == "--recheck": recheck = True
    if recheck:
        # only re-run the checks against an already confirmed change (src = the seeded directory itself)
        meta = json.load(open(os.path.join(src, "meta.json")))
        also = [c for c in meta.get("checks", {}) if c != prop] if not also else also
        meta["checks"] = {}
        run_checks(meta, os.path.abspath(os.path.join(src, "patch.diff")), prop, also, tier)
        json.dump(meta, open(os.path.join(src, "meta.json"), "w"), indent=1)
        print("%s-%s recheck detected=%s" % (prop, name, {k: (v["exit"], v["clauses"]) for k, v in meta["checks"].items()}))
        return
    patch = os.path.join(src, "patch.diff")
    demos = [f for f in os.listdir(src) if f.endswith("_test.go")]
    notes = open(os.path.join(src, "NOTES.md")).read() if os.path.exists(os.path.join(src, "NOTES.md")) else ""
    meta = {"property": prop, "name": name, "tier": tier, "confirmed": {}, "checks": {}}
    # where does the demo go?
    demo_dir = "."
    m = re.search(r"(pkg/buffer|pkg/types|errors|codes)", notes.split("placed")[-1][:200]) if "placed" in notes else None
    wt = tempfile.mkdtemp(prefix="seedchk-", dir="/tmp")
    os.rmdir(wt)
    run(["git", "-C", "/repo", "worktree", "add", "-q", "--detach", wt, "HEAD"])
    try:
        rc, out = run(["git", "apply", "--check", patch], wt)
        meta["confirmed"]["applies"] = rc == 0
        if rc != 0:
            meta["confirmed"]["error"] = out[-500:]
            return finish(meta, src, prop, name, demos, notes)
        # demo without the change
        def demo_result():
            for d in demos:
                pkgdir = demo_dir
                txt = open(os.path.join(src, d)).read()
                mm = re.search(r"^package (\w+)", txt, re.M)
                if mm and mm.group(1).startswith("buffer"): pkgdir = "pkg/buffer"
                if mm and mm.group(1).startswith("errors"): pkgdir = "errors"
                shutil.copy(os.path.join(src, d), os.path.join(wt, pkgdir, d))
            res = []
            for d in demos:
                txt = open(os.path.join(src, d)).read()
                pkgdir = "."
                mm = re.search(r"^package (\w+)", txt, re.M)
                if mm and mm.group(1).startswith("buffer"): pkgdir = "pkg/buffer"
                if mm and mm.group(1).startswith("errors"): pkgdir = "errors"
                tests = re.findall(r"^func (Test\w+)\(", txt, re.M)
                ok_all = True
                outs = ""
                for _ in range(3):
                    rc, out = run("go test -vet=off -count=1 -run '^(%s)$' ./%s 2>&1 | tail -30" % ("|".join(tests), pkgdir), wt)
                    outs = out
                    if "Log in goroutine after" in out and "--- FAIL" not in out:
                        continue
                    ok_all = ("FAIL" not in out and "panic:" not in out)
                    break
                res.append((d, ok_all, outs[-600:]))
                os.remove(os.path.join(wt, pkgdir, d))
            return res
        without = demo_result()
        meta["confirmed"]["demo_passes_without_change"] = all(r[1] for r in without)
        run(["git", "apply", patch], wt)
        rc, out = run("go build ./... 2>&1 | tail -5", wt)
        meta["confirmed"]["builds"] = rc == 0 and "error" not in out.lower()
        ok, out = suite(wt)
        meta["confirmed"]["suite_passes_with_change"] = ok
        if not ok:
            meta["confirmed"]["suite_output"] = out
        withc = demo_result()
        meta["confirmed"]["demo_fails_with_change"] = all(not r[1] for r in withc)
        meta["confirmed"]["demo_output_with_change"] = withc[0][2][-400:] if withc else ""
    finally:
        run(["git", "-C", "/repo", "worktree", "remove", "--force", wt])
    good = all(meta["confirmed"].get(k) for k in ("applies", "builds", "suite_passes_with_change", "demo_fails_with_change", "demo_passes_without_change"))
    meta["kept"] = good
    if good:
        run_checks(meta, patch, prop, also, tier)
    finish(meta, src, prop, name, demos, notes)

def run_checks(meta, patch, prop, also, tier):
    rc, out = run(["git", "-C", "/repo", "status", "--porcelain"])
    if out.strip():
        print("/repo is not clean; refusing to apply"); sys.exit(2)
    rc, out = run(["git", "-C", "/repo", "apply", os.path.abspath(patch)])
    if rc != 0:
        print("patch did not apply to /repo:", out); sys.exit(2)
    try:
        for cid in [prop] + also:
            t0 = time.time()
            rc, out = run(["/verif/bin/check", cid, tier], "/verif")
            viol = [l for l in out.splitlines() if l.startswith("VIOLATION")]
            clauses = sorted(set(re.findall(r"clause=([\w\-]+)", out)))
            meta["checks"][cid] = {"exit": rc, "violation_lines": len(viol), "clauses": clauses, "summary": out.strip().splitlines()[-1][:300] if out.strip() else "", "wall_s": round(time.time() - t0, 1),
                                   "first_violation": "\n".join(out.splitlines()[:4])[:900] if viol else ""}
    finally:
        run(["git", "-C", "/repo", "checkout", "--", "."])
        rc, out = run(["git", "-C", "/repo", "status", "--porcelain"])
        for l in out.splitlines():
            if l.startswith("??"):
                pth = os.path.join("/repo", l[3:])
                if os.path.isfile(pth): os.remove(pth)

def finish(meta, src, prop, name, demos, notes):
    dst = "/verif/seeded/%s-%s" % (prop, name)
    os.makedirs(dst, exist_ok=True)
    shutil.copy(os.path.join(src, "patch.diff"), dst)
    for d in demos:
        shutil.copy(os.path.join(src, d), os.path.join(dst, d + ".txt"))  # .txt: must not be compiled as part of /verif
    if notes:
        open(os.path.join(dst, "NOTES.md"), "w").write(notes)
    meta["needs_to_manifest"] = ""
    m = re.search(r"(?is)(needed to manifest|to manifest|manifest)[^\n]*\n?(.{0,600})", notes)
    if m:
        meta["needs_to_manifest"] = (m.group(0)[:700]).strip()
    meta["what_was_run"] = ["scratch worktree of /repo HEAD: git apply patch.diff; go build ./...; go test -vet=off -count=1 ./... (suite, retried on the known log-after-test flake); demonstration with and without the change",
                            "git -C /repo apply patch.diff; ./bin/check <ID> %s; git -C /repo checkout -- ." % meta["tier"]]
    json.dump(meta, open(os.path.join(dst, "meta.json"), "w"), indent=1)
    det = {k: (v["exit"], v["clauses"]) for k, v in meta["checks"].items()}
    print("%s-%s kept=%s confirmed=%s detected=%s" % (prop, name, meta.get("kept"), {k: v for k, v in meta["confirmed"].items() if isinstance(v, bool)}, det))

main()
