#!/bin/bash
# ./bin/mutant.sh <patch.diff> <ID> [tier]   apply a property-breaking patch to /repo, run the check, undo.
set -u
. "$(dirname "$0")/env.sh"
patch="$(realpath "$1")"; id="$2"; tier="${3:-quick}"
if ! git -C /repo diff --quiet; then echo "/repo has uncommitted changes"; exit 2; fi
git -C /repo apply "$patch" || { echo "patch does not apply"; exit 2; }
( cd /repo && go build ./... ) || { git -C /repo checkout -- .; echo "mutant does not build"; exit 2; }
"$VERIF_ROOT/bin/check" "$id" "$tier" > "$VERIF_BUILD/mutant.out" 2>&1; rc=$?
git -C /repo checkout -- .
grep -c '^VIOLATION' "$VERIF_BUILD/mutant.out" | sed "s/^/violation lines: /"
grep -m3 -A2 '^VIOLATION' "$VERIF_BUILD/mutant.out" | cut -c1-400
tail -1 "$VERIF_BUILD/mutant.out"
echo "exit=$rc"
exit $rc
