#!/bin/bash
# build-sched.sh [race]   instrument the CURRENT /repo tree and build the scheduled worker with the overlay
set -eu
. "$(dirname "$0")/env.sh"
flavour="${1:-plain}"
tmp=$(mktemp -d "${TMPDIR:-/tmp}/verif-inst.XXXXXX")
trap 'rm -rf "$tmp"' EXIT
( cd "$VERIF_ROOT/instrument" && go build -o "$VERIF_BUILD/instrument" . )
"$VERIF_BUILD/instrument" -repo "$VERIF_REPO" -shim "$VERIF_ROOT/shim" -out "$tmp"
cp "$tmp/report.json" "$VERIF_BUILD/instrument-report.json"
cd "$VERIF_ROOT/engine"
cp "$VERIF_REPO/go.sum" go.sum 2>/dev/null || true
cp go.mod "$VERIF_BUILD/go.mod.keep-sched"
trap 'rm -rf "$tmp"; cp -f "$VERIF_BUILD/go.mod.keep-sched" "$VERIF_ROOT/engine/go.mod"' EXIT
if [ "$flavour" = "race" ]; then
  go build -race -tags verif -overlay "$tmp/overlay.json" -o "$VERIF_BUILD/verif-sched-race" ./cmd/verif-sched
else
  go build -tags verif -overlay "$tmp/overlay.json" -o "$VERIF_BUILD/verif-sched" ./cmd/verif-sched
fi
