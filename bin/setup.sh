#!/bin/bash
# build everything once, offline, and warm the build cache
set -eu
. "$(dirname "$0")/env.sh"
cd "$VERIF_ROOT/engine"
cp /repo/go.sum go.sum
go build -o "$VERIF_BUILD/verif" ./cmd/verif
echo "setup ok"
