#!/bin/bash
# build everything once, offline, and warm the build cache (plain driver, instrumenter,
# scheduled worker with and without the race detector)
set -eu
. "$(dirname "$0")/env.sh"
cd "$VERIF_ROOT/engine"
cp /repo/go.sum go.sum
go build -o "$VERIF_BUILD/verif" ./cmd/verif
"$VERIF_ROOT/bin/build-sched.sh"
"$VERIF_ROOT/bin/build-sched.sh" race
echo "setup ok"
